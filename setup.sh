#!/bin/sh
# Offline setup: the framework is pure-stdlib Python run by /venv/bin/python and
# uses the system clang for the C front end. Nothing to build; just verify.
set -e
cd "$(dirname "$0")"
test -x /venv/bin/python
/venv/bin/python -c "import ast, json, fractions"
command -v clang >/dev/null || echo "warning: clang missing; C17/C18 will report ANALYSIS-ERROR"
mkdir -p evidence/replay .cache
chmod +x check
echo "setup ok"
