"""F17 (C01.R6): once an object has seen its process gone (_gone set by
is_running(), or by a signal that hit ESRCH), the recycled-PID guard is
bypassed: is_running() answers False early, _raise_if_pid_reused() does not
raise, and a later kill()/terminate()/nice(x)/... is delivered to whichever
process owns the PID by then.

History: spawn A; Process(A); A exits and is reaped; p.is_running() -> False
(what every monitoring loop does); the PID is recycled by B; p.terminate().
The kernel's PID table is simulated with a private procfs tree
(psutil.PROCFS_PATH) and the effectful calls are replaced by recorders; all
psutil code is the real code.  Exit 0 = property holds, 1 = defect reproduced."""
import os, shutil, signal, sys, tempfile
from unittest import mock
import psutil
from psutil import _pslinux

STAT = ("{pid} (victim) S 1 {pid} {pid} 0 -1 4194304 100 0 0 0 1 1 0 0 20 0 1 0 "
        "{start} 1000000 100 18446744073709551615 1 1 0 0 0 0 0 0 0 0 0 0 17 "
        "0 0 0 0 0 0 0 0 0 0 0 0 0 0\n")

def write_proc(root, pid, start):
    d = os.path.join(root, str(pid)); os.makedirs(d, exist_ok=True)
    open(os.path.join(d, "stat"), "w").write(STAT.format(pid=pid, start=start))
    open(os.path.join(d, "status"), "w").write(f"Name:\tvictim\nTgid:\t{pid}\nPid:\t{pid}\n")

root = tempfile.mkdtemp(prefix="fakeproc-")
open(os.path.join(root, "stat"), "w").write("cpu  1 1 1 1 1 1 1 1 1 1\nbtime 1700000000\n")
psutil.PROCFS_PATH = root
pid = 4242
delivered, failures = [], []
try:
    write_proc(root, pid, 100000)                 # A
    p = psutil.Process(pid)
    assert p.is_running()
    shutil.rmtree(os.path.join(root, str(pid)))   # A exits and is reaped
    with mock.patch("psutil._psposix.os.kill", side_effect=ProcessLookupError):
        assert p.is_running() is False            # monitoring code notices
    write_proc(root, pid, 105000)                 # B recycles the PID 50 s later
    assert psutil.Process(pid) != p
    rec = lambda what: (lambda *a, **k: delivered.append((what, a)))
    calls = [("kill", p.kill), ("terminate", p.terminate), ("suspend", p.suspend),
             ("resume", p.resume), ("send_signal", lambda: p.send_signal(signal.SIGUSR1)),
             ("nice", lambda: p.nice(5)),
             ("ionice", lambda: p.ionice(psutil.IOPRIO_CLASS_BE, 3)),
             ("rlimit", lambda: p.rlimit(psutil.RLIMIT_NOFILE, (64, 64))),
             ("cpu_affinity", lambda: p.cpu_affinity([0]))]
    with mock.patch("os.kill", rec("os.kill")), \
         mock.patch.object(_pslinux.cext_posix, "setpriority", rec("setpriority")), \
         mock.patch.object(_pslinux.cext, "proc_ioprio_set", rec("ioprio_set")), \
         mock.patch.object(_pslinux.resource, "prlimit", rec("prlimit")), \
         mock.patch.object(_pslinux.cext, "proc_cpu_affinity_set", rec("setaffinity")):
        for name, fun in calls:
            n = len(delivered)
            try:
                fun(); out = "returned normally"
            except psutil.NoSuchProcess:
                out = "NoSuchProcess"
            except Exception as e:
                out = f"{type(e).__name__}: {e}"
            if out != "NoSuchProcess" or delivered[n:]:
                failures.append(f"{name}(): {out}; delivered to PID {pid}: {delivered[n:]}")
finally:
    shutil.rmtree(root, ignore_errors=True)
for f in failures:
    print("FAIL:", f)
print("PASS" if not failures else "DEFECT REPRODUCED")
sys.exit(1 if failures else 0)
