"""F1 (C06.R1): threads() cuts the per-thread stat record at the FIRST ')'.
A thread whose name contains ')' yields garbage CPU times.
Exit 0 = property holds, 1 = defect reproduced."""
import os, sys, threading, time
import psutil

ready, stop = threading.Event(), threading.Event()
tid_box = []

def worker():
    tid = threading.get_native_id()
    with open(f"/proc/self/task/{tid}/comm", "w") as f:
        f.write("a) S 1 2 3 4 5")
    tid_box.append(tid)
    ready.set()
    stop.wait()

th = threading.Thread(target=worker); th.start(); ready.wait()
tid = tid_box[0]
try:
    with open(f"/proc/self/task/{tid}/stat", "rb") as f:
        raw = f.read()
    fields = raw[raw.rfind(b")") + 2:].split()
    ticks = os.sysconf("SC_CLK_TCK")
    want = (float(fields[11]) / ticks, float(fields[12]) / ticks)
    got = [t for t in psutil.Process().threads() if t.id == tid][0]
    ok = abs(got.user_time - want[0]) < 0.5 and abs(got.system_time - want[1]) < 0.5
    print("kernel:", want, "psutil:", (got.user_time, got.system_time))
finally:
    stop.set(); th.join()
print("PASS" if ok else "DEFECT REPRODUCED")
sys.exit(0 if ok else 1)
