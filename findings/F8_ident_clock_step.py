"""F8 (C02.R3): Process identity depends on the (re-read) boot time.

A clock step changes the kernel's published btime. After any psutil.boot_time()
call, a fresh Process(pid) of the same live process gets a different identity,
so is_running() turns False / == fails for a process that never ended.
Run from a psutil checkout. Exit 0 = property holds, 1 = defect reproduced.
"""
import io, subprocess, sys, time
from unittest import mock
import psutil
import psutil._pslinux as pl

child = subprocess.Popen([sys.executable, "-c", "import time; time.sleep(30)"])
saved_bt = pl.BOOT_TIME
bad = []
try:
    p = psutil.Process(child.pid)
    h0 = hash(p)
    real_open = pl.open_binary

    def stepped(path, *a, **kw):
        if path.endswith("/stat") and path.count("/") == 2:      # /proc/stat
            data = real_open(path).read()
            out = []
            for line in data.splitlines(True):
                if line.startswith(b"btime"):
                    line = b"btime %d\n" % (int(line.split()[1]) + 3600)
                out.append(line)
            return io.BytesIO(b"".join(out))
        return real_open(path, *a, **kw)

    with mock.patch.object(pl, "open_binary", side_effect=stepped):
        psutil.boot_time()                 # any monitoring loop does this
        if not p.is_running():
            bad.append("is_running() is False for a live process after a clock step "
                       "+ boot_time()")
        q = psutil.Process(child.pid)
        if p != q or hash(q) != h0:
            bad.append("two objects for the same live process are not equal / hash alike")
finally:
    pl.BOOT_TIME = saved_bt
    child.kill(); child.wait()
for b in bad:
    print("FAIL:", b)
print("PASS" if not bad else "DEFECT REPRODUCED")
sys.exit(1 if bad else 0)
