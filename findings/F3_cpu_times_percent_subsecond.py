"""F3 (C07.R3): cpu_times_percent() divides by max(1, total): for a total below
one second (one CPU over a short interval) the shares do not add up to 100.
Exit 0 = property holds, 1 = defect reproduced."""
import sys
from unittest import mock
import psutil

nt = psutil._psplatform.scputimes
n = len(nt._fields)
def sample(user, idle):
    vals = dict.fromkeys(nt._fields, 0.0); vals["user"] = user; vals["idle"] = idle
    return nt(**vals)
t1 = [sample(10.0, 100.0)]
t2 = [sample(10.1, 100.2)]        # 0.3 s elapsed on this CPU: 33.3% user, 66.7% idle
seq = iter([t1, t2])
with mock.patch("psutil.cpu_times", side_effect=lambda percpu=False: next(seq)):
    with mock.patch("psutil.time.sleep"):
        res = psutil.cpu_times_percent(interval=0.3, percpu=True)[0]
total = sum(res)
print(res, "sum =", total)
ok = abs(total - 100.0) < 0.5 and abs(res.user - 33.3) < 0.2
print("PASS" if ok else "DEFECT REPRODUCED")
sys.exit(0 if ok else 1)
