"""F9 (C04.R2): pid_exists(n) raises OverflowError for n >= 2**31.
Exit 0 = property holds, 1 = defect reproduced."""
import sys
import psutil
bad = []
for n in (2**31, 2**31 - 1, 2**32 + 5, 2**63, 2**64, 10**30):
    try:
        r = psutil.pid_exists(n)
        if r is not False:
            bad.append(f"pid_exists({n}) == {r!r}")
    except Exception as e:
        bad.append(f"pid_exists({n}) raised {type(e).__name__}: {e}")
for b in bad:
    print("FAIL:", b)
print("PASS" if not bad else "DEFECT REPRODUCED")
sys.exit(1 if bad else 0)
