"""F20 (C19.R5 per-cpu-state): FreeBSD cpu_freq() assigns min_freq/max_freq only
`if available_freq:`.  The native call returns an EMPTY freq_levels string when
dev.cpu.N.freq_levels cannot be read (arch/freebsd/cpu.c: "In case of failure, an
empty string is returned").  For the first CPU the names are then unbound
(UnboundLocalError out of cpu_freq()); for a later CPU they still hold the
PREVIOUS CPU's limits.  The real psutil/_psbsd.py is imported against a faked
native module.  Exit 0 = property holds, 1 = defect reproduced.
Run as:  cd <checkout> && /venv/bin/python /verif/findings/F20_freebsd_cpu_freq_levels.py"""
import importlib, os, sys
from unittest import mock

sys.path.insert(0, os.getcwd())
import psutil
from psutil import _common

fake = mock.MagicMock(name="_psutil_bsd")
fake.version = psutil.version_info[0] * 100 + psutil.version_info[1] * 10 + psutil.version_info[2]
flags = {"FREEBSD": True, "OPENBSD": False, "NETBSD": False}
sys.modules.pop("psutil._psbsd", None)
with mock.patch.dict(sys.modules, {"psutil._psutil_bsd": fake}), \
        mock.patch.multiple(_common, **flags), \
        mock.patch.object(psutil, "_psutil_bsd", fake, create=True), \
        mock.patch.object(psutil._psutil_posix, "AF_LINK", 18, create=True):
    B = importlib.import_module("psutil._psbsd")


def run(table):
    fake.cpu_freq = lambda cpu: table[cpu]
    with mock.patch.object(B, "cpu_count_logical", lambda: len(table)):
        try:
            return B.cpu_freq()
        except Exception as e:  # noqa: BLE001
            return e


ok = True
r = run([(2400, "")])
print("one CPU, freq_levels unreadable        ->", repr(r))
if isinstance(r, Exception) or [tuple(x) for x in r] != [(2400, None, None)]:
    ok = False
r = run([(2400, "2400/1000 800/500"), (1800, "")])
print("CPU1 freq_levels unreadable, CPU0 fine ->", repr(r))
if isinstance(r, Exception) or tuple(r[1]) != (1800, None, None):
    ok = False
print("PASS" if ok else "DEFECT REPRODUCED")
sys.exit(0 if ok else 1)
