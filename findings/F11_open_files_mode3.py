"""F11 (C14.R1): open_files() raises KeyError: 3 when the process holds a
descriptor opened with access mode 3 (accepted by open(2) on Linux).
Exit 0 = property holds, 1 = defect reproduced."""
import os, sys, tempfile
import psutil
fd, path = tempfile.mkstemp()
os.close(fd)
fd3 = os.open(path, 3)
try:
    try:
        files = psutil.Process().open_files()
        mine = [f for f in files if f.path == path]
        ok = bool(mine) and mine[0].mode in ("r", "w", "a", "r+", "a+")
        print("open_files() ->", mine)
    except Exception as e:
        ok = False
        print(f"open_files() raised {type(e).__name__}: {e}")
finally:
    os.close(fd3); os.unlink(path)
print("PASS" if ok else "DEFECT REPRODUCED")
sys.exit(0 if ok else 1)
