"""F18 (C19.R2): sensors_fans() globs the nested hwmon*/device/ layout only when
the flat hwmon*/ layout found nothing, whereas sensors_temperatures() takes the
union of both.  On a tree where one chip uses the flat layout and another one
the nested layout, the nested chip's fans silently disappear.
Exit 0 = property holds, 1 = defect reproduced."""
import os, shutil, sys, tempfile
from unittest import mock
import psutil
import psutil._pslinux as pl

root = tempfile.mkdtemp()
flat = os.path.join(root, "hwmon0"); nested = os.path.join(root, "hwmon1", "device")
os.makedirs(flat); os.makedirs(nested)
def w(d, name, val): open(os.path.join(d, name), "w").write(val + "\n")
w(flat, "name", "nct6775"); w(flat, "fan1_input", "1200"); w(flat, "fan1_label", "cpu")
w(nested, "name", "thinkpad"); w(nested, "fan1_input", "3400")
def fake(pat, *a, **k):
    if pat == "/sys/class/hwmon/hwmon*/fan*_*":
        return [os.path.join(flat, "fan1_input"), os.path.join(flat, "fan1_label")]
    if pat == "/sys/class/hwmon/hwmon*/device/fan*_*":
        return [os.path.join(nested, "fan1_input")]
    return []
try:
    with mock.patch.object(pl.glob, "glob", side_effect=fake):
        res = psutil.sensors_fans()
finally:
    shutil.rmtree(root)
print(res)
ok = set(res) == {"nct6775", "thinkpad"} and res["thinkpad"][0].current == 3400
print("PASS" if ok else "DEFECT REPRODUCED")
sys.exit(0 if ok else 1)
