"""F10 (C05.R2): children() can return the caller as its own child/descendant.

Run from a psutil checkout: /venv/bin/python F10_children_self.py
Exit 0 = property holds, 1 = defect reproduced.
"""
import os, sys
from unittest import mock
import psutil

p = psutil.Process()
me = p.pid
bad = []
# self-loop in the ppid table (ppid(0) == 0 exists on Windows/macOS)
with mock.patch("psutil._ppid_map", return_value={me: me}):
    if p in p.children():
        bad.append("flat: self-loop returns the caller as its own child")
    if p in p.children(recursive=True):
        bad.append("recursive: self-loop returns the caller as its own descendant")
# cycle through the caller made by PID reuse while the table was read
child = psutil.Popen([sys.executable, "-c", "import time; time.sleep(30)"])
try:
    with mock.patch("psutil._ppid_map", return_value={me: child.pid, child.pid: me}):
        got = p.children(recursive=True)
        if p in got:
            bad.append("recursive: cycle me->child->me returns the caller")
        if got.count(psutil.Process(child.pid)) != 1:
            bad.append("recursive: child not listed exactly once")
finally:
    child.kill(); child.wait()
for b in bad:
    print("FAIL:", b)
print("PASS" if not bad else "DEFECT REPRODUCED")
sys.exit(1 if bad else 0)
