"""F4 (C19.R1): in the thermal_zone branch of sensors_temperatures() the
milli-degree -> degree conversion of `high`/`critical` sits inside the
trip-point loop, so it is applied again on every later iteration.
A zone with trip points (high=80C, then two more) reports high=8e-05.
Exit 0 = property holds, 1 = defect reproduced."""
import glob as _glob, os, shutil, sys, tempfile
from unittest import mock
import psutil
import psutil._pslinux as pl

root = tempfile.mkdtemp()
z = os.path.join(root, "thermal_zone0"); os.makedirs(z)
def w(name, val): open(os.path.join(z, name), "w").write(val + "\n")
w("temp", "45000"); w("type", "x86_pkg_temp")
# several trip points; set iteration order is arbitrary, so provide many
# passive ones around one 'high' and one 'critical'
w("trip_point_0_type", "high"); w("trip_point_0_temp", "80000")
w("trip_point_1_type", "critical"); w("trip_point_1_temp", "100000")
for i in range(2, 8):
    w(f"trip_point_{i}_type", "passive"); w(f"trip_point_{i}_temp", "70000")
real = _glob.glob
def fake(pat, *a, **k):
    if pat.startswith("/sys/class/hwmon") or pat.startswith("/sys/devices/platform/coretemp"):
        return []
    if pat == "/sys/class/thermal/thermal_zone*":
        return [z]
    return real(pat, *a, **k)
try:
    with mock.patch.object(pl.glob, "glob", side_effect=fake):
        res = psutil.sensors_temperatures()
finally:
    shutil.rmtree(root)
e = res["x86_pkg_temp"][0]
print(e)
ok = (e.current, e.high, e.critical) == (45.0, 80.0, 100.0)
print("PASS" if ok else "DEFECT REPRODUCED")
sys.exit(0 if ok else 1)
