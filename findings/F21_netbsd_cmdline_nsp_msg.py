"""F21 (C20.R2 constructor roles): NetBSD Process.cmdline() raises
NoSuchProcess(pid, name, ppid): the third positional parameter of NoSuchProcess is
`msg`, not `ppid` (only ZombieProcess takes a ppid).  The error object then carries
an int as its message and str(exc) / print(exc) / logging it raises TypeError
instead of describing the process that is gone.  The real psutil/_psbsd.py is
imported against a faked native module.  Exit 0 = property holds, 1 = defect.
Run as:  cd <checkout> && /venv/bin/python /verif/findings/F21_netbsd_cmdline_nsp_msg.py"""
import errno, importlib, os, sys
from unittest import mock

sys.path.insert(0, os.getcwd())
import psutil
from psutil import _common

fake = mock.MagicMock(name="_psutil_bsd")
fake.version = psutil.version_info[0] * 100 + psutil.version_info[1] * 10 + psutil.version_info[2]
fake.proc_cmdline.side_effect = OSError(errno.EINVAL, "Invalid argument")
flags = {"FREEBSD": False, "OPENBSD": False, "NETBSD": True}
sys.modules.pop("psutil._psbsd", None)
with mock.patch.dict(sys.modules, {"psutil._psutil_bsd": fake}), \
        mock.patch.multiple(_common, **flags), \
        mock.patch.object(psutil, "_psutil_bsd", fake, create=True), \
        mock.patch.object(psutil._psutil_posix, "AF_LINK", 18, create=True):
    B = importlib.import_module("psutil._psbsd")

p = B.Process(4242)
p._name, p._ppid = "sleep", 77
ok = True
with mock.patch.object(B, "is_zombie", lambda pid: False), \
        mock.patch.object(B, "pid_exists", lambda pid: False):
    try:
        p.cmdline()
        print("cmdline() returned normally for a vanished process")
        ok = False
    except psutil.NoSuchProcess as e:
        print("raised NoSuchProcess pid=%r name=%r msg=%r" % (e.pid, e.name, e.msg))
        try:
            print("str(exc) ->", str(e))
        except TypeError as te:
            print("str(exc) raises TypeError:", te)
            ok = False
        if not isinstance(e.msg, str):
            ok = False
print("PASS" if ok else "DEFECT REPRODUCED")
sys.exit(0 if ok else 1)
