"""F2 (C06.R5): unanchored status-file regexes match inside the Name: line.
A process named 'Uid:\\t7\\t8\\t9' reports puids(7, 8, 9); 'Threads:\\t99' 99 threads.
Exit 0 = property holds, 1 = defect reproduced."""
import subprocess, sys, time
import psutil

def spawn(name):
    code = ("import sys,time\n"
            "open('/proc/self/comm','w').write(sys.argv[1])\n"
            "print('ok', flush=True)\ntime.sleep(30)\n")
    p = subprocess.Popen([sys.executable, "-c", code, name], stdout=subprocess.PIPE)
    p.stdout.readline()
    return p

bad = []
c = spawn("Uid:\t7\t8\t9")
try:
    u = psutil.Process(c.pid).uids()
    me = psutil.Process().uids()
    if tuple(u) != tuple(me):
        bad.append(f"uids() of a child named 'Uid:\\t7\\t8\\t9' = {u}, kernel says {me}")
finally:
    c.kill(); c.wait()
c = spawn("Gid:\t7\t8\t9")
try:
    g = psutil.Process(c.pid).gids()
    me = psutil.Process().gids()
    if tuple(g) != tuple(me):
        bad.append(f"gids() = {g}, kernel says {me}")
finally:
    c.kill(); c.wait()
c = spawn("Threads:\t99")
try:
    n = psutil.Process(c.pid).num_threads()
    if n != 1:
        bad.append(f"num_threads() of a single-threaded child named 'Threads:\\t99' = {n}")
finally:
    c.kill(); c.wait()
for b in bad:
    print("FAIL:", b)
print("PASS" if not bad else "DEFECT REPRODUCED")
sys.exit(1 if bad else 0)
