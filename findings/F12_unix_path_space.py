"""F12 (C11.R3): a UNIX socket bound to a path containing a space is reported
with laddr='' (the /proc/net/unix line is split on every whitespace and only
8-token lines keep their path).  Parses a /proc/net/unix content through the
real parser.  Exit 0 = property holds, 1 = defect reproduced."""
import io, socket, sys
from unittest import mock
import psutil._pslinux as pl

content = ("Num       RefCount Protocol Flags    Type St Inode Path\n"
           "0000000000000000: 00000002 00000000 00010000 0001 01 12345 /tmp/my dir/a b.sock\n"
           "0000000000000000: 00000002 00000000 00010000 0001 01 12346 /tmp/plain.sock\n"
           "0000000000000000: 00000002 00000000 00000000 0002 01 12347\n")
with mock.patch.object(pl, "open_text", return_value=io.StringIO(content)):
    rows = list(pl.NetConnections.process_unix("/proc/net/unix", socket.AF_UNIX, {}))
paths = [r[3] for r in rows]
print(paths)
ok = paths == ["/tmp/my dir/a b.sock", "/tmp/plain.sock", ""]
print("PASS" if ok else "DEFECT REPRODUCED")
sys.exit(0 if ok else 1)
