"""F14 (C17.R4): proc_ioprio_set packs `ioclass << 13` in a signed int without a
range check: a large class overflows (undefined behaviour). With the usual
wrap-around the class bits vanish, so ionice(2**30, 0) "succeeds" and silently
sets the I/O class to NONE instead of failing.
Exit 0 = property holds, 1 = defect reproduced."""
import sys
import psutil
p = psutil.Process()
before = p.ionice()
p.ionice(psutil.IOPRIO_CLASS_BE, 5)
try:
    p.ionice(2 ** 30, 0)
    outcome = "returned normally"
except (OSError, ValueError, OverflowError) as e:
    outcome = f"raised {type(e).__name__}"
after = p.ionice()
print("ionice(2**30, 0):", outcome, "; I/O priority now", after)
ok = outcome != "returned normally" and (int(after.ioclass), after.value) == (2, 5)
try:
    p.ionice(before.ioclass, before.value if before.ioclass in (1, 2) else None)
except Exception:
    pass
print("PASS" if ok else "DEFECT REPRODUCED")
sys.exit(0 if ok else 1)
