"""F5/F6/F7 (C20.R4/R3/R6): defects in platform layers the Linux test-suite never runs.
The platform modules are imported over a stub native layer (real psutil code,
stub C extension).  Exit 0 = all hold, 1 = at least one defect reproduced.

F5: gids() returns the `puids` tuple on macOS, Solaris and AIX
F6: _pssunos.Process.terminal() wraps a *value* with wrap_exceptions(), so the
    `tty != PRNODEV` test compares a function object and never skips
F7: psutil.net_if_addrs() on Windows discards nt._replace(broadcast=...)"""
import importlib, socket, sys, types
from unittest import mock

class Stub(types.ModuleType):
    def __getattr__(self, name):
        if name.startswith("__"):
            raise AttributeError(name)
        if name.isupper():
            return abs(hash(name)) % 1000 + 1
        return lambda *a, **k: 0

bad = []
import psutil
from psutil import _common

import psutil._psutil_posix as _pp
if not hasattr(_pp, "AF_LINK"):
    # constant only defined by the BSD/macOS/Solaris builds of the extension
    setattr(_pp, "AF_LINK", 18)


def load(modname, natives):
    for n in natives:
        sys.modules[f"psutil.{n}"] = Stub(f"psutil.{n}")
    sys.modules.pop(f"psutil.{modname}", None)
    return importlib.import_module(f"psutil.{modname}")

# ---- F5 macOS
m = load("_psosx", ["_psutil_osx"])
p = m.Process(1)
with mock.patch.object(m.cext, "proc_kinfo_oneshot", lambda pid: tuple(range(100, 111)), create=True):
    g = p.gids()
if type(g).__name__ != "pgids":
    bad.append(f"F5 macOS: gids() -> {g!r} (type {type(g).__name__}, documented pgids)")
# ---- F5 AIX
with mock.patch("os.path.exists", return_value=True):
    m = load("_psaix", ["_psutil_aix"])
p = m.Process(1)
with mock.patch.object(m.cext, "proc_cred", lambda pid, path: (1, 2, 3, 4, 5, 6), create=True), \
     mock.patch.object(m, "get_procfs_path", lambda: "/proc"):
    g = p.gids()
if type(g).__name__ != "pgids":
    bad.append(f"F5 AIX: gids() -> {g!r} (documented pgids)")
# ---- F5 + F6 Solaris
m = load("_pssunos", ["_psutil_sunos"])
p = m.Process(1)
with mock.patch.object(m.cext, "proc_cred", lambda pid, path: (1, 2, 3, 4, 5, 6), create=True), \
     mock.patch.object(m, "get_procfs_path", lambda: "/proc"):
    g = p.gids()
if type(g).__name__ != "pgids":
    bad.append(f"F5 Solaris: gids() -> {g!r} (documented pgids)")
m.cext.PRNODEV = 4294967295
rec = [0] * 12
rec[m.proc_info_map['ttynr']] = m.cext.PRNODEV          # the process has NO terminal
readlinks = []
with mock.patch.object(m.cext, "proc_basic_info", lambda pid, path: tuple(rec), create=True), \
     mock.patch.object(m.os, "readlink", lambda pth: readlinks.append(pth) or "/dev/pts/7"):
    t = p.terminal()
if t is not None or readlinks:
    bad.append(f"F6 Solaris: terminal() of a process without tty (PRNODEV) -> {t!r} "
               f"after reading {readlinks[:1]} (the PRNODEV test never matches)")
# ---- F7 Windows front end
raw = [("eth0", int(socket.AF_INET), "192.168.1.10", "255.255.255.0", None, None)]
with mock.patch.object(psutil, "WINDOWS", True), mock.patch.object(psutil, "POSIX", False), \
     mock.patch.object(psutil._psplatform, "net_if_addrs", lambda: list(raw)):
    r = psutil.net_if_addrs()["eth0"][0]
if r.broadcast != "192.168.1.255":
    bad.append(f"F7 Windows: net_if_addrs() broadcast = {r.broadcast!r}, computed "
               f"192.168.1.255 was discarded")
for b in bad:
    print("FAIL:", b)
print("PASS" if not bad else "DEFECT REPRODUCED")
sys.exit(1 if bad else 0)
