"""F13 (C08.R6): swap_memory().sin/sout scale the kernel's page counters
(pswpin/pswpout, in pages) by a literal 4096 instead of the page size.
On a kernel with 64 KiB pages (arm64/ppc64 configurations) the result is 16x
too small.  The configuration is simulated by declaring PAGESIZE = 65536 (the
module constant psutil itself uses for the other page-based figures) and a
/proc/vmstat with known counters.  Exit 0 = holds, 1 = defect reproduced."""
import io, sys
from unittest import mock
import psutil
import psutil._pslinux as pl

real = pl.open_binary
def fake(path, *a, **k):
    if path.endswith("/vmstat"):
        return io.BytesIO(b"nr_free_pages 1\npswpin 10\npswpout 20\n")
    return real(path, *a, **k)
with mock.patch.object(pl, "PAGESIZE", 65536), mock.patch.object(pl, "open_binary", side_effect=fake):
    s = psutil.swap_memory()
want = (10 * 65536, 20 * 65536)
print("sin/sout:", (s.sin, s.sout), "expected on a 64K-page kernel:", want)
ok = (s.sin, s.sout) == want
print("PASS" if ok else "DEFECT REPRODUCED")
sys.exit(0 if ok else 1)
