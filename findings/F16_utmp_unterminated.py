"""F16 (C17.R2): users() reads the fixed-width utmp fields as C strings.
A login record whose ut_user is filled to its full 32 bytes (no terminator, as
utmp(5) allows) comes back with the host field appended to the user name.
Writes a crafted /var/run/utmp (root; restored afterwards).
Exit 0 = property holds, 1 = defect reproduced, 2 = cannot write utmp."""
import os, struct, sys, time
import psutil

PATH = "/var/run/utmp"
FMT = "hi32s4s32s256shhiii4i20s"
assert struct.calcsize(FMT) == 384, struct.calcsize(FMT)
user = b"U" * 32                      # full width: NOT NUL-terminated
line = b"pts/7"
host = b"example.org"
rec = struct.pack(FMT, 7, os.getpid(), line, b"ts/7", user, host, 0, 0, 0,
                  int(time.time()), 0, 0, 0, 0, 0, b"")
backup = None
try:
    if os.path.exists(PATH):
        backup = open(PATH, "rb").read()
    with open(PATH, "wb") as f:
        f.write(rec)
except OSError as e:
    print("cannot write", PATH, e); sys.exit(2)
try:
    us = psutil.users()
finally:
    if backup is None:
        os.unlink(PATH)
    else:
        open(PATH, "wb").write(backup)
print(us)
ok = len(us) == 1 and us[0].name == "U" * 32 and us[0].terminal == "pts/7" \
    and us[0].host == "example.org"
print("PASS" if ok else "DEFECT REPRODUCED")
sys.exit(0 if ok else 1)
