"""F19 (C03.R6 / C05): Process.parents() calls proc.parent() on each ancestor
outside any try.  If an ancestor exits while the chain is walked, the query on
a LIVE process raises NoSuchProcess carrying the ancestor's pid, not the
object's.  Exit 0 = property holds, 1 = defect reproduced."""
import os, subprocess, sys, time
import psutil

code = ("import subprocess, sys, time\n"
        "c = subprocess.Popen([sys.executable, '-c', 'import time; time.sleep(60)'])\n"
        "print(c.pid, flush=True)\n"
        "time.sleep(60)\n")
a = subprocess.Popen([sys.executable, "-c", code], stdout=subprocess.PIPE, text=True)
bpid = int(a.stdout.readline())
p = psutil.Process(bpid)
orig = psutil.Process.parent
state = {"n": 0}
def parent(self):
    r = orig(self)
    state["n"] += 1
    if state["n"] == 1:             # right after self.parent() returned A
        a.kill(); a.wait()          # ... A exits and is reaped
    return r
psutil.Process.parent = parent
try:
    try:
        chain = p.parents()
        outcome = f"returned {[x.pid for x in chain]}"
        ok = True
    except psutil.NoSuchProcess as e:
        outcome = f"raised NoSuchProcess(pid={e.pid}) for a query on live pid {p.pid}"
        ok = e.pid == p.pid
finally:
    psutil.Process.parent = orig
    try:
        os.kill(bpid, 9)
    except OSError:
        pass
print("parents():", outcome)
print("PASS" if ok else "DEFECT REPRODUCED")
sys.exit(0 if ok else 1)
