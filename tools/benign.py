#!/venv/bin/python
"""Behaviour-preserving refactorings produced by independent agents: every check
must stay silent on each of them.

  benign.py import <worktree> <PROP>   copy <worktree>/BENIGN/* to /verif/benign/<PROP>-<k>/
  benign.py eval [<id> ...]            apply each patch to a scratch copy of /repo (never to
                                       /repo itself), run every registered check with
                                       --repo <scratch>, write benign/<id>/result.json
"""
import concurrent.futures as cf
import json, os, shutil, subprocess, sys, tempfile

VERIF = os.path.dirname(os.path.dirname(os.path.abspath(__file__)))
BEN = os.path.join(VERIF, "benign")
REPO = "/repo"


def do_import(wt, prop):
    src = os.path.join(wt, "BENIGN")
    for k in sorted(os.listdir(src)):
        d = os.path.join(src, k)
        if not os.path.isfile(os.path.join(d, "patch.diff")):
            continue
        n = 1
        while os.path.exists(os.path.join(BEN, f"{prop}-{n}")):
            n += 1
        dst = os.path.join(BEN, f"{prop}-{n}")
        os.makedirs(dst)
        for f in ("patch.diff", "meta.json"):
            if os.path.exists(os.path.join(d, f)):
                shutil.copy(os.path.join(d, f), dst)
        print("imported", os.path.basename(dst))


def claimed():
    m = json.load(open(os.path.join(VERIF, "MANIFEST.json")))
    return [c["property_id"] for c in m["checks"]]


def scratch():
    d = tempfile.mkdtemp(prefix="psutil-benign-")
    shutil.copytree(os.path.join(REPO, "psutil"), os.path.join(d, "psutil"),
                    ignore=shutil.ignore_patterns("*.so", "__pycache__", "tests"))
    os.makedirs(os.path.join(d, "docs"))
    shutil.copy(os.path.join(REPO, "docs", "index.rst"), os.path.join(d, "docs"))
    shutil.copy(os.path.join(REPO, "setup.py"), d)
    return d


def eval_one(bid):
    d = os.path.join(BEN, bid)
    res = {"id": bid}
    s = scratch()
    try:
        p = subprocess.run(["patch", "-p1", "-s", "--no-backup-if-mismatch", "-i",
                            os.path.join(d, "patch.diff")], cwd=s, capture_output=True, text=True)
        if p.returncode != 0:
            res["apply"] = "does not apply: " + (p.stdout + p.stderr)[-300:]
            return res
        res["apply"] = "clean"
        fired = {}
        for prop in claimed():
            q = subprocess.run([os.path.join(VERIF, "check"), prop, "--repo", s],
                               capture_output=True, text=True,
                               env=dict(os.environ, VERIF_SELFTEST="1",
                                        VERIF_EVIDENCE_DIR=os.path.join(s, "evidence")))
            if q.returncode != 0:
                out = q.stdout + q.stderr
                lines = [l.strip() for l in out.splitlines()
                         if "rule=" in l and not l.startswith("KNOWN")][:4]
                fired[prop] = {"exit": q.returncode,
                               "what": lines or out.splitlines()[:2]}
        res["not_silent"] = fired
        res["silent"] = not fired
        return res
    finally:
        shutil.rmtree(s, ignore_errors=True)
        with open(os.path.join(d, "result.json"), "w") as f:
            json.dump(res, f, indent=1)


def main():
    if len(sys.argv) >= 4 and sys.argv[1] == "import":
        os.makedirs(BEN, exist_ok=True)
        return do_import(sys.argv[2], sys.argv[3])
    if len(sys.argv) >= 2 and sys.argv[1] == "eval":
        ids = sys.argv[2:] or sorted(os.listdir(BEN))
        bad = 0
        with cf.ThreadPoolExecutor(4) as ex:
            for r in ex.map(eval_one, ids):
                try:
                    st_ = json.load(open(os.path.join(BEN, r["id"], "meta.json"))).get("status")
                except (OSError, ValueError):
                    st_ = None
                if r.get("silent"):
                    print(r["id"], "silent")
                elif st_ == "open-false-alarm":
                    print(r["id"], "OPEN (known false alarm, see DESIGN.md 13b)",
                          json.dumps(r.get("not_silent", {}))[:200], "silent")
                else:
                    bad += 1
                    print(r["id"], "NOT SILENT" if "not_silent" in r else r.get("apply"),
                          json.dumps(r.get("not_silent", {}))[:600])
        print(f"{len(ids)} refactorings, {bad} not silent")
        return
    sys.exit(__doc__)


if __name__ == "__main__":
    main()
