#!/venv/bin/python
"""Regenerate /verif/MANIFEST.json from sa/manifest_table.py and validate it."""

import json
import os
import sys

HERE = os.path.dirname(os.path.dirname(os.path.abspath(__file__)))
sys.path.insert(0, HERE)

from sa import manifest_table as T  # noqa: E402


def main():
    props = [json.loads(l)["id"] for l in open(os.path.join(HERE, "properties.jsonl"))]
    checks = []
    na = []
    for pid in props:
        if pid in T.CLAIMED:
            c = T.CLAIMED[pid]
            checks.append({
                "property_id": pid,
                "quick_cmd": f"./check {pid} --tier quick",
                "thorough_cmd": f"./check {pid} --tier thorough",
                "evidence_file": f"/verif/evidence/{pid}.json",
                "replay_cmd_template": f"./check {pid} --replay {{path}}",
                "engine": "sa",
                "level_claimed": {
                    "category": "other",
                    "text": c["text"],
                    "design_ref": c.get("design_ref", f"DESIGN.md §4 {pid}"),
                },
                "level_note": c["note"],
                "technique": c["technique"],
            })
        else:
            na.append({"property_id": pid,
                       "reason": T.NOT_APPLICABLE.get(
                           pid, "no sound static rule implemented yet for this "
                                "property; not claimed")})
    m = {
        "version": 1,
        "setup_cmd": "./setup.sh",
        "hooks": {
            "guard": "PSUTIL_VERIF",
            "enable": "none: static analysis instruments nothing; checks read "
                      "/repo's working tree as text/AST",
            "baseline_off_cmd": "cd /repo && /venv/bin/python -m pytest -ra -q "
                                "-p no:cacheprovider --timeout=900 "
                                "--continue-on-collection-errors",
            "source_commits": [],
            "add_only": True,
        },
        "engines": [{
            "name": "sa",
            "path": "/verif/sa",
            "serves_properties": sorted(T.CLAIMED),
            "kind_free_text": "repo-specific static analysis: Python ast -> "
                              "CFG/dominators, call graph, exception-escape and "
                              "effect fix-points, term/unit/polynomial abstract "
                              "interpretation; clang JSON AST for the Linux C "
                              "extension; oracle tables from kernel docs",
        }],
        "checks": checks,
        "not_applicable": na,
        "notes": T.NOTES,
    }
    out = os.path.join(HERE, "MANIFEST.json")
    with open(out, "w") as f:
        json.dump(m, f, indent=1)
    try:
        import jsonschema
        schema = json.load(open("/root/.vp/MANIFEST.schema.json"))
        jsonschema.validate(m, schema)
        print("MANIFEST.json valid;", len(checks), "claimed,", len(na), "n/a")
    except ImportError:
        print("MANIFEST.json written (jsonschema not importable here)")


if __name__ == "__main__":
    main()
