#!/venv/bin/python
"""Run the pinned test suite inside a worktree of psutil and compare with
BASELINE.json's stable_pass list.  usage: run_baseline.py <worktree> [pytest args]
Exit 0 iff every stable_pass test passed."""
import json, os, subprocess, sys, tempfile
import xml.etree.ElementTree as ET

wt = os.path.abspath(sys.argv[1])
extra = sys.argv[2:]
base = json.load(open('/root/.vp/BASELINE.json'))
stable = set(base['stable_pass'])
fd, xml = tempfile.mkstemp(suffix='.xml'); os.close(fd)
cmd = ['/venv/bin/python', '-m', 'pytest', '-ra', '-q', '-p', 'no:cacheprovider',
       '--timeout=900', '--continue-on-collection-errors', f'--junitxml={xml}'] + extra
env = dict(os.environ); env.pop('PYTHONPATH', None)
p = subprocess.run(cmd, cwd=wt, env=env, stdout=subprocess.PIPE, stderr=subprocess.STDOUT, text=True)
passed, failed = set(), set()
try:
    for tc in ET.parse(xml).getroot().iter('testcase'):
        name = f"{tc.get('classname')}::{tc.get('name')}"
        bad = any(ch.tag in ('failure', 'error') for ch in tc)
        skipped = any(ch.tag == 'skipped' for ch in tc)
        if bad: failed.add(name)
        elif not skipped: passed.add(name)
finally:
    os.unlink(xml)
if extra:
    ran = passed | failed
    missing = sorted((stable & ran) - passed)
else:
    missing = sorted(stable - passed)
print(p.stdout[-1500:])
print(f"stable_pass tests: {len(stable)}; passed now: {len(stable & passed)}; "
      f"NOT passing: {len(missing)}")
for m in missing[:50]: print("  REGRESSION:", m)
sys.exit(1 if missing else 0)
