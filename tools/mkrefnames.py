#!/venv/bin/python
"""Generate sa/oracles/refnames.json from the tree the rules were written
against (the pinned commit plus the fix: commits).  usage: mkrefnames.py [repo]"""
import json, os, sys
HERE = os.path.dirname(os.path.abspath(__file__))
sys.path.insert(0, os.path.dirname(HERE))
os.environ["VERIF_NO_CANON"] = "1"
from sa.core.pyrepo import Repo
from sa.core import canon_names as cn

repo = Repo(sys.argv[1] if len(sys.argv) > 1 else "/repo")
out = {"__functions__": {}}
for mn, m in repo.modules.items():
    # every function / method of the module, nested ones excluded ("f", "Cls.m")
    out["__functions__"][mn] = sorted(m.funcs)
for mn, m in repo.modules.items():
    for qual, fis in m.funcs.items():
        for k, fi in enumerate(fis):
            if fi.parent is not None:
                continue
            names = cn.renameable(fi.node)
            if not names:
                continue
            out[f"{mn}:{qual}#{k}"] = cn.shapes(fi.node, names)
with open(cn.REF, "w") as f:
    json.dump(out, f, separators=(",", ":"), sort_keys=True)
print(f"{len(out) - 1} functions, "
      f"{sum(len(v) for k, v in out.items() if k != '__functions__')} statements -> {cn.REF}")
