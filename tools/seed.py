#!/venv/bin/python
"""Manage seeded breakages.

  seed.py import <worktree> <PROP>   copy <worktree>/SEED/* to /verif/seeded/<PROP>-<k>/
  seed.py eval [<seed-id> ...]       for each seed, on a private scratch copy of /repo's working
                                     tree (never on /repo): run the demo (must pass), apply the
                                     patch (rebuilding the extension if C changed), run the demo
                                     (must fail), run every registered check with --repo <copy>;
                                     the outcome is written to seeded/<id>/result.json
"""
import json, os, shutil, subprocess, sys

VERIF = os.path.dirname(os.path.dirname(os.path.abspath(__file__)))
SEEDED = os.path.join(VERIF, "seeded")
REPO = "/repo"


def sh(cmd, cwd=None, timeout=600):
    p = subprocess.run(cmd, cwd=cwd, shell=isinstance(cmd, str), capture_output=True,
                       text=True, timeout=timeout)
    return p.returncode, (p.stdout + p.stderr)


def do_import(wt, prop):
    src = os.path.join(wt, "SEED")
    for k in sorted(os.listdir(src)):
        d = os.path.join(src, k)
        if not os.path.isfile(os.path.join(d, "patch.diff")):
            continue
        n = 1
        while os.path.exists(os.path.join(SEEDED, f"{prop}-{n}")):
            n += 1                      # never overwrite an earlier round
        dst = os.path.join(SEEDED, f"{prop}-{n}")
        os.makedirs(dst, exist_ok=True)
        for f in ("patch.diff", "demo.py", "meta.json"):
            if os.path.exists(os.path.join(d, f)):
                shutil.copy(os.path.join(d, f), dst)
        print("imported", dst)


def claimed():
    m = json.load(open(os.path.join(VERIF, "MANIFEST.json")))
    return [c["property_id"] for c in m["checks"]]


def scratch_checkout():
    """A private copy of /repo's working tree (sources, built extensions, build
    files; no .git) under a temporary directory: seeds are never applied to /repo."""
    import tempfile
    d = tempfile.mkdtemp(prefix="psutil-seed-")
    for name in os.listdir(REPO):
        if name in (".git", "build", "dist", ".pytest_cache", "__pycache__"):
            continue
        src = os.path.join(REPO, name)
        if os.path.isdir(src):
            shutil.copytree(src, os.path.join(d, name), symlinks=True,
                            ignore=shutil.ignore_patterns("__pycache__", "*.pyc"))
        else:
            shutil.copy2(src, os.path.join(d, name))
    return d


def eval_one(sid):
    d = os.path.join(SEEDED, sid)
    res = {"seed": sid}
    patch = os.path.join(d, "patch.diff")
    demo = os.path.join(d, "demo.py")
    s = scratch_checkout()
    try:
        rc0, o0 = sh(["/venv/bin/python", demo], cwd=s)
        res["demo_without_patch"] = "pass" if rc0 == 0 else f"FAIL rc={rc0}"
        rc, o = sh(["patch", "-p1", "-s", "--no-backup-if-mismatch", "-i", patch], cwd=s)
        if rc != 0:
            res["apply"] = "does not apply: " + o.strip()[-300:]
            return res
        res["apply"] = "clean"
        changed_c = any(l.startswith("+++ ") and l.strip().endswith((".c", ".h"))
                        for l in open(patch, errors="replace"))
        if changed_c:
            sh("/venv/bin/python setup.py build_ext -i", cwd=s, timeout=1200)
        rc1, o1 = sh(["/venv/bin/python", demo], cwd=s)
        res["demo_with_patch"] = "fails (as intended)" if rc1 != 0 else "PASSES"
        res["demo_output"] = o1.strip()[-400:]
        fired = {}
        env = dict(os.environ, VERIF_SELFTEST="1", VERIF_EVIDENCE_DIR=os.path.join(s, ".evidence"))
        for p in claimed():
            q = subprocess.run([os.path.join(VERIF, "check"), p, "--repo", s], cwd=VERIF,
                               capture_output=True, text=True, timeout=600, env=env)
            rcc, oc = q.returncode, q.stdout + q.stderr
            if rcc != 0:
                lines = [l.strip() for l in oc.splitlines()
                         if "rule=" in l and "KNOWN" not in l]
                fired[p] = {"exit": rcc, "rules": sorted({l.split("rule=")[1].split()[0]
                                                          for l in lines})[:6],
                            "first": (lines[0][:200] if lines else oc[:200])}
        res["checks_fired"] = fired
        prop = sid.split("-")[0]
        res["caught_by_own_property"] = prop in fired and fired[prop]["exit"] == 1
        res["caught"] = any(v["exit"] == 1 for v in fired.values())
        return res
    finally:
        shutil.rmtree(s, ignore_errors=True)
        json.dump(res, open(os.path.join(d, "result.json"), "w"), indent=1)


def do_eval(ids):
    import concurrent.futures as cf
    jobs = int(os.environ.get("SEED_JOBS", "6"))
    missed = 0
    with cf.ThreadPoolExecutor(jobs) as ex:
        for res in ex.map(eval_one, ids):
            if not res.get("caught"):
                missed += 1
            print(res["seed"], "caught" if res.get("caught") else "MISSED",
                  res.get("demo_without_patch"), "/", res.get("demo_with_patch", res.get("apply")),
                  {k: v["rules"] for k, v in res.get("checks_fired", {}).items()}, flush=True)
    print(f"{len(ids)} seeds, {missed} not caught")


if __name__ == "__main__":
    if sys.argv[1] == "import":
        do_import(sys.argv[2], sys.argv[3])
    else:
        ids = sys.argv[2:] or sorted(os.listdir(SEEDED))
        do_eval(ids)
