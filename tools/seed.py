#!/venv/bin/python
"""Manage seeded breakages.

  seed.py import <worktree> <PROP>   copy <worktree>/SEED/* to /verif/seeded/<PROP>-<k>/
  seed.py eval [<seed-id> ...]       for each seed: check that /repo is clean, run the demo
                                     (must pass), apply the patch, run the demo (must fail),
                                     run every registered check, undo the patch; the
                                     outcome is written to seeded/<id>/result.json
"""
import json, os, shutil, subprocess, sys

VERIF = os.path.dirname(os.path.dirname(os.path.abspath(__file__)))
SEEDED = os.path.join(VERIF, "seeded")
REPO = "/repo"


def sh(cmd, cwd=None, timeout=600):
    p = subprocess.run(cmd, cwd=cwd, shell=isinstance(cmd, str), capture_output=True,
                       text=True, timeout=timeout)
    return p.returncode, (p.stdout + p.stderr)


def do_import(wt, prop):
    src = os.path.join(wt, "SEED")
    for k in sorted(os.listdir(src)):
        d = os.path.join(src, k)
        if not os.path.isfile(os.path.join(d, "patch.diff")):
            continue
        n = 1
        while os.path.exists(os.path.join(SEEDED, f"{prop}-{n}")):
            n += 1                      # never overwrite an earlier round
        dst = os.path.join(SEEDED, f"{prop}-{n}")
        os.makedirs(dst, exist_ok=True)
        for f in ("patch.diff", "demo.py", "meta.json"):
            if os.path.exists(os.path.join(d, f)):
                shutil.copy(os.path.join(d, f), dst)
        print("imported", dst)


def claimed():
    m = json.load(open(os.path.join(VERIF, "MANIFEST.json")))
    return [c["property_id"] for c in m["checks"]]


def do_eval(ids):
    rc, out = sh("git status --porcelain --untracked-files=no", cwd=REPO)
    if out.strip():
        sys.exit("/repo has uncommitted changes:\n" + out)
    for sid in ids:
        d = os.path.join(SEEDED, sid)
        res = {"seed": sid}
        patch = os.path.join(d, "patch.diff")
        demo = os.path.join(d, "demo.py")
        rc0, o0 = sh(["/venv/bin/python", demo], cwd=REPO)
        res["demo_without_patch"] = "pass" if rc0 == 0 else f"FAIL rc={rc0}"
        rc, o = sh(["git", "apply", "--check", patch], cwd=REPO)
        if rc != 0:
            rc, o = sh(["git", "apply", "--3way", patch], cwd=REPO)
            if rc != 0:
                res["apply"] = "does not apply: " + o.strip()[-300:]
                sh(["git", "reset", "-q", "HEAD", "--", "."], cwd=REPO)
                sh(["git", "checkout", "--", "."], cwd=REPO)
                sh("git checkout -- . && git reset -q", cwd=REPO)
                json.dump(res, open(os.path.join(d, "result.json"), "w"), indent=1)
                print(sid, res)
                continue
            sh("git reset -q", cwd=REPO)
            res["apply"] = "3way"
        else:
            sh(["git", "apply", patch], cwd=REPO)
            res["apply"] = "clean"
        try:
            changed_c = any(l.endswith((".c", ".h")) for l in
                            sh("git diff --name-only", cwd=REPO)[1].split())
            if changed_c:
                sh("/venv/bin/python setup.py build_ext -i", cwd=REPO)
            rc1, o1 = sh(["/venv/bin/python", demo], cwd=REPO)
            res["demo_with_patch"] = "fails (as intended)" if rc1 != 0 else "PASSES"
            res["demo_output"] = o1.strip()[-400:]
            fired = {}
            for p in claimed():
                rcc, oc = sh([os.path.join(VERIF, "check"), p], cwd=VERIF,
                             timeout=300)
                if rcc != 0:
                    lines = [l.strip() for l in oc.splitlines()
                             if "rule=" in l and "KNOWN" not in l]
                    fired[p] = {"exit": rcc, "rules": sorted({l.split("rule=")[1].split()[0]
                                                              for l in lines})[:6],
                                "first": (lines[0][:200] if lines else oc[:200])}
            res["checks_fired"] = fired
            meta = json.load(open(os.path.join(d, "meta.json"))) if os.path.exists(
                os.path.join(d, "meta.json")) else {}
            prop = sid.split("-")[0]
            res["caught_by_own_property"] = prop in fired and fired[prop]["exit"] == 1
            res["caught"] = any(v["exit"] == 1 for v in fired.values())
        finally:
            sh("git checkout -- .", cwd=REPO)
            if changed_c:
                sh("/venv/bin/python setup.py build_ext -i", cwd=REPO)
        json.dump(res, open(os.path.join(d, "result.json"), "w"), indent=1)
        print(sid, "caught" if res.get("caught") else "MISSED", res.get("demo_without_patch"),
              "/", res.get("demo_with_patch"), {k: v["rules"] for k, v in res.get("checks_fired", {}).items()})
    # restore evidence to the clean-tree state
    for p in claimed():
        sh([os.path.join(VERIF, "check"), p], cwd=VERIF)


if __name__ == "__main__":
    if sys.argv[1] == "import":
        do_import(sys.argv[2], sys.argv[3])
    else:
        ids = sys.argv[2:] or sorted(os.listdir(SEEDED))
        do_eval(ids)
