"""Whole-module behaviour-preserving transformations used by the self-test to
look for false alarms: every check must stay silent on the transformed tree.

  alpha   - every local variable of every function is renamed (parameters,
            attributes, globals and keyword names are untouched)
  reprint - the module is re-printed by ast.unparse (all comments, blank lines
            and line numbers change; nothing else does)
"""

import ast
import builtins


class _Scope(ast.NodeVisitor):
    """Collect, for one outermost function, the names that are safe to rename."""

    def __init__(self):
        self.stored = set()
        self.params = set()
        self.pinned = set()

    def visit_arguments(self, a):
        for x in a.posonlyargs + a.args + a.kwonlyargs:
            self.params.add(x.arg)
        if a.vararg:
            self.params.add(a.vararg.arg)
        if a.kwarg:
            self.params.add(a.kwarg.arg)
        self.generic_visit(a)

    def visit_Name(self, n):
        if isinstance(n.ctx, (ast.Store, ast.Del)):
            self.stored.add(n.id)

    def visit_ExceptHandler(self, h):
        if h.name:
            self.stored.add(h.name)
        self.generic_visit(h)

    def visit_Global(self, n):
        self.pinned.update(n.names)

    visit_Nonlocal = visit_Global

    def visit_Import(self, n):
        for a in n.names:
            self.pinned.add((a.asname or a.name).split(".")[0])

    visit_ImportFrom = visit_Import

    def visit_FunctionDef(self, n):
        self.pinned.add(n.name)
        self.generic_visit(n)

    visit_AsyncFunctionDef = visit_FunctionDef

    def visit_ClassDef(self, n):
        self.pinned.add(n.name)
        # class bodies bind attributes, not locals: do not descend
        for st in n.body:
            if isinstance(st, (ast.FunctionDef, ast.AsyncFunctionDef)):
                self.visit(st)
            else:
                for x in ast.walk(st):
                    if isinstance(x, ast.Name):
                        self.pinned.add(x.id)


class _Rename(ast.NodeTransformer):
    def __init__(self, mapping):
        self.m = mapping

    def visit_Name(self, n):
        if n.id in self.m:
            n.id = self.m[n.id]
        return n

    def visit_ExceptHandler(self, h):
        if h.name in self.m:
            h.name = self.m[h.name]
        self.generic_visit(h)
        return h


def alpha(src, suffix="_rn"):
    tree = ast.parse(src)
    modnames = {n.id for n in ast.walk(tree) if isinstance(n, ast.Name)} | set(dir(builtins))

    def do(fn):
        sc = _Scope()
        sc.visit(fn.args)
        for st in fn.body:
            sc.visit(st)
        names = {x for x in sc.stored if x not in sc.params and x not in sc.pinned
                 and not x.startswith("__")}
        # a nested function's parameters shadow: params of nested defs are in
        # sc.params too (visit_arguments runs for them), so they are excluded
        mapping = {}
        for x in sorted(names):
            new = x + suffix
            while new in modnames:
                new += "_"
            mapping[x] = new
        r = _Rename(mapping)
        for i, st in enumerate(fn.body):
            fn.body[i] = r.visit(st)
        # default values are evaluated in the enclosing scope: untouched

    def outer(node):
        for st in node.body:
            if isinstance(st, (ast.FunctionDef, ast.AsyncFunctionDef)):
                do(st)
            elif isinstance(st, ast.ClassDef):
                outer(st)
            elif isinstance(st, (ast.If, ast.Try)):
                for blk in ("body", "orelse", "finalbody"):
                    sub = getattr(st, blk, None)
                    if sub:
                        holder = ast.Module(body=sub, type_ignores=[])
                        outer(holder)
                for h in getattr(st, "handlers", []):
                    outer(ast.Module(body=h.body, type_ignores=[]))
    outer(tree)
    ast.fix_missing_locations(tree)
    return ast.unparse(tree) + "\n"


def reprint(src):
    return ast.unparse(ast.parse(src)) + "\n"


class _RetTemp(ast.NodeTransformer):
    """return <call/binop> -> tmp = <expr>; return tmp"""

    def _block(self, stmts):
        out = []
        for st in stmts:
            st = self.visit(st)
            if isinstance(st, ast.Return) and isinstance(st.value, (ast.Call, ast.BinOp,
                                                                    ast.Subscript, ast.IfExp)):
                out.append(ast.Assign(targets=[ast.Name("rv_tmp", ast.Store())], value=st.value,
                                      lineno=st.lineno))
                out.append(ast.Return(value=ast.Name("rv_tmp", ast.Load())))
            else:
                out.append(st)
        return out

    def generic_visit(self, node):
        for f in ("body", "orelse", "finalbody"):
            b = getattr(node, f, None)
            if isinstance(b, list) and b and isinstance(b[0], ast.stmt):
                setattr(node, f, self._block(b))
        for h in getattr(node, "handlers", []) or []:
            h.body = self._block(h.body)
        for c in getattr(node, "cases", []) or []:
            c.body = self._block(c.body)
        return node


def rettemp(src):
    t = ast.parse(src)
    _RetTemp().visit(t)
    ast.fix_missing_locations(t)
    return ast.unparse(t) + "\n"


class _IfSwap(ast.NodeTransformer):
    """if c: A else: B  ->  if not c: B else: A   (only when there is an else)"""

    def visit_If(self, n):
        self.generic_visit(n)
        if n.orelse:
            n.test = ast.UnaryOp(op=ast.Not(), operand=n.test)
            n.body, n.orelse = n.orelse, n.body
        return n


def ifswap(src):
    t = ast.parse(src)
    _IfSwap().visit(t)
    ast.fix_missing_locations(t)
    return ast.unparse(t) + "\n"


_PURE = (ast.Name, ast.Constant, ast.Attribute)
_FLIP = {ast.Lt: ast.Gt, ast.Gt: ast.Lt, ast.LtE: ast.GtE, ast.GtE: ast.LtE,
         ast.Eq: ast.Eq, ast.NotEq: ast.NotEq}


class _CmpFlip(ast.NodeTransformer):
    """a < b -> b > a for side-effect-free operands"""

    def visit_Compare(self, n):
        self.generic_visit(n)
        if len(n.ops) == 1 and type(n.ops[0]) in _FLIP and isinstance(n.left, _PURE) \
                and isinstance(n.comparators[0], _PURE):
            return ast.Compare(left=n.comparators[0], ops=[_FLIP[type(n.ops[0])]()],
                               comparators=[n.left])
        return n


def cmpflip(src):
    t = ast.parse(src)
    _CmpFlip().visit(t)
    ast.fix_missing_locations(t)
    return ast.unparse(t) + "\n"


def _exits(stmts):
    if not stmts:
        return False
    last = stmts[-1]
    if isinstance(last, (ast.Return, ast.Raise, ast.Continue, ast.Break)):
        return True
    if isinstance(last, ast.If) and last.orelse:
        return _exits(last.body) and _exits(last.orelse)
    return False


class _NoElse(ast.NodeTransformer):
    """if c: ...return   else: B   ->   if c: ...return ; B   (ruff RET505-508)"""

    def _block(self, stmts):
        out = []
        for st in stmts:
            st = self.visit(st)
            if isinstance(st, ast.If) and st.orelse and _exits(st.body):
                tail = st.orelse
                st.orelse = []
                out.append(st)
                out.extend(tail)
            else:
                out.append(st)
        return out

    def generic_visit(self, node):
        for f in ("body", "orelse", "finalbody"):
            b = getattr(node, f, None)
            if isinstance(b, list) and b and isinstance(b[0], ast.stmt):
                setattr(node, f, self._block(b))
        for h in getattr(node, "handlers", []) or []:
            h.body = self._block(h.body)
        return node


def noelse(src):
    t = ast.parse(src)
    _NoElse().visit(t)
    ast.fix_missing_locations(t)
    return ast.unparse(t) + "\n"


class _NotCmp(ast.NodeTransformer):
    """not a == b -> a != b ; not a in b -> a not in b ; not a is b -> a is not b
    and the reverse for the positive forms is left alone (ruff SIM201-203)."""
    M = {ast.Eq: ast.NotEq, ast.NotEq: ast.Eq, ast.In: ast.NotIn, ast.NotIn: ast.In,
         ast.Is: ast.IsNot, ast.IsNot: ast.Is}

    def visit_FunctionDef(self, n):
        if n.name in ("__ne__", "__eq__"):
            return n          # `self != other` inside __ne__ would recurse
        self.generic_visit(n)
        return n

    def visit_UnaryOp(self, n):
        self.generic_visit(n)
        if isinstance(n.op, ast.Not) and isinstance(n.operand, ast.Compare) \
                and len(n.operand.ops) == 1 and type(n.operand.ops[0]) in self.M:
            c = n.operand
            return ast.Compare(left=c.left, ops=[self.M[type(c.ops[0])]()],
                               comparators=c.comparators)
        return n


def notcmp(src):
    t = ast.parse(src)
    _NotCmp().visit(t)
    ast.fix_missing_locations(t)
    return ast.unparse(t) + "\n"


class _AddLog(ast.NodeTransformer):
    """debug() call at the top of every function that lives in a module
    defining/ importing `debug` (a logging-only change)."""

    def visit_FunctionDef(self, n):
        self.generic_visit(n)
        if n.name.startswith("__") or n.name == "debug":
            return n
        i = 1 if (n.body and isinstance(n.body[0], ast.Expr)
                  and isinstance(getattr(n.body[0], "value", None), ast.Constant)
                  and isinstance(n.body[0].value.value, str)) else 0
        call = ast.Expr(ast.Call(func=ast.Name("debug", ast.Load()),
                                 args=[ast.Constant(f"enter {n.name}")], keywords=[]))
        n.body.insert(i, call)
        return n


def addlog(src):
    if "def debug(" not in src and "debug," not in src and "import debug" not in src:
        return src
    t = ast.parse(src)
    _AddLog().visit(t)
    ast.fix_missing_locations(t)
    return ast.unparse(t) + "\n"


class _Msg(ast.NodeTransformer):
    """Reword every message: string constants that are assigned to `msg`, or
    passed to an exception constructor / warnings.warn / debug."""

    def _reword(self, e):
        for x in ast.walk(e):
            if isinstance(x, ast.Constant) and isinstance(x.value, str) and " " in x.value:
                x.value = x.value + " (reworded)"

    def visit_Assign(self, n):
        if len(n.targets) == 1 and isinstance(n.targets[0], ast.Name) and n.targets[0].id == "msg":
            self._reword(n.value)
        return n

    def visit_Raise(self, n):
        if isinstance(n.exc, ast.Call):
            for a in n.exc.args:
                self._reword(a)
        return n


def msgchange(src):
    t = ast.parse(src)
    _Msg().visit(t)
    ast.fix_missing_locations(t)
    return ast.unparse(t) + "\n"


class _NoDoc(ast.NodeTransformer):
    def _strip(self, n):
        self.generic_visit(n)
        if n.body and isinstance(n.body[0], ast.Expr) and isinstance(n.body[0].value, ast.Constant) \
                and isinstance(n.body[0].value.value, str) and len(n.body) > 1:
            n.body = n.body[1:]
        return n
    visit_FunctionDef = visit_ClassDef = _strip


def nodoc(src):
    t = ast.parse(src)
    _NoDoc().visit(t)
    ast.fix_missing_locations(t)
    return ast.unparse(t) + "\n"


class _Annotate(ast.NodeTransformer):
    def visit_FunctionDef(self, n):
        self.generic_visit(n)
        for a in n.args.args + n.args.kwonlyargs:
            if a.arg not in ("self", "cls") and a.annotation is None:
                a.annotation = ast.Constant("object")
        return n


def annotate(src):
    t = ast.parse(src)
    _Annotate().visit(t)
    ast.fix_missing_locations(t)
    return ast.unparse(t) + "\n"


class _SplitCall(ast.NodeTransformer):
    """y = f(g(x), ...) -> t = g(x); y = f(t, ...)  when f is a plain name or
    attribute chain and g(x) is its FIRST positional argument (evaluation order
    is unchanged).  Applied to Assign / Return / Expr statements."""

    def __init__(self):
        self.k = 0

    def _block(self, stmts):
        out = []
        for st in stmts:
            st = self.visit(st)
            v = getattr(st, "value", None) if isinstance(st, (ast.Assign, ast.Return, ast.Expr)) else None
            if isinstance(v, ast.Call) and v.args and isinstance(v.args[0], ast.Call) \
                    and not any(isinstance(x, (ast.Yield, ast.YieldFrom, ast.Await, ast.NamedExpr,
                                               ast.Starred))
                                for x in ast.walk(v)) and _purefunc(v.func):
                self.k += 1
                name = f"arg_tmp{self.k}"
                out.append(ast.Assign(targets=[ast.Name(name, ast.Store())], value=v.args[0],
                                      lineno=st.lineno))
                v.args[0] = ast.Name(name, ast.Load())
            out.append(st)
        return out

    def generic_visit(self, node):
        for f in ("body", "orelse", "finalbody"):
            b = getattr(node, f, None)
            if isinstance(b, list) and b and isinstance(b[0], ast.stmt):
                setattr(node, f, self._block(b))
        for h in getattr(node, "handlers", []) or []:
            h.body = self._block(h.body)
        return node


def _purefunc(f):
    while isinstance(f, ast.Attribute):
        f = f.value
    return isinstance(f, ast.Name)


def splitcall(src):
    t = ast.parse(src)
    _SplitCall().visit(t)
    ast.fix_missing_locations(t)
    return ast.unparse(t) + "\n"


def comp2loop(src):
    """`x = [E for T in IT if C]` / `return [...]` at statement level becomes
    `x = []; for T in IT: if C: x.append(E)` (single generator; the loop names
    occur nowhere else in the function, so leaking them changes nothing)."""
    t = ast.parse(src)
    cnt = [0]

    def fix_fn(fn):
        allnames = {}
        for n in ast.walk(fn):
            if isinstance(n, ast.Name):
                allnames[n.id] = allnames.get(n.id, 0) + 1
            elif isinstance(n, ast.arg):
                allnames[n.arg] = allnames.get(n.arg, 0) + 1

        def block(stmts):
            out = []
            for st in stmts:
                for f in ("body", "orelse", "finalbody"):
                    sub = getattr(st, f, None)
                    if isinstance(sub, list) and sub and isinstance(sub[0], ast.stmt) \
                            and not isinstance(st, (ast.FunctionDef, ast.AsyncFunctionDef, ast.ClassDef)):
                        setattr(st, f, block(sub))
                for h in getattr(st, "handlers", []) or []:
                    h.body = block(h.body)
                v = st.value if isinstance(st, (ast.Assign, ast.Return)) else None
                if isinstance(v, ast.ListComp) and len(v.generators) == 1 \
                        and not v.generators[0].is_async \
                        and (isinstance(st, ast.Return) or (len(st.targets) == 1
                                                          and isinstance(st.targets[0], ast.Name))):
                    g = v.generators[0]
                    tn = [n.id for n in ast.walk(g.target) if isinstance(n, ast.Name)]
                    inside = {}
                    for n in ast.walk(v):
                        if isinstance(n, ast.Name):
                            inside[n.id] = inside.get(n.id, 0) + 1
                    if any(allnames.get(x, 0) != inside.get(x, 0) for x in tn) \
                            or any(isinstance(n, (ast.Lambda, ast.ListComp, ast.GeneratorExp,
                                                  ast.SetComp, ast.DictComp))
                                   for n in ast.walk(v) if n is not v):
                        out.append(st)
                        continue
                    if isinstance(st, ast.Return):
                        acc = "acc_%d" % cnt[0]
                    else:
                        acc = st.targets[0].id
                        if acc in inside:
                            out.append(st)
                            continue
                    cnt[0] += 1
                    app = ast.Expr(ast.Call(ast.Attribute(ast.Name(acc, ast.Load()), "append", ast.Load()),
                                            [v.elt], []))
                    body = [app]
                    for c in reversed(g.ifs):
                        body = [ast.If(c, body, [])]
                    out.append(ast.Assign([ast.Name(acc, ast.Store())], ast.List([], ast.Load())))
                    out.append(ast.For(g.target, g.iter, body, []))
                    if isinstance(st, ast.Return):
                        out.append(ast.Return(ast.Name(acc, ast.Load())))
                    continue
                out.append(st)
            return out
        fn.body = block(fn.body)

    for n in ast.walk(t):
        if isinstance(n, (ast.FunctionDef, ast.AsyncFunctionDef)):
            if not any(isinstance(m, (ast.FunctionDef, ast.AsyncFunctionDef, ast.Lambda))
                       for m in ast.walk(n) if m is not n):
                fix_fn(n)
    ast.fix_missing_locations(t)
    return ast.unparse(t) + "\n"


def _always_exits(stmts):
    if not stmts:
        return False
    last = stmts[-1]
    if isinstance(last, (ast.Return, ast.Raise, ast.Continue, ast.Break)):
        return True
    if isinstance(last, ast.If) and last.orelse:
        return _always_exits(last.body) and _always_exits(last.orelse)
    return False


def _blocks(t):
    for n in ast.walk(t):
        for f in ("body", "orelse", "finalbody"):
            sub = getattr(n, f, None)
            if isinstance(sub, list) and sub and isinstance(sub[0], ast.stmt):
                yield n, f, sub
        if isinstance(n, ast.ExceptHandler):
            pass


def tryelse(src):
    """`try: A except E: <exits>` followed by B...  ->  `try: A except E: <exits>
    else: B...` (no finally, no else yet, every handler leaves): B runs exactly when
    A raised nothing, and is outside the handlers' reach either way."""
    t = ast.parse(src)
    for n, f, sub in list(_blocks(t)):
        for i, st in enumerate(sub):
            if isinstance(st, ast.Try) and not st.finalbody and not st.orelse and st.handlers \
                    and all(_always_exits(h.body) for h in st.handlers) and i + 1 < len(sub):
                st.orelse = sub[i + 1:]
                del sub[i + 1:]
                break
    ast.fix_missing_locations(t)
    return ast.unparse(t) + "\n"


def elseout(src):
    """the reverse: `else:` of a try whose handlers all leave is moved after it."""
    t = ast.parse(src)
    for n, f, sub in list(_blocks(t)):
        i = 0
        while i < len(sub):
            st = sub[i]
            if isinstance(st, ast.Try) and not st.finalbody and st.orelse and st.handlers \
                    and all(_always_exits(h.body) for h in st.handlers):
                sub[i + 1:i + 1] = st.orelse
                st.orelse = []
            i += 1
    ast.fix_missing_locations(t)
    return ast.unparse(t) + "\n"


def guardclause(src):
    """last statement of a loop body `if C: BODY` (no else, BODY of 2+ statements)
    -> `if not C: continue` + BODY; same at the end of a function -> `return`."""
    t = ast.parse(src)
    for n in ast.walk(t):
        if isinstance(n, (ast.For, ast.While)):
            exit_ = ast.Continue
        elif isinstance(n, (ast.FunctionDef, ast.AsyncFunctionDef)) and not any(
                isinstance(x, (ast.Yield, ast.YieldFrom)) for x in ast.walk(n)):
            exit_ = ast.Return
        else:
            continue
        body = n.body
        if body and isinstance(body[-1], ast.If) and not body[-1].orelse and len(body[-1].body) >= 2:
            st = body[-1]
            body[-1:] = [ast.If(ast.UnaryOp(ast.Not(), st.test), [exit_()], [])] + st.body
    ast.fix_missing_locations(t)
    return ast.unparse(t) + "\n"


def ifexp2if(src):
    """statement-level `x = A if C else B` / `return A if C else B` ->
    `if C: x = A` `else: x = B`."""
    t = ast.parse(src)

    def fix(stmts):
        out = []
        for st in stmts:
            for f in ("body", "orelse", "finalbody"):
                sub = getattr(st, f, None)
                if isinstance(sub, list) and sub and isinstance(sub[0], ast.stmt):
                    setattr(st, f, fix(sub))
            for h in getattr(st, "handlers", []) or []:
                h.body = fix(h.body)
            v = getattr(st, "value", None)
            if isinstance(st, ast.Return) and isinstance(v, ast.IfExp):
                out.append(ast.If(v.test, [ast.Return(v.body)], [ast.Return(v.orelse)]))
            elif isinstance(st, ast.Assign) and isinstance(v, ast.IfExp) and len(st.targets) == 1 \
                    and isinstance(st.targets[0], ast.Name):
                import copy
                out.append(ast.If(v.test, [ast.Assign([copy.deepcopy(st.targets[0])], v.body)],
                                  [ast.Assign([copy.deepcopy(st.targets[0])], v.orelse)]))
            else:
                out.append(st)
        return out
    for n in ast.walk(t):
        if isinstance(n, (ast.FunctionDef, ast.AsyncFunctionDef)):
            n.body = fix(n.body)
    ast.fix_missing_locations(t)
    return ast.unparse(t) + "\n"


def if2ifexp(src):
    """`if C: x = A` `else: x = B` (single plain assignments to the same name, or
    two returns of values) -> `x = A if C else B` / `return A if C else B`."""
    t = ast.parse(src)

    def fix(stmts):
        out = []
        for st in stmts:
            for f in ("body", "orelse", "finalbody"):
                sub = getattr(st, f, None)
                if isinstance(sub, list) and sub and isinstance(sub[0], ast.stmt):
                    setattr(st, f, fix(sub))
            for h in getattr(st, "handlers", []) or []:
                h.body = fix(h.body)
            if isinstance(st, ast.If) and len(st.body) == 1 and len(st.orelse) == 1:
                a, b = st.body[0], st.orelse[0]
                if isinstance(a, ast.Return) and isinstance(b, ast.Return) \
                        and a.value is not None and b.value is not None:
                    out.append(ast.Return(ast.IfExp(st.test, a.value, b.value)))
                    continue
                if isinstance(a, ast.Assign) and isinstance(b, ast.Assign) \
                        and len(a.targets) == 1 and len(b.targets) == 1 \
                        and isinstance(a.targets[0], ast.Name) and isinstance(b.targets[0], ast.Name) \
                        and a.targets[0].id == b.targets[0].id:
                    out.append(ast.Assign([a.targets[0]], ast.IfExp(st.test, a.value, b.value)))
                    continue
            out.append(st)
        return out
    for n in ast.walk(t):
        if isinstance(n, (ast.FunctionDef, ast.AsyncFunctionDef)):
            n.body = fix(n.body)
    ast.fix_missing_locations(t)
    return ast.unparse(t) + "\n"


class _AndSplit(ast.NodeTransformer):
    """`if a and b: X` (no else) -> `if a: if b: X`."""

    def visit_If(self, n):
        self.generic_visit(n)
        if not n.orelse and isinstance(n.test, ast.BoolOp) and isinstance(n.test.op, ast.And):
            inner = n.body
            for v in reversed(n.test.values):
                inner = [ast.If(v, inner, [])]
            return inner[0]
        return n


def andsplit(src):
    t = ast.parse(src)
    _AndSplit().visit(t)
    ast.fix_missing_locations(t)
    return ast.unparse(t) + "\n"


class _OrSplit(ast.NodeTransformer):
    """`if a or b: <single return/raise/continue/break>` (no else) ->
    `if a: S` `if b: S`."""

    def _fix(self, stmts):
        out = []
        for st in stmts:
            if isinstance(st, ast.If) and not st.orelse and isinstance(st.test, ast.BoolOp) \
                    and isinstance(st.test.op, ast.Or) and len(st.body) == 1 \
                    and isinstance(st.body[0], (ast.Return, ast.Raise, ast.Continue, ast.Break)):
                import copy
                for v in st.test.values:
                    out.append(ast.If(v, [copy.deepcopy(st.body[0])], []))
            else:
                out.append(st)
        return out

    def generic_visit(self, n):
        super().generic_visit(n)
        for f in ("body", "orelse", "finalbody"):
            sub = getattr(n, f, None)
            if isinstance(sub, list) and sub and isinstance(sub[0], ast.stmt):
                setattr(n, f, self._fix(sub))
        return n


def orsplit(src):
    t = ast.parse(src)
    _OrSplit().visit(t)
    ast.fix_missing_locations(t)
    return ast.unparse(t) + "\n"


class _WithFlip(ast.NodeTransformer):
    """`with a, b: X` -> `with a: with b: X`; `with a: with b: X` (nothing else in
    the outer body) -> `with a, b: X`."""

    def visit_With(self, n):
        self.generic_visit(n)
        if len(n.items) > 1:
            inner = n.body
            for it in reversed(n.items):
                inner = [ast.With([it], inner)]
            return inner[0]
        if len(n.body) == 1 and isinstance(n.body[0], ast.With):
            return ast.With(n.items + n.body[0].items, n.body[0].body)
        return n


def withflip(src):
    t = ast.parse(src)
    _WithFlip().visit(t)
    ast.fix_missing_locations(t)
    return ast.unparse(t) + "\n"


class _FstrPct(ast.NodeTransformer):
    """f"{a}/{b}/stat" -> "%s/%s/stat" % (a, b): for conversion-less,
    spec-less placeholders str.__mod__ with %s formats exactly like an f-string.
    Only path-like strings (a "/" among the constant parts) are rewritten."""

    def visit_JoinedStr(self, n):
        self.generic_visit(n)
        fmt, ops = "", []
        for v in n.values:
            if isinstance(v, ast.Constant) and isinstance(v.value, str):
                if "%" in v.value:
                    return n
                fmt += v.value
            elif isinstance(v, ast.FormattedValue) and v.conversion == -1 \
                    and v.format_spec is None and not isinstance(v.value, ast.JoinedStr) \
                    and not isinstance(v.value, (ast.Tuple, ast.Dict)):
                fmt += "%s"
                ops.append(v.value)
            else:
                return n
        if "/" not in fmt or not ops or " " in fmt:
            return n
        return ast.BinOp(left=ast.Constant(fmt), op=ast.Mod(),
                         right=ast.Tuple(elts=ops, ctx=ast.Load()))


def fstr2pct(src):
    t = ast.parse(src)
    _FstrPct().visit(t)
    ast.fix_missing_locations(t)
    return ast.unparse(t) + "\n"


TRANSFORMS = {"tryelse": tryelse, "elseout": elseout, "guardclause": guardclause, "ifexp2if": ifexp2if, "if2ifexp": if2ifexp, "andsplit": andsplit, "orsplit": orsplit, "withflip": withflip, "fstr2pct": fstr2pct, "comp2loop": comp2loop, "splitcall": splitcall, "addlog": addlog, "msgchange": msgchange, "nodoc": nodoc, "annotate": annotate,
              "noelse": noelse, "notcmp": notcmp, "alpha": alpha, "reprint": reprint, "rettemp": rettemp, "ifswap": ifswap,
              "cmpflip": cmpflip}
