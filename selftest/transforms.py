"""Whole-module behaviour-preserving transformations used by the self-test to
look for false alarms: every check must stay silent on the transformed tree.

  alpha   - every local variable of every function is renamed (parameters,
            attributes, globals and keyword names are untouched)
  reprint - the module is re-printed by ast.unparse (all comments, blank lines
            and line numbers change; nothing else does)
"""

import ast
import builtins


class _Scope(ast.NodeVisitor):
    """Collect, for one outermost function, the names that are safe to rename."""

    def __init__(self):
        self.stored = set()
        self.params = set()
        self.pinned = set()

    def visit_arguments(self, a):
        for x in a.posonlyargs + a.args + a.kwonlyargs:
            self.params.add(x.arg)
        if a.vararg:
            self.params.add(a.vararg.arg)
        if a.kwarg:
            self.params.add(a.kwarg.arg)
        self.generic_visit(a)

    def visit_Name(self, n):
        if isinstance(n.ctx, (ast.Store, ast.Del)):
            self.stored.add(n.id)

    def visit_ExceptHandler(self, h):
        if h.name:
            self.stored.add(h.name)
        self.generic_visit(h)

    def visit_Global(self, n):
        self.pinned.update(n.names)

    visit_Nonlocal = visit_Global

    def visit_Import(self, n):
        for a in n.names:
            self.pinned.add((a.asname or a.name).split(".")[0])

    visit_ImportFrom = visit_Import

    def visit_FunctionDef(self, n):
        self.pinned.add(n.name)
        self.generic_visit(n)

    visit_AsyncFunctionDef = visit_FunctionDef

    def visit_ClassDef(self, n):
        self.pinned.add(n.name)
        # class bodies bind attributes, not locals: do not descend
        for st in n.body:
            if isinstance(st, (ast.FunctionDef, ast.AsyncFunctionDef)):
                self.visit(st)
            else:
                for x in ast.walk(st):
                    if isinstance(x, ast.Name):
                        self.pinned.add(x.id)


class _Rename(ast.NodeTransformer):
    def __init__(self, mapping):
        self.m = mapping

    def visit_Name(self, n):
        if n.id in self.m:
            n.id = self.m[n.id]
        return n

    def visit_ExceptHandler(self, h):
        if h.name in self.m:
            h.name = self.m[h.name]
        self.generic_visit(h)
        return h


def alpha(src, suffix="_rn"):
    tree = ast.parse(src)
    modnames = {n.id for n in ast.walk(tree) if isinstance(n, ast.Name)} | set(dir(builtins))

    def do(fn):
        sc = _Scope()
        sc.visit(fn.args)
        for st in fn.body:
            sc.visit(st)
        names = {x for x in sc.stored if x not in sc.params and x not in sc.pinned
                 and not x.startswith("__")}
        # a nested function's parameters shadow: params of nested defs are in
        # sc.params too (visit_arguments runs for them), so they are excluded
        mapping = {}
        for x in sorted(names):
            new = x + suffix
            while new in modnames:
                new += "_"
            mapping[x] = new
        r = _Rename(mapping)
        for i, st in enumerate(fn.body):
            fn.body[i] = r.visit(st)
        # default values are evaluated in the enclosing scope: untouched

    def outer(node):
        for st in node.body:
            if isinstance(st, (ast.FunctionDef, ast.AsyncFunctionDef)):
                do(st)
            elif isinstance(st, ast.ClassDef):
                outer(st)
            elif isinstance(st, (ast.If, ast.Try)):
                for blk in ("body", "orelse", "finalbody"):
                    sub = getattr(st, blk, None)
                    if sub:
                        holder = ast.Module(body=sub, type_ignores=[])
                        outer(holder)
                for h in getattr(st, "handlers", []):
                    outer(ast.Module(body=h.body, type_ignores=[]))
    outer(tree)
    ast.fix_missing_locations(tree)
    return ast.unparse(tree) + "\n"


def reprint(src):
    return ast.unparse(ast.parse(src)) + "\n"


class _RetTemp(ast.NodeTransformer):
    """return <call/binop> -> tmp = <expr>; return tmp"""

    def _block(self, stmts):
        out = []
        for st in stmts:
            st = self.visit(st)
            if isinstance(st, ast.Return) and isinstance(st.value, (ast.Call, ast.BinOp,
                                                                    ast.Subscript, ast.IfExp)):
                out.append(ast.Assign(targets=[ast.Name("rv_tmp", ast.Store())], value=st.value,
                                      lineno=st.lineno))
                out.append(ast.Return(value=ast.Name("rv_tmp", ast.Load())))
            else:
                out.append(st)
        return out

    def generic_visit(self, node):
        for f in ("body", "orelse", "finalbody"):
            b = getattr(node, f, None)
            if isinstance(b, list) and b and isinstance(b[0], ast.stmt):
                setattr(node, f, self._block(b))
        for h in getattr(node, "handlers", []) or []:
            h.body = self._block(h.body)
        for c in getattr(node, "cases", []) or []:
            c.body = self._block(c.body)
        return node


def rettemp(src):
    t = ast.parse(src)
    _RetTemp().visit(t)
    ast.fix_missing_locations(t)
    return ast.unparse(t) + "\n"


class _IfSwap(ast.NodeTransformer):
    """if c: A else: B  ->  if not c: B else: A   (only when there is an else)"""

    def visit_If(self, n):
        self.generic_visit(n)
        if n.orelse:
            n.test = ast.UnaryOp(op=ast.Not(), operand=n.test)
            n.body, n.orelse = n.orelse, n.body
        return n


def ifswap(src):
    t = ast.parse(src)
    _IfSwap().visit(t)
    ast.fix_missing_locations(t)
    return ast.unparse(t) + "\n"


_PURE = (ast.Name, ast.Constant, ast.Attribute)
_FLIP = {ast.Lt: ast.Gt, ast.Gt: ast.Lt, ast.LtE: ast.GtE, ast.GtE: ast.LtE,
         ast.Eq: ast.Eq, ast.NotEq: ast.NotEq}


class _CmpFlip(ast.NodeTransformer):
    """a < b -> b > a for side-effect-free operands"""

    def visit_Compare(self, n):
        self.generic_visit(n)
        if len(n.ops) == 1 and type(n.ops[0]) in _FLIP and isinstance(n.left, _PURE) \
                and isinstance(n.comparators[0], _PURE):
            return ast.Compare(left=n.comparators[0], ops=[_FLIP[type(n.ops[0])]()],
                               comparators=[n.left])
        return n


def cmpflip(src):
    t = ast.parse(src)
    _CmpFlip().visit(t)
    ast.fix_missing_locations(t)
    return ast.unparse(t) + "\n"


def _exits(stmts):
    if not stmts:
        return False
    last = stmts[-1]
    if isinstance(last, (ast.Return, ast.Raise, ast.Continue, ast.Break)):
        return True
    if isinstance(last, ast.If) and last.orelse:
        return _exits(last.body) and _exits(last.orelse)
    return False


class _NoElse(ast.NodeTransformer):
    """if c: ...return   else: B   ->   if c: ...return ; B   (ruff RET505-508)"""

    def _block(self, stmts):
        out = []
        for st in stmts:
            st = self.visit(st)
            if isinstance(st, ast.If) and st.orelse and _exits(st.body):
                tail = st.orelse
                st.orelse = []
                out.append(st)
                out.extend(tail)
            else:
                out.append(st)
        return out

    def generic_visit(self, node):
        for f in ("body", "orelse", "finalbody"):
            b = getattr(node, f, None)
            if isinstance(b, list) and b and isinstance(b[0], ast.stmt):
                setattr(node, f, self._block(b))
        for h in getattr(node, "handlers", []) or []:
            h.body = self._block(h.body)
        return node


def noelse(src):
    t = ast.parse(src)
    _NoElse().visit(t)
    ast.fix_missing_locations(t)
    return ast.unparse(t) + "\n"


class _NotCmp(ast.NodeTransformer):
    """not a == b -> a != b ; not a in b -> a not in b ; not a is b -> a is not b
    and the reverse for the positive forms is left alone (ruff SIM201-203)."""
    M = {ast.Eq: ast.NotEq, ast.NotEq: ast.Eq, ast.In: ast.NotIn, ast.NotIn: ast.In,
         ast.Is: ast.IsNot, ast.IsNot: ast.Is}

    def visit_FunctionDef(self, n):
        if n.name in ("__ne__", "__eq__"):
            return n          # `self != other` inside __ne__ would recurse
        self.generic_visit(n)
        return n

    def visit_UnaryOp(self, n):
        self.generic_visit(n)
        if isinstance(n.op, ast.Not) and isinstance(n.operand, ast.Compare) \
                and len(n.operand.ops) == 1 and type(n.operand.ops[0]) in self.M:
            c = n.operand
            return ast.Compare(left=c.left, ops=[self.M[type(c.ops[0])]()],
                               comparators=c.comparators)
        return n


def notcmp(src):
    t = ast.parse(src)
    _NotCmp().visit(t)
    ast.fix_missing_locations(t)
    return ast.unparse(t) + "\n"


class _AddLog(ast.NodeTransformer):
    """debug() call at the top of every function that lives in a module
    defining/ importing `debug` (a logging-only change)."""

    def visit_FunctionDef(self, n):
        self.generic_visit(n)
        if n.name.startswith("__") or n.name == "debug":
            return n
        i = 1 if (n.body and isinstance(n.body[0], ast.Expr)
                  and isinstance(getattr(n.body[0], "value", None), ast.Constant)
                  and isinstance(n.body[0].value.value, str)) else 0
        call = ast.Expr(ast.Call(func=ast.Name("debug", ast.Load()),
                                 args=[ast.Constant(f"enter {n.name}")], keywords=[]))
        n.body.insert(i, call)
        return n


def addlog(src):
    if "def debug(" not in src and "debug," not in src and "import debug" not in src:
        return src
    t = ast.parse(src)
    _AddLog().visit(t)
    ast.fix_missing_locations(t)
    return ast.unparse(t) + "\n"


class _Msg(ast.NodeTransformer):
    """Reword every message: string constants that are assigned to `msg`, or
    passed to an exception constructor / warnings.warn / debug."""

    def _reword(self, e):
        for x in ast.walk(e):
            if isinstance(x, ast.Constant) and isinstance(x.value, str) and " " in x.value:
                x.value = x.value + " (reworded)"

    def visit_Assign(self, n):
        if len(n.targets) == 1 and isinstance(n.targets[0], ast.Name) and n.targets[0].id == "msg":
            self._reword(n.value)
        return n

    def visit_Raise(self, n):
        if isinstance(n.exc, ast.Call):
            for a in n.exc.args:
                self._reword(a)
        return n


def msgchange(src):
    t = ast.parse(src)
    _Msg().visit(t)
    ast.fix_missing_locations(t)
    return ast.unparse(t) + "\n"


class _NoDoc(ast.NodeTransformer):
    def _strip(self, n):
        self.generic_visit(n)
        if n.body and isinstance(n.body[0], ast.Expr) and isinstance(n.body[0].value, ast.Constant) \
                and isinstance(n.body[0].value.value, str) and len(n.body) > 1:
            n.body = n.body[1:]
        return n
    visit_FunctionDef = visit_ClassDef = _strip


def nodoc(src):
    t = ast.parse(src)
    _NoDoc().visit(t)
    ast.fix_missing_locations(t)
    return ast.unparse(t) + "\n"


class _Annotate(ast.NodeTransformer):
    def visit_FunctionDef(self, n):
        self.generic_visit(n)
        for a in n.args.args + n.args.kwonlyargs:
            if a.arg not in ("self", "cls") and a.annotation is None:
                a.annotation = ast.Constant("object")
        return n


def annotate(src):
    t = ast.parse(src)
    _Annotate().visit(t)
    ast.fix_missing_locations(t)
    return ast.unparse(t) + "\n"


class _SplitCall(ast.NodeTransformer):
    """y = f(g(x), ...) -> t = g(x); y = f(t, ...)  when f is a plain name or
    attribute chain and g(x) is its FIRST positional argument (evaluation order
    is unchanged).  Applied to Assign / Return / Expr statements."""

    def __init__(self):
        self.k = 0

    def _block(self, stmts):
        out = []
        for st in stmts:
            st = self.visit(st)
            v = getattr(st, "value", None) if isinstance(st, (ast.Assign, ast.Return, ast.Expr)) else None
            if isinstance(v, ast.Call) and v.args and isinstance(v.args[0], ast.Call) \
                    and not any(isinstance(x, (ast.Yield, ast.YieldFrom, ast.Await, ast.NamedExpr,
                                               ast.Starred))
                                for x in ast.walk(v)) and _purefunc(v.func):
                self.k += 1
                name = f"arg_tmp{self.k}"
                out.append(ast.Assign(targets=[ast.Name(name, ast.Store())], value=v.args[0],
                                      lineno=st.lineno))
                v.args[0] = ast.Name(name, ast.Load())
            out.append(st)
        return out

    def generic_visit(self, node):
        for f in ("body", "orelse", "finalbody"):
            b = getattr(node, f, None)
            if isinstance(b, list) and b and isinstance(b[0], ast.stmt):
                setattr(node, f, self._block(b))
        for h in getattr(node, "handlers", []) or []:
            h.body = self._block(h.body)
        return node


def _purefunc(f):
    while isinstance(f, ast.Attribute):
        f = f.value
    return isinstance(f, ast.Name)


def splitcall(src):
    t = ast.parse(src)
    _SplitCall().visit(t)
    ast.fix_missing_locations(t)
    return ast.unparse(t) + "\n"


TRANSFORMS = {"splitcall": splitcall, "addlog": addlog, "msgchange": msgchange, "nodoc": nodoc, "annotate": annotate,
              "noelse": noelse, "notcmp": notcmp, "alpha": alpha, "reprint": reprint, "rettemp": rettemp, "ifswap": ifswap,
              "cmpflip": cmpflip}
