"""Checker-validation variants: (prop, name, file, [(old, new)...], expect).

expect = "fires:<rule>"  the check must exit 1 naming that rule
         "silent"        the check must exit 0 (behaviour-preserving edit)
"""

VARIANTS = []


def V(prop, name, file, edits, expect):
    if isinstance(edits, tuple):
        edits = [edits]
    VARIANTS.append(dict(prop=prop, name=name, file=file, edits=edits, expect=expect))


I = "psutil/__init__.py"
L = "psutil/_pslinux.py"
C = "psutil/_common.py"
P = "psutil/_psposix.py"

# ----------------------------------------------------------------- C01
V("C01", "nice-guard-removed", I,
  ("            self._raise_if_pid_reused()\n            self._proc.nice_set(value)",
   "            self._proc.nice_set(value)"), "fires:C01.R1")
V("C01", "nice-guard-after-sink", I,
  ("            self._raise_if_pid_reused()\n            self._proc.nice_set(value)",
   "            self._proc.nice_set(value)\n            self._raise_if_pid_reused()"),
  "fires:C01.R1")
V("C01", "rlimit-guard-always-false", I,
  ("            if limits is not None:\n                self._raise_if_pid_reused()",
   "            if limits is None:\n                self._raise_if_pid_reused()"),
  "fires:C01.R1")
V("C01", "send-signal-guard-removed", I,
  ("            assert not self.pid < 0, self.pid\n            self._raise_if_pid_reused()\n",
   "            assert not self.pid < 0, self.pid\n"), "fires:C01.R1")
V("C01", "cpu-affinity-guard-in-branch", I,
  ("                self._raise_if_pid_reused()\n                if not cpus:",
   "                if not cpus:\n                    self._raise_if_pid_reused()\n                if not cpus:"),
  "fires:C01.R1")
V("C01", "pid0-refusal-dropped", I,
  ("            if pid == 0:\n                # see \"man 2 kill\"",
   "            if pid == -1:\n                # see \"man 2 kill\""), "fires:C01.R3")
V("C01", "negative-pid-accepted", I,
  ("            if pid < 0:\n                msg = f\"pid must be a positive integer (got {pid})\"\n                raise ValueError(msg)\n",
   "            if pid < 0:\n                msg = f\"pid must be a positive integer (got {pid})\"\n                debug(msg)\n"),
  "fires:C01.R3")
V("C01", "pid-exists-negative", I,
  ("    if pid < 0:\n        return False\n    elif pid == 0 and POSIX:",
   "    if pid == 0 and POSIX:"), "fires:C01.R3")
V("C01", "suspend-wrong-signal", I,
  ("self._send_signal(signal.SIGSTOP)", "self._send_signal(signal.SIGTSTP)"),
  "fires:C01.R4")
V("C01", "kill-sends-term", I,
  ("self._send_signal(signal.SIGKILL)", "self._send_signal(signal.SIGTERM)"),
  "fires:C01.R4")
V("C01", "ionice-args-swapped", I,
  ("return self._proc.ionice_set(ioclass, value)",
   "return self._proc.ionice_set(value, ioclass)"), "fires:C01.R4")
V("C01", "setpriority-other-pid", L,
  ("return cext_posix.setpriority(self.pid, value)",
   "return cext_posix.setpriority(self._ppid, value)"), "fires:C01.R4")
V("C01", "pid-reused-reset", I,
  ("        if self._gone or self._pid_reused:\n            return False\n        try:",
   "        if self._gone:\n            return False\n        try:"), "fires:C01.R5")
V("C01", "guard-trusts-stale-flag", I,
  ("if self._pid_reused or (not self.is_running() and self._pid_reused):",
   "if self._pid_reused:"), "fires:C01.R6")
V("C01", "is-running-compares-pid-only", I,
  ("self._pid_reused = self != Process(self.pid)",
   "self._pid_reused = self.pid != Process(self.pid).pid"), "fires:C01.R6")
V("C01", "popen-terminate-override", I,
  ("    def __dir__(self):\n        return sorted(set(dir(Popen) + dir(subprocess.Popen)))",
   "    def terminate(self):\n        return self.__subproc.terminate()\n\n    def __dir__(self):\n        return sorted(set(dir(Popen) + dir(subprocess.Popen)))"),
  "fires:C01.R7")
V("C01", "benign-rename-local", I,
  ("            pid, ppid, name = self.pid, self._ppid, self._name\n            if pid == 0:",
   "            pid, ppid, name = self.pid, self._ppid, self._name\n            if 0 == pid or pid == 0:"),
  "silent")
V("C01", "benign-extra-guard", I,
  ("            self._raise_if_pid_reused()\n            self._proc.nice_set(value)",
   "            self._raise_if_pid_reused()\n            debug('nice')\n            self._proc.nice_set(value)"),
  "silent")
V("C01", "new-setter-unguarded", I,
  ("    def num_ctx_switches(self):",
   "    def set_oom_score(self, value):\n        return os.kill(self.pid, value)\n\n    def num_ctx_switches(self):"),
  "fires:C01.R1")
