"""Checker-validation variants: (prop, name, file, [(old, new)...], expect).

expect = "fires:<rule>"  the check must exit 1 naming that rule
         "silent"        the check must exit 0 (behaviour-preserving edit)
"""

VARIANTS = []


def V(prop, name, file, edits, expect):
    if isinstance(edits, tuple):
        edits = [edits]
    VARIANTS.append(dict(prop=prop, name=name, file=file, edits=edits, expect=expect))


I = "psutil/__init__.py"
L = "psutil/_pslinux.py"
C = "psutil/_common.py"
P = "psutil/_psposix.py"

# ----------------------------------------------------------------- C01
V("C01", "nice-guard-removed", I,
  ("            self._raise_if_pid_reused()\n            self._proc.nice_set(value)",
   "            self._proc.nice_set(value)"), "fires:C01.R1")
V("C01", "nice-guard-after-sink", I,
  ("            self._raise_if_pid_reused()\n            self._proc.nice_set(value)",
   "            self._proc.nice_set(value)\n            self._raise_if_pid_reused()"),
  "fires:C01.R1")
V("C01", "rlimit-guard-always-false", I,
  ("            if limits is not None:\n                self._raise_if_pid_reused()",
   "            if limits is None:\n                self._raise_if_pid_reused()"),
  "fires:C01.R1")
V("C01", "send-signal-guard-removed", I,
  ("            assert not self.pid < 0, self.pid\n            self._raise_if_pid_reused()\n",
   "            assert not self.pid < 0, self.pid\n"), "fires:C01.R1")
V("C01", "cpu-affinity-guard-in-branch", I,
  ("                self._raise_if_pid_reused()\n                if not cpus:",
   "                if not cpus:\n                    self._raise_if_pid_reused()\n                if not cpus:"),
  "fires:C01.R1")
V("C01", "pid0-refusal-dropped", I,
  ("            if pid == 0:\n                # see \"man 2 kill\"",
   "            if pid == -1:\n                # see \"man 2 kill\""), "fires:C01.R3")
V("C01", "negative-pid-accepted", I,
  ("            if pid < 0:\n                msg = f\"pid must be a positive integer (got {pid})\"\n                raise ValueError(msg)\n",
   "            if pid < 0:\n                msg = f\"pid must be a positive integer (got {pid})\"\n                debug(msg)\n"),
  "fires:C01.R3")
V("C01", "pid-exists-negative", I,
  ("    if pid < 0:\n        return False\n    elif pid == 0 and POSIX:",
   "    if pid == 0 and POSIX:"), "fires:C01.R3")
V("C01", "suspend-wrong-signal", I,
  ("self._send_signal(signal.SIGSTOP)", "self._send_signal(signal.SIGTSTP)"),
  "fires:C01.R4")
V("C01", "kill-sends-term", I,
  ("self._send_signal(signal.SIGKILL)", "self._send_signal(signal.SIGTERM)"),
  "fires:C01.R4")
V("C01", "ionice-args-swapped", I,
  ("return self._proc.ionice_set(ioclass, value)",
   "return self._proc.ionice_set(value, ioclass)"), "fires:C01.R4")
V("C01", "setpriority-other-pid", L,
  ("return cext_posix.setpriority(self.pid, value)",
   "return cext_posix.setpriority(self._ppid, value)"), "fires:C01.R4")
V("C01", "pid-reused-reset", I,
  ("        if self._gone or self._pid_reused:\n            return False\n        try:",
   "        if self._gone:\n            return False\n        try:"), "fires:C01.R5")
V("C01", "guard-trusts-stale-flag", I,
  ("if self._pid_reused or (not self.is_running() and self._pid_reused):",
   "if self._pid_reused:"), "fires:C01.R6")
V("C01", "is-running-compares-pid-only", I,
  ("self._pid_reused = self != Process(self.pid)",
   "self._pid_reused = self.pid != Process(self.pid).pid"), "fires:C01.R6")
V("C01", "popen-terminate-override", I,
  ("    def __dir__(self):\n        return sorted(set(dir(Popen) + dir(subprocess.Popen)))",
   "    def terminate(self):\n        return self.__subproc.terminate()\n\n    def __dir__(self):\n        return sorted(set(dir(Popen) + dir(subprocess.Popen)))"),
  "fires:C01.R7")
V("C01", "benign-rename-local", I,
  ("            pid, ppid, name = self.pid, self._ppid, self._name\n            if pid == 0:",
   "            pid, ppid, name = self.pid, self._ppid, self._name\n            if 0 == pid or pid == 0:"),
  "silent")
V("C01", "benign-extra-guard", I,
  ("            self._raise_if_pid_reused()\n            self._proc.nice_set(value)",
   "            self._raise_if_pid_reused()\n            debug('nice')\n            self._proc.nice_set(value)"),
  "silent")
V("C01", "new-setter-unguarded", I,
  ("    def num_ctx_switches(self):",
   "    def set_oom_score(self, value):\n        return os.kill(self.pid, value)\n\n    def num_ctx_switches(self):"),
  "fires:C01.R1")

# ----------------------------------------------------------------- C05
V("C05", "defect-F10-returns-flat", I,
  ("if ppid == self.pid and pid != self.pid:", "if ppid == self.pid:"), "fires:C05.R2")
V("C05", "defect-F10-returns-rec", I,
  ("                    if child_pid == self.pid:\n", "                    if child_pid == -1:\n"),
  "fires:C05.R2")
V("C05", "seen-check-removed", I,
  ("                if pid in seen:\n", "                if pid in ():\n"), "fires:C05.R1")
V("C05", "seen-add-removed", I,
  ("                seen.add(pid)\n", "                pass\n"), "fires:C05.R1")
V("C05", "ctime-test-dropped-flat", I,
  ("                        if self.create_time() <= child.create_time():\n                            ret.append(child)",
   "                        if child.create_time():\n                            ret.append(child)"),
  "fires:C05.R2")
V("C05", "ctime-test-inverted-rec", I,
  ("intime = self.create_time() <= child.create_time()",
   "intime = self.create_time() >= child.create_time()"), "fires:C05.R2")
V("C05", "children-guard-removed", I,
  ("        self._raise_if_pid_reused()\n        ppid_map = _ppid_map()",
   "        ppid_map = _ppid_map()"), "fires:C05.R3")
V("C05", "ppid-guard-removed", I,
  ("        self._raise_if_pid_reused()\n        if POSIX:\n            return self._proc.ppid()",
   "        if POSIX:\n            return self._proc.ppid()"), "fires:C05.R3")
V("C05", "parent-ctime-dropped", I,
  ("                if parent.create_time() <= ctime:\n                    return parent",
   "                if parent.create_time():\n                    return parent"),
  "fires:C05.R4")
V("C05", "parent-lowest-pid-dropped", I,
  ("        if self.pid == lowest_pid:\n            return None\n", ""), "fires:C05.R4")
V("C05", "child-handler-narrowed", I,
  ("                        if intime:\n                            ret.append(child)\n                            stack.append(child_pid)\n                    except (NoSuchProcess, ZombieProcess):",
   "                        if intime:\n                            ret.append(child)\n                            stack.append(child_pid)\n                    except AccessDenied:"),
  "fires:C05.R5")
V("C05", "benign-ge-form", I,
  ("                        if self.create_time() <= child.create_time():\n                            ret.append(child)",
   "                        if child.create_time() >= self.create_time():\n                            ret.append(child)"),
  "silent")
V("C05", "benign-seen-on-push", I,
  ("                    if child_pid == self.pid:\n", "                    if child_pid == self.pid or child_pid in seen:\n"),
  "silent")

# ----------------------------------------------------------------- C15
V("C15", "wait-negative-timeout-accepted", I,
  ("        if timeout is not None and not timeout >= 0:\n            msg = \"timeout must be a positive integer\"",
   "        if timeout is not None and not timeout >= -1:\n            msg = \"timeout must be a positive integer\""),
  "fires:C15.R1")
V("C15", "wait-exitcode-not-cached", I,
  ("        if self._exitcode is not _SENTINEL:\n            return self._exitcode\n", ""),
  "fires:C15.R1")
V("C15", "early-status-return", P,
  ("            if retpid == 0:\n                # WNOHANG flag was used and PID is still running.\n                interval = sleep(interval)\n                continue\n",
   "            if retpid == 0 and timeout is None:\n                # WNOHANG flag was used and PID is still running.\n                interval = sleep(interval)\n                continue\n"),
  "fires:C15.R2")
V("C15", "none-returned-while-alive", P,
  ("            while _pid_exists(pid):\n                interval = sleep(interval)\n            return None",
   "            if _pid_exists(pid):\n                interval = sleep(interval)\n            return None"),
  "fires:C15.R2")
V("C15", "eintr-gives-up", P,
  ("        except InterruptedError:\n            interval = sleep(interval)",
   "        except InterruptedError:\n            return None"), "fires:C15.R2")
V("C15", "deadline-checked-after-sleep", P,
  ("        if timeout is not None:\n            if _timer() >= stop_at:\n                raise TimeoutExpired(timeout, pid=pid, name=proc_name)\n        _sleep(interval)\n",
   "        _sleep(interval)\n        if timeout is not None:\n            if _timer() >= stop_at:\n                raise TimeoutExpired(timeout, pid=pid, name=proc_name)\n"),
  "fires:C15.R3")
V("C15", "timeout-expired-wrong-seconds", P,
  ("raise TimeoutExpired(timeout, pid=pid, name=proc_name)",
   "raise TimeoutExpired(interval, pid=pid, name=proc_name)"), "fires:C15.R3")
V("C15", "backoff-cap-raised", P,
  ("return _min(interval * 2, 0.04)", "return _min(interval * 2, 0.4)"), "fires:C15.R4")
V("C15", "backoff-start-changed", P,
  ("    interval = 0.0001\n", "    interval = 0.01\n"), "fires:C15.R4")
V("C15", "signal-not-negated", P,
  ("return negsig_to_enum(-os.WTERMSIG(status))", "return negsig_to_enum(os.WTERMSIG(status))"),
  "fires:C15.R5")
V("C15", "exit-status-raw", P,
  ("return os.WEXITSTATUS(status)", "return status"), "fires:C15.R5")
V("C15", "alive-not-updated-last-sweep", I,
  ("            check_gone(proc, 0)\n        alive = alive - gone  # noqa: PLR6104",
   "            check_gone(proc, 0)"), "fires:C15.R6")
V("C15", "callback-on-timeout-path", I,
  ("        except (TimeoutExpired, subprocess.TimeoutExpired):\n            pass\n        else:\n            if returncode is not None or not proc.is_running():",
   "        except (TimeoutExpired, subprocess.TimeoutExpired):\n            returncode = None\n        if True:\n            if returncode is not None or not proc.is_running():"),
  "fires:C15.R6")
V("C15", "gone-without-liveness", I,
  ("if returncode is not None or not proc.is_running():", "if returncode is not None or proc.is_running():"),
  "fires:C15.R6")
V("C15", "benign-rename-stop-at", P,
  [("        stop_at = _timer() + timeout", "        deadline = _timer() + timeout"),
   ("            if _timer() >= stop_at:", "            if _timer() >= deadline:")], "silent")
V("C15", "benign-deadline-flipped", P,
  ("            if _timer() >= stop_at:", "            if stop_at <= _timer():"), "silent")

# ----------------------------------------------------------------- C16
V("C16", "deactivate-missing", I,
  ("                    self.memory_info.cache_deactivate(self)\n", ""), "fires:C16.R1")
V("C16", "deactivate-not-in-finally", I,
  ("                    yield\n                finally:\n                    self.cpu_times.cache_deactivate(self)",
   "                    yield\n                    self.cpu_times.cache_deactivate(self)\n                finally:\n                    pass"),
  "fires:C16.R1")
V("C16", "linux-exit-forgets-status", L,
  ("        self._read_status_file.cache_deactivate(self)\n", ""), "fires:C16.R1")
V("C16", "osx-enter-forgets", "psutil/_psosx.py",
  ("        self._get_pidtaskinfo.cache_activate(self)\n", ""), "fires:C16.R1")
V("C16", "uids-reads-status-directly", L,
  ("        data = self._read_status_file()\n        real, effective, saved = _uids_re.findall(data)[0]",
   "        with open_binary(f\"{self._procfs_path}/{self.pid}/status\") as f:\n            data = f.read()\n        real, effective, saved = _uids_re.findall(data)[0]"),
  "fires:C16.R2")
V("C16", "stat-reader-not-memoised", L,
  ("    @wrap_exceptions\n    @memoize_when_activated\n    def _parse_stat_file(self):",
   "    @wrap_exceptions\n    def _parse_stat_file(self):"), "fires:C16.R1")
V("C16", "lock-narrowed", I,
  ("        with self._lock:\n            if hasattr(self, \"_cache\"):",
   "        if True:\n            if hasattr(self, \"_cache\"):"), "fires:C16.R3")
V("C16", "nested-reactivates", I,
  ("            if hasattr(self, \"_cache\"):", "            if hasattr(self, \"_cache_\"):"),
  "fires:C16.R3")
V("C16", "memoiser-store-not-tolerant", C,
  ("            try:\n                self._cache[fun] = ret\n            except AttributeError:\n                # multi-threading race condition, see:\n                # https://github.com/giampaolo/psutil/issues/1948\n                pass",
   "            self._cache[fun] = ret"), "fires:C16.R4")
V("C16", "memoiser-no-attrerror-case", C,
  ("        except AttributeError:\n            # case 2: we never entered oneshot() ctx\n            try:\n                return fun(self)\n            except Exception as err:  # noqa: BLE001\n                raise err from None\n        except KeyError:",
   "        except (AttributeError, KeyError):"), "fires:C16.R4")
V("C16", "as_dict-catches-error", I,
  ("                except (AccessDenied, ZombieProcess):\n                    ret = ad_value",
   "                except Error:\n                    ret = ad_value"), "fires:C16.R5")
V("C16", "as_dict-validation-after", I,
  ("            attrs = set(attrs)\n            invalid_names = attrs - valid_names\n            if invalid_names:",
   "            attrs = set(attrs)\n            invalid_names = attrs - valid_names\n            if invalid_names and False:"),
  "fires:C16.R5")
V("C16", "as_dict-zombie-not-advalue", I,
  ("                except (AccessDenied, ZombieProcess):\n                    ret = ad_value",
   "                except AccessDenied:\n                    ret = ad_value"), "fires:C16.R5")

# ----------------------------------------------------------------- C03
V("C03", "decorator-dropped-num-fds", L,
  ("    @wrap_exceptions\n    def num_fds(self):", "    def num_fds(self):"), "fires:C03.R1")
V("C03", "decorator-dropped-environ", L,
  ("    @wrap_exceptions\n    def environ(self):", "    def environ(self):"), "fires:C03.R1")
V("C03", "new-access-in-undecorated-helper", L,
  ("            data = self._read_status_file()\n            match = _re.findall(data)",
   "            data = bcat(f\"{self._procfs_path}/{self.pid}/status\")\n            match = _re.findall(data)"),
  "fires:C03.R1")
V("C03", "rollup-fallback-narrowed", L,
  ("                except (ProcessLookupError, FileNotFoundError):\n                    uss, pss, swap = self._parse_smaps()",
   "                except ProcessLookupError:\n                    uss, pss, swap = self._parse_smaps()"),
  "silent")  # FNF then goes to wrap_exceptions: still only psutil errors
V("C03", "handler-shadowing", L,
  ("        except PermissionError as err:\n            raise AccessDenied(pid, name) from err\n        except ProcessLookupError as err:",
   "        except OSError as err:\n            raise AccessDenied(pid, name) from err\n        except ProcessLookupError as err:"),
  "fires:C03.R2")
V("C03", "zombie-check-dropped-esrch", L,
  ("        except ProcessLookupError as err:\n            self._raise_if_zombie()\n            raise NoSuchProcess(pid, name) from err",
   "        except ProcessLookupError as err:\n            raise NoSuchProcess(pid, name) from err"),
  "fires:C03.R2")
V("C03", "probe-inverted", L,
  ("            if not os.path.exists(f\"{self._procfs_path}/{pid}/stat\"):\n                raise NoSuchProcess(pid, name) from err\n            raise",
   "            if os.path.exists(f\"{self._procfs_path}/{pid}/stat\"):\n                raise NoSuchProcess(pid, name) from err\n            raise"),
  "fires:C03.R2")
V("C03", "wrong-pid-in-exception", L,
  ("        pid, name = self.pid, self._name\n        try:\n            return fun(self, *args, **kwargs)",
   "        pid, name = self._ppid, self._name\n        try:\n            return fun(self, *args, **kwargs)"),
  "fires:C03.R2")
V("C03", "threads-hit-enoent-not-consulted", L,
  ("            ntuple = _common.pthread(int(thread_id), utime, stime)\n            retlist.append(ntuple)\n        if hit_enoent:\n            self._raise_if_not_alive()\n        return retlist",
   "            ntuple = _common.pthread(int(thread_id), utime, stime)\n            retlist.append(ntuple)\n        return retlist"), "fires:C03.R3")
V("C03", "open-files-fdinfo-flag-lost", L,
  ("                        # fd gone in the meantime; process may\n                        # still be alive\n                        hit_enoent = True",
   "                        # fd gone in the meantime; process may\n                        # still be alive\n                        pass"),
  "fires:C03.R3")
V("C03", "net-connections-no-alive-check", L,
  ("        ret = _net_connections.retrieve(kind, self.pid)\n        self._raise_if_not_alive()\n        return ret",
   "        ret = _net_connections.retrieve(kind, self.pid)\n        return ret"), "fires:C03.R3")
V("C03", "cmdline-zombie-check-dropped", L,
  ("            # may happen in case of zombie process\n            self._raise_if_zombie()\n            return []",
   "            # may happen in case of zombie process\n            return []"), "fires:C03.R4")
V("C03", "readlink-fallback-before-zombie", L,
  ("                self._raise_if_zombie()\n                if fallback is not UNSET:\n                    return fallback",
   "                if fallback is not UNSET:\n                    return fallback\n                self._raise_if_zombie()"),
  "fires:C03.R4")
V("C03", "process-iter-nsp-handler-removed", I,
  ("            except NoSuchProcess:\n                remove(pid)\n    finally:",
   "            except ZombieProcess:\n                remove(pid)\n    finally:"), "fires:C03.R5")
V("C03", "ppid-map-handler-narrowed", L,
  ("        except (FileNotFoundError, ProcessLookupError):\n            # Note: we should be able to access /stat for all processes",
   "        except FileNotFoundError:\n            # Note: we should be able to access /stat for all processes"),
  "fires:C03.R5")
V("C03", "is-running-zombie-false", I,
  ("        except ZombieProcess:\n            # We should never get here as it's already handled in\n            # Process.__init__; here just for extra safety.\n            return True",
   "        except ZombieProcess:\n            # We should never get here as it's already handled in\n            # Process.__init__; here just for extra safety.\n            return False"),
  "fires:C03.R5")
V("C03", "benign-local-try", L,
  ("    @wrap_exceptions\n    def num_fds(self):\n        return len(os.listdir(f\"{self._procfs_path}/{self.pid}/fd\"))",
   "    @wrap_exceptions\n    def num_fds(self):\n        path = f\"{self._procfs_path}/{self.pid}/fd\"\n        names = os.listdir(path)\n        return len(names)"),
  "silent")

# ----------------------------------------------------------------- C02
V("C02", "defect-F8-returns", I,
  ("            return (self.pid, self._proc.create_time(monotonic=True))",
   "            return (self.pid, self.create_time())"), "fires:C02.R3")
V("C02", "monotonic-flag-ignored", L,
  ("        if monotonic:\n            return ctime / CLOCK_TICKS\n", ""), "fires:C02.R3")
V("C02", "ident-from-cached-global", I,
  ("            return (self.pid, self._proc.create_time(monotonic=True))",
   "            return (self.pid, self._proc.create_time(monotonic=True) + (_LOWEST_PID or 0))"),
  "fires:C02.R3")
V("C02", "hash-pid-only", I,
  ("            self._hash = hash(self._ident)", "            self._hash = hash(self.pid)"),
  "fires:C02.R1")
V("C02", "eq-pid-only", I,
  ("        return self._ident == other._ident", "        return self.pid == other.pid"),
  "fires:C02.R1")
V("C02", "ident-refreshed-in-is-running", I,
  ("            self._pid_reused = self != Process(self.pid)",
   "            self._ident = self._get_ident()\n            self._pid_reused = self != Process(self.pid)"),
  "fires:C02.R2")
V("C02", "create-time-recomputed", I,
  ("        if self._create_time is None:\n            self._create_time = self._proc.create_time()\n        return self._create_time",
   "        self._create_time = self._proc.create_time()\n        return self._create_time"),
  "fires:C02.R2")
V("C02", "reused-not-published", I,
  ("                _pids_reused.add(self.pid)\n", ""), "fires:C02.R4")
V("C02", "benign-ident-local", I,
  ("            return (self.pid, self._proc.create_time(monotonic=True))",
   "            start = self._proc.create_time(monotonic=True)\n            return (self.pid, start)"),
  "silent")

# ----------------------------------------------------------------- C04
V("C04", "defect-F9-returns", I,
  ("        try:\n            return _psplatform.pid_exists(pid)\n        except OverflowError:\n            # PID does not fit the C pid type, so it cannot exist.\n            return False",
   "        return _psplatform.pid_exists(pid)"), "fires:C04.R2")
V("C04", "pids-not-sorted", I,
  ("    ret = sorted(_psplatform.pids())", "    ret = list(_psplatform.pids())"), "fires:C04.R1")
V("C04", "iter-not-sorted", I,
  ("        ls = sorted(list(pmap.items()) + list(dict.fromkeys(new_pids).items()))",
   "        ls = list(pmap.items()) + list(dict.fromkeys(new_pids).items())"), "fires:C04.R1")
V("C04", "linux-pids-filter-dropped", L,
  ("    return [int(x) for x in os.listdir(path) if x.isdigit()]",
   "    return [int(x) for x in os.listdir(path) if x[:1].isdigit()]"), "fires:C04.R1")
V("C04", "pid-exists-eperm-escapes", P,
  ("    except PermissionError:\n        # EPERM clearly means there's a process to deny access to\n        return True\n", ""),
  "fires:C04.R2")
V("C04", "tgid-check-dropped", L,
  ("                        return tgid == pid", "                        return True"),
  "fires:C04.R2")
V("C04", "no-copy", I,
  ("    pmap = _pmap.copy()", "    pmap = _pmap"), "fires:C04.R3")
V("C04", "gone-not-dropped", I,
  ("    for pid in gone_pids:\n        remove(pid)\n", ""), "fires:C04.R3")
V("C04", "gone-inverted", I,
  ("    gone_pids = b - a", "    gone_pids = a - b"), "fires:C04.R3")
V("C04", "reused-not-drained", I,
  ("    while _pids_reused:\n        pid = _pids_reused.pop()\n        debug(f\"refreshing Process instance for reused PID {pid}\")\n        remove(pid)\n",
   ""), "fires:C04.R3")
V("C04", "finally-replaced", I,
  ("            except NoSuchProcess:\n                remove(pid)\n    finally:\n        _pmap = pmap",
   "            except NoSuchProcess:\n                remove(pid)\n    finally:\n        pass\n    _pmap = pmap"),
  "fires:C04.R3")
V("C04", "ad-value-dropped", I,
  ("proc.info = proc.as_dict(attrs=attrs, ad_value=ad_value)", "proc.info = proc.as_dict(attrs=attrs)"),
  "fires:C04.R3")
V("C04", "cache-clear-noop", I,
  ("process_iter.cache_clear = lambda: _pmap.clear()", "process_iter.cache_clear = lambda: _pids_reused.clear()"),
  "fires:C04.R3")
V("C04", "inplace-remove", I,
  ("    def remove(pid):\n        pmap.pop(pid, None)", "    def remove(pid):\n        pmap.pop(pid, None)\n        _pmap.pop(pid, None)"),
  "fires:C04.R4")
V("C04", "benign-dict-copy", I,
  ("    pmap = _pmap.copy()", "    pmap = dict(_pmap)"), "silent")

# ----------------------------------------------------------------- C10
V("C10", "lock-dropped-in-wrap-numbers", C,
  ("    with _wn.lock:\n        return _wn.run(input_dict, name)",
   "    return _wn.run(input_dict, name)"), "fires:C10.R1")
V("C10", "cache-clear-unlocked", C,
  ("        with self.lock:\n            if name is None:\n                self.cache.clear()",
   "        if True:\n            if name is None:\n                self.cache.clear()"),
  "fires:C10.R1")
V("C10", "reminder-adds-new-value", C,
  ("                    self.reminders[name][remkey] += old_value",
   "                    self.reminders[name][remkey] += input_value"), "fires:C10.R2")
V("C10", "wrap-test-inverted", C,
  ("                if input_value < old_value:", "                if input_value > old_value:"),
  "fires:C10.R2")
V("C10", "wrap-test-le", C,
  ("                if input_value < old_value:", "                if input_value <= old_value:"),
  "fires:C10.R2")
V("C10", "baseline-not-replaced", C,
  ("        self.cache[name] = input_dict\n        return new_dict", "        return new_dict"),
  "fires:C10.R2")
V("C10", "baseline-is-adjusted-dict", C,
  ("        self.cache[name] = input_dict\n        return new_dict",
   "        self.cache[name] = new_dict\n        return new_dict"), "fires:C10.R2")
V("C10", "output-without-reminder", C,
  ("                bits.append(input_value + self.reminders[name][remkey])",
   "                bits.append(input_value)"), "fires:C10.R2")
V("C10", "purge-skipped", C,
  ("        self._remove_dead_reminders(input_dict, name)\n\n        old_dict = self.cache[name]",
   "        old_dict = self.cache[name]"), "fires:C10.R3")
V("C10", "cache-clear-keeps-reminders", C,
  ("                self.reminders.pop(name, None)\n", ""), "fires:C10.R3")
V("C10", "shared-history-name", I,
  ("        rawdict = _wrap_numbers(rawdict, 'psutil.net_io_counters')",
   "        rawdict = _wrap_numbers(rawdict, 'psutil.disk_io_counters')"), "fires:C10.R4")
V("C10", "partial-wrong-name", I,
  ("    _wrap_numbers.cache_clear, 'psutil.net_io_counters'\n",
   "    _wrap_numbers.cache_clear, 'psutil.net_io_counter'\n"), "fires:C10.R4")
V("C10", "nowrap-ignored", I,
  ("    if nowrap:\n        rawdict = _wrap_numbers(rawdict, 'psutil.disk_io_counters')",
   "    if True:\n        rawdict = _wrap_numbers(rawdict, 'psutil.disk_io_counters')"),
  "fires:C10.R4")
V("C10", "benign-gt-form", C,
  ("                if input_value < old_value:", "                if old_value > input_value:"),
  "silent")

# ----------------------------------------------------------------- C06
V("C06", "defect-F1-returns", L,
  ("            st = st[st.rfind(b')') + 2 :]", "            st = st[st.find(b')') + 2 :]"),
  "fires:C06.R1")
V("C06", "defect-F2-returns", L,
  ("_uids_re=re.compile(br'^Uid:\\t(\\d+)\\t(\\d+)\\t(\\d+)', re.MULTILINE),",
   "_uids_re=re.compile(br'Uid:\\t(\\d+)\\t(\\d+)\\t(\\d+)'),"), "fires:C06.R5")
V("C06", "ppid-map-first-paren", L,
  ("            rpar = data.rfind(b')')\n            dset = data[rpar + 2 :].split()",
   "            rpar = data.find(b')')\n            dset = data[rpar + 2 :].split()"), "fires:C06.R1")
V("C06", "utime-stime-swapped", L,
  ("        ret['utime'] = fields[11]\n        ret['stime'] = fields[12]",
   "        ret['utime'] = fields[12]\n        ret['stime'] = fields[11]"), "fires:C06.R2")
V("C06", "cpu-times-children-swapped", L,
  ("        return pcputimes(utime, stime, children_utime, children_stime, iowait)",
   "        return pcputimes(utime, stime, children_stime, children_utime, iowait)"), "fires:C06.R2")
V("C06", "ppid-off-by-one", L,
  ("        ret['ppid'] = fields[1]", "        ret['ppid'] = fields[2]"), "fires:C06.R2")
V("C06", "starttime-wrong-col", L,
  ("        ret['create_time'] = fields[19]", "        ret['create_time'] = fields[18]"), "fires:C06.R2")
V("C06", "cpu-num-wrong-col", L,
  ("        ret['cpu_num'] = fields[36]", "        ret['cpu_num'] = fields[35]"), "fires:C06.R2")
V("C06", "thread-stime-col", L,
  ("            stime = float(values[12]) / CLOCK_TICKS\n            ntuple = _common.pthread",
   "            stime = float(values[13]) / CLOCK_TICKS\n            ntuple = _common.pthread"), "fires:C06.R2")
V("C06", "rpar-offset", L,
  ("        fields = data[rpar + 2 :].split()", "        fields = data[rpar + 1 :].split()"), "silent")
V("C06", "ticks-not-divided", L,
  ("        iowait = float(values['blkio_ticks']) / CLOCK_TICKS", "        iowait = float(values['blkio_ticks'])"),
  "fires:C06.R3")
V("C06", "ticks-divided-by-100", L,
  ("        utime = float(values['utime']) / CLOCK_TICKS\n        stime = float(values['stime']) / CLOCK_TICKS\n        children_utime",
   "        utime = float(values['utime']) / 100\n        stime = float(values['stime']) / CLOCK_TICKS\n        children_utime"),
  "fires:C06.R3")
V("C06", "create-time-boot-not-added", L,
  ("        return (ctime / CLOCK_TICKS) + bt", "        return (ctime / CLOCK_TICKS)"), "fires:C06.R3")
V("C06", "create-time-ticks-plus-boot", L,
  ("        return (ctime / CLOCK_TICKS) + bt", "        return (ctime + bt) / CLOCK_TICKS"), "fires:C06.R3")
V("C06", "state-letter-dropped", L,
  ("    \"I\": _common.STATUS_IDLE,\n", ""), "fires:C06.R4")
V("C06", "state-letter-wrong", L,
  ("    \"t\": _common.STATUS_TRACING_STOP,", "    \"t\": _common.STATUS_STOPPED,"), "fires:C06.R4")
V("C06", "name-first-rpar", L,
  ("        name = data[data.find(b'(') + 1 : rpar]", "        name = data[data.find(b'(') + 1 : data.find(b')')]"),
  "fires:C06.R7")
V("C06", "tty-not-int", L,
  ("        tty_nr = int(self._parse_stat_file()['ttynr'])", "        tty_nr = self._parse_stat_file()['ttynr']"),
  "fires:C06.R6")
V("C06", "benign-rename-keys", L,
  [("        ret['utime'] = fields[11]", "        ret['user_ticks'] = fields[11]"),
   ("        utime = float(values['utime']) / CLOCK_TICKS", "        utime = float(values['user_ticks']) / CLOCK_TICKS")],
  "silent")
V("C06", "benign-nl-anchor", L,
  ("_gids_re=re.compile(br'^Gid:\\t(\\d+)\\t(\\d+)\\t(\\d+)', re.MULTILINE),",
   "_gids_re=re.compile(br'\\nGid:\\t(\\d+)\\t(\\d+)\\t(\\d+)'),"), "silent")

# ----------------------------------------------------------------- C07
V("C07", "steal-field-misnamed", L,
  ("        fields.append('steal')", "        fields.append('guest')"), "fires:C07.R1")
V("C07", "cpu-values-off-by-one", L,
  ("    fields = values[1 : len(scputimes._fields) + 1]\n    fields = [float(x) / CLOCK_TICKS for x in fields]\n    return scputimes(*fields)",
   "    fields = values[0 : len(scputimes._fields)]\n    fields = [float(x) / CLOCK_TICKS for x in fields]\n    return scputimes(*fields)"),
  "fires:C07.R1")
V("C07", "percpu-not-divided", L,
  ("                fields = [float(x) / CLOCK_TICKS for x in fields]\n                entry = scputimes(*fields)",
   "                fields = [float(x) for x in fields]\n                entry = scputimes(*fields)"),
  "fires:C07.R1")
V("C07", "percpu-includes-aggregate", L,
  ("        # get rid of the first line which refers to system wide CPU stats\n        f.readline()\n", ""),
  "fires:C07.R1")
V("C07", "guest-double-counted", I,
  ("        tot -= getattr(times, \"guest\", 0)  # Linux 2.6.24+\n", ""), "fires:C07.R2")
V("C07", "iowait-counted-busy", I,
  ("    busy -= getattr(times, \"iowait\", 0)\n", ""), "fires:C07.R2")
V("C07", "clip-removed", I,
  ("        field_delta = max(0, field_delta)\n", ""), "fires:C07.R2")
V("C07", "percent-not-rounded", I,
  ("            return round(busy_perc, 1)", "            return busy_perc"), "fires:C07.R2")
V("C07", "busy-over-busy", I,
  ("            busy_perc = (busy_delta / all_delta) * 100", "            busy_perc = (busy_delta / (all_delta + busy_delta)) * 100"),
  "fires:C07.R2")
V("C07", "times-percent-no-clamp", I,
  ("            field_perc = min(max(0.0, field_perc), 100.0)\n", ""), "fires:C07.R3")
V("C07", "times-percent-divisor-busy", I,
  ("        scale = 100.0 / max(1, all_delta)", "        scale = 100.0 / max(1, _cpu_busy_time(times_delta))"),
  "fires:C07.R3")
V("C07", "proc-percent-double-ncpu", I,
  ("            return _timer() * num_cpus\n", "            return _timer()\n"), "fires:C07.R4")
V("C07", "proc-percent-user-only", I,
  ("        delta_proc = (pt2.user - pt1.user) + (pt2.system - pt1.system)",
   "        delta_proc = (pt2.user - pt1.user)"), "fires:C07.R4")
V("C07", "proc-percent-negative-accepted", I,
  ("        blocking = interval is not None and interval > 0.0\n        if interval is not None and interval < 0:\n            msg = f\"interval is not positive (got {interval!r})\"\n            raise ValueError(msg)\n        num_cpus",
   "        blocking = interval is not None and interval > 0.0\n        num_cpus"), "fires:C07.R4")
V("C07", "proc-percent-sample-not-stored", I,
  ("        self._last_proc_cpu_times = pt2\n\n        try:", "        try:"), "fires:C07.R4")
V("C07", "shared-key", I,
  ("            t1 = _last_cpu_times.get(tid) or cpu_times()\n        _last_cpu_times[tid] = cpu_times()\n        return calculate(t1, _last_cpu_times[tid])",
   "            t1 = _last_cpu_times.get(0) or cpu_times()\n        _last_cpu_times[0] = cpu_times()\n        return calculate(t1, _last_cpu_times[0])"),
  "fires:C07.R5")
V("C07", "benign-reorder-terms", I,
  ("        delta_proc = (pt2.user - pt1.user) + (pt2.system - pt1.system)",
   "        delta_proc = (pt2.system + pt2.user) - (pt1.system + pt1.user)"), "silent")

# ----------------------------------------------------------------- C08
V("C08", "defect-F13-returns", L,
  ("                    sin = int(line.split(b' ')[1]) * PAGESIZE", "                    sin = int(line.split(b' ')[1]) * 4 * 1024"),
  "fires:C08.R6")
V("C08", "used-omits-buffers", L,
  ("    used = total - free - cached - buffers", "    used = total - free - cached"), "fires:C08.R2")
V("C08", "used-fallback-wrong", L,
  ("        used = total - free\n\n    # - starting", "        used = total - cached\n\n    # - starting"), "fires:C08.R2")
V("C08", "cached-omits-sreclaimable", L,
  ("        cached += mems.get(b\"SReclaimable:\", 0)  # since kernel 2.6.19\n", "        pass\n"),
  "fires:C08.R1")
V("C08", "shared-from-wrong-key", L,
  ("        shared = mems[b'Shmem:']  # since kernel 2.6.32", "        shared = mems[b'ShmemHugePages:']  # since kernel 2.6.32"),
  "fires:C08.R1")
V("C08", "kb-not-scaled", L,
  ("    with open_binary(f\"{get_procfs_path()}/meminfo\") as f:\n        for line in f:\n            fields = line.split()\n            mems[fields[0]] = int(fields[1]) * 1024\n\n    # /proc doc states",
   "    with open_binary(f\"{get_procfs_path()}/meminfo\") as f:\n        for line in f:\n            fields = line.split()\n            mems[fields[0]] = int(fields[1]) * 1000\n\n    # /proc doc states"),
  "fires:C08.R1")
V("C08", "percent-of-used", L,
  ("    percent = usage_percent((total - avail), total, round_=1)", "    percent = usage_percent(used, total, round_=1)"),
  "fires:C08.R2")
V("C08", "avail-zero-not-handled", L,
  ("        if avail == 0:\n", "        if avail is None:\n"), "fires:C08.R3")
V("C08", "avail-clamp-dropped", L,
  ("    elif avail > total:\n", "    elif avail > total * 2:\n"), "fires:C08.R3")
V("C08", "avail-negative-kept", L,
  ("    if avail < 0:\n        avail = 0\n        missing_fields.append('available')\n    elif avail > total:",
   "    if avail > total:"), "fires:C08.R3")
V("C08", "active-missing-raises", L,
  ("    try:\n        active = mems[b\"Active:\"]\n    except KeyError:\n        active = 0\n        missing_fields.append('active')",
   "    active = mems[b\"Active:\"]"), "fires:C08.R4")
V("C08", "missing-name-wrong", L,
  ("        buffers = 0\n        missing_fields.append('buffers')", "        buffers = 0\n        missing_fields.append('cached')"),
  "fires:C08.R4")
V("C08", "watermark-not-pages", L,
  ("    watermark_low *= PAGESIZE\n", "    watermark_low *= 1024\n"), "fires:C08.R5")
V("C08", "pagecache-min-dropped", L,
  ("    pagecache -= min(pagecache / 2, watermark_low)\n", ""), "fires:C08.R5")
V("C08", "swap-used-wrong", L,
  ("    used = total - free\n    percent = usage_percent(used, total, round_=1)\n    # get pgin/pgouts",
   "    used = total\n    percent = usage_percent(used, total, round_=1)\n    # get pgin/pgouts"), "fires:C08.R2")
V("C08", "swap-in-out-swapped", L,
  ("                if line.startswith(b'pswpin'):\n                    sin =", "                if line.startswith(b'pswpout'):\n                    sin ="),
  "fires:C08.R6")
V("C08", "benign-reorder", L,
  ("    used = total - free - cached - buffers", "    used = total - (free + buffers + cached)"), "silent")

# ----------------------------------------------------------------- C09
V("C09", "nic-name-first-colon", L,
  ("        colon = line.rfind(':')", "        colon = line.find(':')"), "fires:C09.R1")
V("C09", "net-errin-dropin-swapped", L,
  ("            errin,\n            dropin,\n            _fifoin,  # unused", "            dropin,\n            errin,\n            _fifoin,  # unused"),
  "fires:C09.R1")
V("C09", "net-tuple-order", L,
  ("            bytes_sent,\n            bytes_recv,\n            packets_sent,\n            packets_recv,\n            errin,",
   "            bytes_recv,\n            bytes_sent,\n            packets_sent,\n            packets_recv,\n            errin,"),
  "fires:C09.R1")
V("C09", "net-header-not-skipped", L,
  ("    for line in lines[2:]:\n        colon = line.rfind(':')", "    for line in lines[1:]:\n        colon = line.rfind(':')"),
  "fires:C09.R1")
V("C09", "disk-14-wtime-col", L,
  ("                (reads, reads_merged, rbytes, rtime, writes, writes_merged,\n                    wbytes, wtime, _, busy_time, _) = map(int, fields[3:14])",
   "                (reads, reads_merged, rbytes, rtime, writes, writes_merged,\n                    wbytes, _, wtime, busy_time, _) = map(int, fields[3:14])"),
  "fires:C09.R2")
V("C09", "disk-18-not-accepted", L,
  ("            elif flen == 14 or flen >= 18:", "            elif flen == 14:"), "fires:C09.R2")
V("C09", "disk-7-sectors-swapped", L,
  ("                reads, rbytes, writes, wbytes = map(int, fields[3:])", "                reads, writes, rbytes, wbytes = map(int, fields[3:])"),
  "fires:C09.R2")
V("C09", "sector-size-4096", L,
  ("DISK_SECTOR_SIZE = 512", "DISK_SECTOR_SIZE = 4096"), "fires:C09.R2")
V("C09", "wbytes-not-scaled", L,
  ("        wbytes *= DISK_SECTOR_SIZE\n", ""), "fires:C09.R2")
V("C09", "rtime-scaled", L,
  ("        rbytes *= DISK_SECTOR_SIZE\n", "        rbytes *= DISK_SECTOR_SIZE\n        rtime *= DISK_SECTOR_SIZE\n"),
  "fires:C09.R2")
V("C09", "disk-tuple-order", L,
  ("        retdict[name] = (reads, writes, rbytes, wbytes, rtime, wtime,\n                         reads_merged, writes_merged, busy_time)",
   "        retdict[name] = (reads, writes, rbytes, wbytes, rtime, wtime,\n                         writes_merged, reads_merged, busy_time)"),
  "fires:C09.R2")
V("C09", "partitions-counted", L,
  ("        if not perdisk and not is_storage_device(name):", "        if not perdisk and is_storage_device(name):"),
  "fires:C09.R3")
V("C09", "partitions-skipped-perdisk", L,
  ("        if not perdisk and not is_storage_device(name):", "        if not is_storage_device(name):"),
  "fires:C09.R3")
V("C09", "empty-raises", I,
  ("    rawdict = _psplatform.disk_io_counters(**kwargs)\n    if not rawdict:\n        return {} if perdisk else None\n",
   "    rawdict = _psplatform.disk_io_counters(**kwargs)\n"), "fires:C09.R3")
V("C09", "usage-used-of-avail", P,
  ("    avail_to_root = st.f_bfree * st.f_frsize", "    avail_to_root = st.f_bavail * st.f_frsize"),
  "fires:C09.R4")
V("C09", "usage-percent-of-total", P,
  ("    usage_percent_user = usage_percent(used, total_user, round_=1)", "    usage_percent_user = usage_percent(used, total, round_=1)"),
  "fires:C09.R4")
V("C09", "usage-bsize", P,
  ("    total = st.f_blocks * st.f_frsize", "    total = st.f_blocks * st.f_bsize"), "fires:C09.R4")
V("C09", "benign-listcomp-total", I,
  ("        return nt(*(sum(x) for x in zip(*rawdict.values())))", "        return nt(*[sum(x) for x in zip(*rawdict.values())])"),
  "silent")

# ----------------------------------------------------------------- C13
V("C13", "rss-vms-swapped", L,
  ("            vms, rss, shared, text, lib, data, dirty = (", "            rss, vms, shared, text, lib, data, dirty = ("),
  "fires:C13.R1")
V("C13", "statm-4k-literal", L,
  ("                int(x) * PAGESIZE for x in f.readline().split()[:7]", "                int(x) * 4096 for x in f.readline().split()[:7]"),
  "fires:C13.R1")
V("C13", "rollup-pss-prefix-loose", L,
  ("                    elif line.startswith(b\"Pss:\"):", "                    elif line.startswith(b\"Pss\"):"),
  "fires:C13.R2")
V("C13", "rollup-private-not-summed", L,
  ("                        uss += int(line.split()[1]) * 1024", "                        uss = int(line.split()[1]) * 1024"),
  "fires:C13.R2")
V("C13", "smaps-regex-unanchored", L,
  ("            _swap_re=re.compile(br\"\\nSwap\\:\\s+(\\d+)\"),", "            _swap_re=re.compile(br\"Swap\\:\\s+(\\d+)\"),"),
  "fires:C13.R2")
V("C13", "smaps-kb-not-scaled", L,
  ("            pss = sum(map(int, _pss_re.findall(smaps_data))) * 1024", "            pss = sum(map(int, _pss_re.findall(smaps_data)))"),
  "fires:C13.R2")
V("C13", "uss-pss-order", L,
  ("            return pfullmem(*basic_mem + (uss, pss, swap))", "            return pfullmem(*basic_mem + (pss, uss, swap))"),
  "fires:C13.R2")
V("C13", "fallback-too-broad", L,
  ("                except (ProcessLookupError, FileNotFoundError):\n                    uss, pss, swap = self._parse_smaps()",
   "                except OSError:\n                    uss, pss, swap = self._parse_smaps()"), "fires:C13.R2")
V("C13", "maps-header-unbounded", L,
  ("                hfields = header.split(None, 5)", "                hfields = header.split()"), "fires:C13.R3")
V("C13", "maps-key-swapped", L,
  ("                    data.get(b'Shared_Clean:', 0),\n                    data.get(b'Shared_Dirty:', 0),",
   "                    data.get(b'Shared_Dirty:', 0),\n                    data.get(b'Shared_Clean:', 0),"), "fires:C13.R3")
V("C13", "maps-kb", L,
  ("                            data[fields[0]] = int(fields[1]) * 1024", "                            data[fields[0]] = int(fields[1])"),
  "fires:C13.R3")
V("C13", "group-by-perms", I,
  ("                    path = tupl[2]\n                    nums = tupl[3:]", "                    path = tupl[1]\n                    nums = tupl[3:]"),
  "fires:C13.R4")
V("C13", "group-sums-from-4", I,
  ("                    nums = tupl[3:]", "                    nums = tupl[4:]"), "fires:C13.R4")
V("C13", "percent-no-validation", I,
  ("        if memtype not in valid_types:\n            msg = (\n                f\"invalid memtype {memtype!r}; valid types are\"\n                f\" {tuple(valid_types)!r}\"\n            )\n            raise ValueError(msg)\n",
   ""), "fires:C13.R5")
V("C13", "percent-ratio-inverted", I,
  ("        return (value / float(total_phymem)) * 100", "        return (float(total_phymem) / value) * 100"),
  "fires:C13.R5")

# ----------------------------------------------------------------- C14
V("C14", "defect-F11-returns", L,
  ("        os.O_WRONLY | os.O_RDWR: 'w+',\n", ""), "fires:C14.R1")
V("C14", "append-mode-lost", L,
  ("    if flags & os.O_APPEND:\n        mode = mode.replace('w', 'a', 1)", "    if flags & os.O_TRUNC:\n        mode = mode.replace('w', 'a', 1)"),
  "fires:C14.R1")
V("C14", "rdwr-reported-w-plus", L,
  ("    mode = mode.replace('w+', 'r+')\n", ""), "fires:C14.R1")
V("C14", "filter-regular-dropped", L,
  ("                if path.startswith('/') and isfile_strict(path):", "                if path.startswith('/'):"),
  "fires:C14.R2")
V("C14", "filter-relative-kept", L,
  ("                if path.startswith('/') and isfile_strict(path):", "                if isfile_strict(path):"),
  "fires:C14.R2")
V("C14", "einval-propagates", L,
  ("            except OSError as err:\n                if err.errno == errno.EINVAL:\n                    # not a link\n                    continue\n                if err.errno == errno.ENAMETOOLONG:\n                    # file name too long\n                    debug(err)\n                    continue\n                raise\n            else:\n                # If path is not an absolute",
   "            except OSError as err:\n                if err.errno == errno.ENAMETOOLONG:\n                    # file name too long\n                    debug(err)\n                    continue\n                raise\n            else:\n                # If path is not an absolute"),
  "fires:C14.R3")
V("C14", "flags-decimal", L,
  ("                            flags = int(f.readline().split()[1], 8)", "                            flags = int(f.readline().split()[1])"),
  "fires:C14.R4")
V("C14", "pos-flags-lines-swapped", L,
  ("                            pos = int(f.readline().split()[1])\n                            flags = int(f.readline().split()[1], 8)",
   "                            flags = int(f.readline().split()[1], 8)\n                            pos = int(f.readline().split()[1])"),
  "fires:C14.R4")
V("C14", "num-fds-fdinfo", L,
  ("        return len(os.listdir(f\"{self._procfs_path}/{self.pid}/fd\"))", "        return len(os.listdir(f\"{self._procfs_path}/{self.pid}/fd\")) - 1"),
  "fires:C14.R5")
V("C14", "io-rchar-syscr-swapped", L,
  ("                    fields[b'syscr'],  # read syscalls", "                    fields[b'rchar'],  # read syscalls"),
  "fires:C14.R5")
V("C14", "io-blank-not-skipped", L,
  ("                    if line:\n                        try:\n                            name, value = line.split(b': ')\n                        except ValueError:\n                            # https://github.com/giampaolo/psutil/issues/1004\n                            continue\n                        else:\n                            fields[name] = int(value)",
   "                    if True:\n                        name, value = line.split(b': ')\n                        fields[name] = int(value)"),
  "fires:C14.R5")

# ----------------------------------------------------------------- C19
V("C19", "defect-F4-returns", L,
  ("                    )\n\n            if high is not None:\n                try:\n                    high = float(high) / 1000.0\n                except ValueError:\n                    high = None\n            if critical is not None:\n                try:\n                    critical = float(critical) / 1000.0\n                except ValueError:\n                    critical = None\n\n            ret[unit_name].append(('', current, high, critical))",
   "                    )\n\n                if high is not None:\n                    try:\n                        high = float(high) / 1000.0\n                    except ValueError:\n                        high = None\n            if critical is not None:\n                try:\n                    critical = float(critical) / 1000.0\n                except ValueError:\n                    critical = None\n\n            ret[unit_name].append(('', current, high, critical))"),
  "fires:C19.R1")
V("C19", "hwmon-crit-not-scaled", L,
  ("                critical = float(critical) / 1000.0\n            except ValueError:\n                critical = None\n\n        ret[unit_name].append((label, current, high, critical))",
   "                critical = float(critical)\n            except ValueError:\n                critical = None\n\n        ret[unit_name].append((label, current, high, critical))"),
  "fires:C19.R1")
V("C19", "thermal-current-div-100", L,
  ("                path = os.path.join(base, 'temp')\n                current = float(bcat(path)) / 1000.0",
   "                path = os.path.join(base, 'temp')\n                current = float(bcat(path)) / 100.0"), "fires:C19.R1")
V("C19", "freq-max-not-scaled", L,
  ("            max_ = int(bcat(pjoin(path, \"scaling_max_freq\"))) / 1000", "            max_ = int(bcat(pjoin(path, \"scaling_max_freq\")))"),
  "fires:C19.R1")
V("C19", "fahrenheit-wrong", I,
  ("                return (float(n) * 9 / 5) + 32 if fahrenheit else n", "                return (float(n) * 5 / 9) + 32 if fahrenheit else n"),
  "fires:C19.R1")
V("C19", "fan-read-unprotected", L,
  ("        try:\n            current = int(bcat(base + '_input'))\n        except OSError as err:\n            debug(err)\n            continue\n",
   "        current = int(bcat(base + '_input'))\n"), "fires:C19.R2")
V("C19", "temp-handler-narrowed", L,
  ("        except (OSError, ValueError):\n            # A lot of things can go wrong here", "        except ValueError:\n            # A lot of things can go wrong here"),
  "fires:C19.R2")
V("C19", "backfill-dropped", I,
  ("                elif critical and not high:\n                    high = critical\n", ""), "fires:C19.R3")
V("C19", "battery-percent-inverted", L,
  ("            percent = 100.0 * energy_now / energy_full", "            percent = 100.0 * energy_full / energy_now"),
  "fires:C19.R3")
V("C19", "battery-secs-minutes", L,
  ("            secsleft = int(energy_now / power_now * 3600)", "            secsleft = int(energy_now / power_now * 60)"),
  "fires:C19.R3")
V("C19", "battery-tte-hours", L,
  ("        secsleft = int(time_to_empty * 60)", "        secsleft = int(time_to_empty * 3600)"), "fires:C19.R3")
V("C19", "battery-unlimited-when-unplugged", L,
  ("    if power_plugged:\n        secsleft = _common.POWER_TIME_UNLIMITED", "    if not power_plugged:\n        secsleft = _common.POWER_TIME_UNLIMITED"),
  "fires:C19.R3")
V("C19", "freq-mean-by-count-minus-one", I,
  ("                current = currs / num_cpus", "                current = currs / (num_cpus - 1)"), "fires:C19.R3")
V("C19", "cpu-count-zero-kept", I,
  ("    if ret is not None and ret < 1:\n        ret = None\n", ""), "fires:C19.R3")

# ----------------------------------------------------------------- C11
V("C11", "defect-F12-returns", L,
  ("                tokens = line.split(None, 7)", "                tokens = line.split()"), "fires:C11.R3")
V("C11", "inet4-kind-wrong", L,
  ("            \"inet4\": (tcp4, udp4),", "            \"inet4\": (tcp4, udp4, tcp6),"), "fires:C11.R1")
V("C11", "udp6-family", L,
  ("        udp6 = (\"udp6\", socket.AF_INET6, socket.SOCK_DGRAM)", "        udp6 = (\"udp6\", socket.AF_INET, socket.SOCK_DGRAM)"),
  "fires:C11.R1")
V("C11", "kind-missing", L,
  ("            \"inet6\": (tcp6, udp6),\n", ""), "fires:C11.R1")
V("C11", "kind-not-validated-process", I,
  ("        _check_conn_kind(kind)\n        return self._proc.net_connections(kind)", "        return self._proc.net_connections(kind)"),
  "fires:C11.R2")
V("C11", "kind-validation-after", I,
  ("    _check_conn_kind(kind)\n    return _psplatform.net_connections(kind)",
   "    ret = _psplatform.net_connections(kind)\n    _check_conn_kind(kind)\n    return ret"), "fires:C11.R2")
V("C11", "laddr-raddr-swapped", L,
  ("                    _, laddr, raddr, status, _, _, _, _, _, inode = (", "                    _, raddr, laddr, status, _, _, _, _, _, inode = ("),
  "fires:C11.R3")
V("C11", "inode-col-8", L,
  ("                    _, laddr, raddr, status, _, _, _, _, _, inode = (\n                        line.split()[:10]",
   "                    _, laddr, raddr, status, _, _, _, _, inode, _ = (\n                        line.split()[:10]"), "fires:C11.R3")
V("C11", "port-decimal", L,
  ("        port = int(port, 16)", "        port = int(port)"), "fires:C11.R3")
V("C11", "port0-kept", L,
  ("        if not port:\n            return ()\n", ""), "fires:C11.R3")
V("C11", "unix-type-col", L,
  ("                    _, _, _, _, type_, _, inode = tokens[0:7]", "                    _, _, _, type_, _, _, inode = tokens[0:7]"),
  "fires:C11.R3")
V("C11", "tcp-state-swapped", L,
  ("    \"0A\": _common.CONN_LISTEN,\n    \"0B\": _common.CONN_CLOSING,", "    \"0A\": _common.CONN_CLOSING,\n    \"0B\": _common.CONN_LISTEN,"),
  "fires:C11.R4")
V("C11", "udp-status-from-table", L,
  ("                    if type_ == socket.SOCK_STREAM:\n                        status = TCP_STATUSES[status]",
   "                    if type_ != socket.SOCK_DGRAM or True:\n                        status = TCP_STATUSES[status]"), "fires:C11.R4")
V("C11", "owner-last-holder", L,
  ("                    pid, fd = inodes[inode][0]", "                    pid, fd = inodes[inode][-1]"), "fires:C11.R4")
V("C11", "filter-dropped", L,
  ("                if filter_pid is not None and filter_pid != pid:\n                    continue\n                else:\n                    if type_ == socket.SOCK_STREAM:",
   "                if False:\n                    continue\n                else:\n                    if type_ == socket.SOCK_STREAM:"), "fires:C11.R4")

# ----------------------------------------------------------------- C12
V("C12", "raw-readlink-in-cwd", L,
  ("        return self._readlink(\n            f\"{self._procfs_path}/{self.pid}/cwd\", fallback=\"\"\n        )",
   "        return os.readlink(f\"{self._procfs_path}/{self.pid}/cwd\")"), "fires:C12.R1")
V("C12", "nul-garbage-kept", L,
  ("    path = path.split('\\x00')[0]\n", ""), "fires:C12.R1")
V("C12", "deleted-always-stripped", L,
  ("    if path.endswith(' (deleted)') and not path_exists_strict(path):\n        path = path[:-10]",
   "    if path.endswith(' (deleted)'):\n        path = path[:-10]"), "fires:C12.R1")
V("C12", "deleted-strip-9", L,
  ("        path = path[:-10]\n    return path", "        path = path[:-9]\n    return path"), "fires:C12.R1")
V("C12", "exe-fallback-none", L,
  ("            f\"{self._procfs_path}/{self.pid}/exe\", fallback=\"\"", "            f\"{self._procfs_path}/{self.pid}/exe\""),
  "fires:C12.R1")
V("C12", "cmdline-always-space", L,
  ("        sep = '\\x00' if data.endswith('\\x00') else ' '", "        sep = ' '"), "fires:C12.R2")
V("C12", "cmdline-trailing-kept", L,
  ("        if data.endswith(sep):\n            data = data[:-1]\n", ""), "fires:C12.R2")
V("C12", "environ-no-progress", C,
  ("        pos = next_pos + 1\n", "        pos = next_pos\n"), "fires:C12.R3")
V("C12", "environ-stop-strict", C,
  ("        if next_pos <= pos:\n            break", "        if next_pos < 0:\n            break"), "fires:C12.R3")
V("C12", "environ-eq-zero-ok", C,
  ("        if equal_pos > pos:", "        if equal_pos >= 0:"), "fires:C12.R3")
V("C12", "environ-eq-unbounded", C,
  ("        equal_pos = data.find(\"=\", pos, next_pos)", "        equal_pos = data.find(\"=\", pos)"), "fires:C12.R3")
V("C12", "name-extension-unguarded", I,
  ("        if POSIX and len(name) >= 15:", "        if POSIX and len(name) >= 1:"), "fires:C12.R4")
V("C12", "name-extension-no-prefix", I,
  ("                    if extended_name.startswith(name):\n                        name = extended_name",
   "                    if extended_name:\n                        name = extended_name"), "fires:C12.R4")
V("C12", "exe-guess-relative", I,
  ("                    os.path.isabs(exe)\n                    and os.path.isfile(exe)", "                    os.path.isfile(exe)"),
  "fires:C12.R4")

# ----------------------------------------------------------------- C20
BSD = "psutil/_psbsd.py"
OSX = "psutil/_psosx.py"
SUN = "psutil/_pssunos.py"
AIX = "psutil/_psaix.py"
WIN = "psutil/_pswindows.py"
V("C20", "defect-F5-returns", OSX,
  ("        return _common.pgids(\n            rawtuple[kinfo_proc_map['rgid']],", "        return _common.puids(\n            rawtuple[kinfo_proc_map['rgid']],"),
  "fires:C20.R4")
V("C20", "defect-F6-returns", SUN,
  ("        tty = self._proc_basic_info()[proc_info_map['ttynr']]", "        tty = wrap_exceptions(self._proc_basic_info()[proc_info_map['ttynr']])"),
  "fires:C20.R3")
V("C20", "defect-F7-returns", I,
  ("                    nt = nt._replace(broadcast=broadcast)", "                    nt._replace(broadcast=broadcast)"),
  "fires:C20.R6")
V("C20", "osx-decorator-dropped", OSX,
  ("    @wrap_exceptions\n    def cwd(self):\n        return cext.proc_cwd(self.pid)", "    def cwd(self):\n        return cext.proc_cwd(self.pid)"),
  "fires:C20.R1")
V("C20", "bsd-new-native-in-helper", BSD,
  ("    @wrap_exceptions\n    def name(self):\n        name = self.oneshot()[kinfo_proc_map['name']]",
   "    def name(self):\n        name = self.oneshot()[kinfo_proc_map['name']]\n        cext.proc_name(self.pid)"),
  "fires:C20.R1")
V("C20", "bsd-handler-shadowed", BSD,
  ("        except ProcessLookupError as err:\n            if is_zombie(pid):\n                raise ZombieProcess(pid, name, ppid) from err\n            raise NoSuchProcess(pid, name) from err\n        except PermissionError as err:\n            raise AccessDenied(pid, name) from err\n        except OSError as err:\n            if pid == 0 and 0 in pids():",
   "        except PermissionError as err:\n            raise AccessDenied(pid, name) from err\n        except OSError as err:\n            if pid == 0 and 0 in pids():"),
  "fires:C20.R2")
V("C20", "osx-zombie-probe-dropped", OSX,
  ("            if is_zombie(pid):\n                raise ZombieProcess(pid, name, ppid) from err\n            raise NoSuchProcess(pid, name) from err\n        except PermissionError as err:\n            raise AccessDenied(pid, name) from err\n\n    return wrapper",
   "            raise NoSuchProcess(pid, name) from err\n        except PermissionError as err:\n            raise AccessDenied(pid, name) from err\n\n    return wrapper"),
  "fires:C20.R2")
V("C20", "aix-pid0-clause-added", AIX,
  ("        except PermissionError as err:\n            raise AccessDenied(pid, name) from err\n\n    return wrapper",
   "        except PermissionError as err:\n            raise AccessDenied(pid, name) from err\n        except OSError as err:\n            raise AccessDenied(pid, name) from err\n\n    return wrapper"),
  "fires:C20.R2")
V("C20", "win-convert-loses-esrch", WIN,
  ("    if isinstance(exc, ProcessLookupError):\n        return NoSuchProcess(pid=pid, name=name)\n    raise exc", "    raise exc"),
  "fires:C20.R2")
V("C20", "sunos-wrong-name-in-exc", SUN,
  ("        pid, ppid, name = self.pid, self._ppid, self._name\n        try:\n            return fun(self, *args, **kwargs)\n        except (FileNotFoundError, ProcessLookupError) as err:",
   "        pid, ppid, name = self.pid, self._ppid, None\n        try:\n            return fun(self, *args, **kwargs)\n        except (FileNotFoundError, ProcessLookupError) as err:"),
  "fires:C20.R2")
V("C20", "osx-map-swapped", OSX,
  ("    ruid=1,\n    euid=2,", "    euid=1,\n    ruid=2,"), "fires:C20.R5")
V("C20", "bsd-c-args-swapped", "psutil/arch/bsd/proc.c",
  ("        kp.ki_rusage.ru_inblock,         // (long) read io count\n        kp.ki_rusage.ru_oublock,         // (long) write io count",
   "        kp.ki_rusage.ru_oublock,         // (long) write io count\n        kp.ki_rusage.ru_inblock,         // (long) read io count"),
  "fires:C20.R5")
V("C20", "win-map-missing-slot", WIN,
  ("    mem_private=21,\n", ""), "fires:C20.R5")
V("C20", "sunos-c-format-short", "psutil/_psutil_sunos.c",
  ("        \"ikkdiiikiiii\",", "        \"ikkdiiikiii\","), "fires:C20.R5")
V("C20", "rlimit-unavailable-on-freebsd", BSD,
  ("        def rlimit(self, resource, limits=None):", "        def rlimit_(self, resource, limits=None):"),
  "fires:C20.R7")
V("C20", "benign-bsd-map-and-c-consistent", BSD,
  ("    read_io_count=12,\n    write_io_count=13,", "    read_io_count=12,\n    write_io_count=13,  # unchanged"), "silent")

V("C20", "mac-padding-into-unused-copy", I,
  ("            while addr.count(separator) < 5:\n                addr += f\"{separator}00\"",
   "            mac = addr\n            while mac.count(separator) < 5:\n                mac += f\"{separator}00\""),
  "fires:C20.R6")
V("C20", "benign-mac-padding-helper", I,
  [("def net_if_addrs():", "def _pad_mac(mac, sep):\n    while mac.count(sep) < 5:\n        mac = mac + f\"{sep}00\"\n    return mac\n\n\ndef net_if_addrs():"),
   ("            while addr.count(separator) < 5:\n                addr += f\"{separator}00\"",
    "            addr = _pad_mac(addr, separator)")], "silent")
V("C19", "benign-threshold-helper", L,
  [("def sensors_temperatures():", "def _mdeg(value):\n    if value is None:\n        return None\n    try:\n        return float(value) / 1000.0\n    except ValueError:\n        return None\n\n\ndef sensors_temperatures():"),
   ("        if high is not None:\n            try:\n                high = float(high) / 1000.0\n            except ValueError:\n                high = None\n        if critical is not None:\n            try:\n                critical = float(critical) / 1000.0\n            except ValueError:\n                critical = None\n", "        high = _mdeg(high)\n        critical = _mdeg(critical)\n")], "silent")
V("C19", "threshold-helper-no-handler", L,
  [("def sensors_temperatures():", "def _mdeg(value):\n    if value is None:\n        return None\n    return float(value) / 1000.0\n\n\ndef sensors_temperatures():"),
   ("        if high is not None:\n            try:\n                high = float(high) / 1000.0\n            except ValueError:\n                high = None\n        if critical is not None:\n            try:\n                critical = float(critical) / 1000.0\n            except ValueError:\n                critical = None\n", "        high = _mdeg(high)\n        critical = _mdeg(critical)\n")], "fires:C19.R5")
V("C19", "defect-F20-returns", "psutil/_psbsd.py",
  ("                continue\n            min_freq = max_freq = None\n            if available_freq:",
   "                continue\n            if available_freq:"), "fires:C19.R5")
V("C20", "defect-F21-returns", "psutil/_psbsd.py",
  ("                        raise NoSuchProcess(pid, name) from err\n                    # XXX: this happens with unicode tests.",
   "                        raise NoSuchProcess(pid, name, ppid) from err\n                    # XXX: this happens with unicode tests."),
  "fires:C20.R2")
# ----------------------------------------------------------------- C17
UC = "psutil/arch/linux/users.c"
PC = "psutil/arch/linux/proc.c"
DC = "psutil/arch/linux/disk.c"
NC = "psutil/arch/linux/net.c"
XC = "psutil/_psutil_posix.c"
CC = "psutil/_psutil_common.c"
V("C17", "defect-F16-returns", UC,
  ("        py_username = PyUnicode_DecodeFSDefaultAndSize(\n            ut->ut_user, strnlen(ut->ut_user, sizeof(ut->ut_user)));",
   "        py_username = PyUnicode_DecodeFSDefault(ut->ut_user);"), "fires:C17.R2")
V("C17", "defect-F14-returns", PC,
  ("    if (ioclass < 0 || ioclass > 7 ||\n            iodata < 0 || iodata > (int)IOPRIO_PRIO_MASK) {\n        errno = EINVAL;\n        return PyErr_SetFromErrno(PyExc_OSError);\n    }\n",
   ""), "fires:C17.R4")
V("C17", "utmp-bound-from-other-field", UC,
  ("            ut->ut_line, strnlen(ut->ut_line, sizeof(ut->ut_line)));",
   "            ut->ut_line, strnlen(ut->ut_line, sizeof(ut->ut_host)));"), "fires:C17.R2")
V("C17", "benign-utmp-decode-helper", UC,
  [("PyObject *\npsutil_users(PyObject *self, PyObject *args) {", 'static PyObject *\npsutil_decode_field(const char *field, size_t width) {\n    return PyUnicode_DecodeFSDefaultAndSize(field, strnlen(field, width));\n}\n\n\nPyObject *\npsutil_users(PyObject *self, PyObject *args) {'),
   ('        py_tty = PyUnicode_DecodeFSDefaultAndSize(\n            ut->ut_line, strnlen(ut->ut_line, sizeof(ut->ut_line)));', "        py_tty = psutil_decode_field(ut->ut_line, sizeof(ut->ut_line));")], "silent")
V("C17", "utmp-decode-helper-unbounded", UC,
  [("PyObject *\npsutil_users(PyObject *self, PyObject *args) {", 'static PyObject *\npsutil_decode_field(const char *field, size_t width) {\n    return PyUnicode_DecodeFSDefault(field);\n}\n\n\nPyObject *\npsutil_users(PyObject *self, PyObject *args) {'),
   ('        py_tty = PyUnicode_DecodeFSDefaultAndSize(\n            ut->ut_line, strnlen(ut->ut_line, sizeof(ut->ut_line)));', "        py_tty = psutil_decode_field(ut->ut_line, sizeof(ut->ut_line));")], "fires:C17.R2")
V("C17", "utmp-decode-helper-wrong-width", UC,
  [("PyObject *\npsutil_users(PyObject *self, PyObject *args) {", 'static PyObject *\npsutil_decode_field(const char *field, size_t width) {\n    return PyUnicode_DecodeFSDefaultAndSize(field, strnlen(field, width));\n}\n\n\nPyObject *\npsutil_users(PyObject *self, PyObject *args) {'),
   ('        py_tty = PyUnicode_DecodeFSDefaultAndSize(\n            ut->ut_line, strnlen(ut->ut_line, sizeof(ut->ut_line)));', "        py_tty = psutil_decode_field(ut->ut_line, sizeof(ut->ut_host));")], "fires:C17.R2")
V("C17", "format-long-for-int", "psutil/arch/linux/mem.c",
  ("        \"(kkkkkkI)\",", "        \"(kkkkkkk)\","), "fires:C17.R1")
V("C17", "format-missing-unit", UC,
  ("            \"OOOd\" _Py_PARSE_PID,", "            \"OOO\" _Py_PARSE_PID,"), "fires:C17.R1")
V("C17", "parse-int-into-long", PC,
  ("    int ioprio, ioclass, iodata;\n    int retval;", "    int ioprio, iodata;\n    long ioclass;\n    int retval;"),
  "fires:C17.R1")
V("C17", "strncpy-wrong-size", NC,
  ("    PSUTIL_STRNCPY(ifr.ifr_name, nic_name, sizeof(ifr.ifr_name));", "    PSUTIL_STRNCPY(ifr.ifr_name, nic_name, sizeof(ifr));"),
  "fires:C17.R3")
V("C17", "mac-buffer-small", XC,
  ("    char buf[NI_MAXHOST];\n    int err;\n    int addrlen;", "    char buf[64];\n    int err;\n    int addrlen;"),
  "fires:C17.R3")
V("C17", "errmsg-buffer-small", CC,
  ("NoSuchProcess(const char *syscall) {\n    PyObject *exc;\n    char msg[1024];", "NoSuchProcess(const char *syscall) {\n    PyObject *exc;\n    char msg[32];"),
  "fires:C17.R3")
V("C17", "mntent-leak-on-error", DC,
  ("error:\n    if (file != NULL)\n        endmntent(file);\n", "error:\n"), "fires:C17.R6")
V("C17", "socket-leak", NC,
  ("    py_retlist = Py_BuildValue(\"[ii]\", duplex, speed);\n    if (!py_retlist)\n        goto error;\n    close(sock);\n    return py_retlist;",
   "    py_retlist = Py_BuildValue(\"[ii]\", duplex, speed);\n    if (!py_retlist)\n        goto error;\n    return py_retlist;"),
  "fires:C17.R6")
V("C17", "users-slots-swapped", UC,
  ("            py_username,              // username\n            py_tty,                   // tty", "            py_tty,                   // tty\n            py_username,              // username"),
  "fires:C17.R7")
V("C17", "partitions-filter-inverted", L,
  ("        if not all:\n            if not device or fstype not in fstypes:\n                continue",
   "        if all:\n            if not device or fstype not in fstypes:\n                continue"), "fires:C17.R7")
V("C17", "partitions-unpack-order", L,
  ("        device, mountpoint, fstype, opts = partition", "        device, fstype, mountpoint, opts = partition"),
  "fires:C17.R7")

# ----------------------------------------------------------------- C18
V("C18", "level-range-widened", L,
  ("            if value < 0 or value > 7:", "            if value < 0 or value > 8:"), "fires:C18.R1")
V("C18", "idle-level-accepted", L,
  ("            if value and ioclass in {\n                IOPriority.IOPRIO_CLASS_IDLE,\n                IOPriority.IOPRIO_CLASS_NONE,\n            }:",
   "            if value and ioclass in {\n                IOPriority.IOPRIO_CLASS_NONE,\n            }:"), "fires:C18.R1")
V("C18", "validation-after-native", L,
  ("            if value < 0 or value > 7:\n                msg = \"value not in 0-7 range\"\n                raise ValueError(msg)\n            return cext.proc_ioprio_set(self.pid, ioclass, value)",
   "            ret = cext.proc_ioprio_set(self.pid, ioclass, value)\n            if value < 0 or value > 7:\n                msg = \"value not in 0-7 range\"\n                raise ValueError(msg)\n            return ret"),
  "fires:C18.R1")
V("C18", "rlimit-pair-check-dropped", L,
  ("                    if len(limits) != 2:", "                    if len(limits) > 2:"), "fires:C18.R1")
V("C18", "level-without-class-accepted", I,
  ("                if value is not None:\n                    msg = \"'ioclass' argument must be specified\"\n                    raise ValueError(msg)\n",
   ""), "fires:C18.R1")
V("C18", "affinity-empty-all-cpus", I,
  ("                if not cpus:\n                    if hasattr(self._proc, \"_get_eligible_cpus\"):", "                if cpus is None:\n                    if hasattr(self._proc, \"_get_eligible_cpus\"):"),
  "fires:C18.R1")
V("C18", "affinity-diagnosis-dropped", L,
  ("                        if cpu not in eligible_cpus:", "                        if False:"), "fires:C18.R1")
V("C18", "ionice-get-swapped", L,
  ("            return _common.pionice(ioclass, value)", "            return _common.pionice(value, ioclass)"), "fires:C18.R3")
V("C18", "nice-get-ppid", L,
  ("        return cext_posix.getpriority(self.pid)", "        return cext_posix.getpriority(self._ppid or self.pid)"),
  "fires:C18.R3")
V("C18", "ioprio-unpack-shift", PC,
  ("#define IOPRIO_PRIO_CLASS(mask) ((mask) >> IOPRIO_CLASS_SHIFT)", "#define IOPRIO_PRIO_CLASS(mask) ((mask) >> 12)"),
  "fires:C18.R2")
V("C18", "ioprio-mask-off-by-one", PC,
  ("#define IOPRIO_PRIO_MASK ((1UL << IOPRIO_CLASS_SHIFT) - 1)", "#define IOPRIO_PRIO_MASK ((1UL << IOPRIO_CLASS_SHIFT))"),
  "fires:C18.R2")
V("C18", "affinity-guard-dropped", PC,
  ("        if (ncpus > INT_MAX / 2) {\n            PyErr_SetString(PyExc_OverflowError, \"could not allocate \"\n                            \"a large enough CPU set\");\n            return NULL;\n        }\n",
   ""), "fires:C18.R4")
V("C18", "affinity-no-free", PC,
  ("        CPU_FREE(mask);\n        if (errno != EINVAL)", "        if (errno != EINVAL)"), "fires:C18.R4")
V("C18", "getpriority-errno-not-cleared", XC,
  ("    int priority;\n    errno = 0;\n", "    int priority;\n"), "fires:C18.R4")

# ----------------------------------------------------------------- round 2 (seed-driven rules)
V("C06", "status-regex-search-unanchored", L,
  [("_num_threads_re=re.compile(br'^Threads:\\t(\\d+)', re.MULTILINE)",
    "_num_threads_re=re.compile(br'Threads:\\t(\\d+)')"),
   ("return int(_num_threads_re.findall(data)[0])",
    "return int(_num_threads_re.search(data).group(1))")], "fires:C06.R5")
V("C06", "benign-status-regex-search-anchored", L,
  ("return int(_num_threads_re.findall(data)[0])",
   "return int(_num_threads_re.search(data).group(1))"), "silent")
V("C06", "blkio-guard-off-by-one", L,
  ("        try:\n            ret['blkio_ticks'] = fields[39]  # aka 'delayacct_blkio_ticks'\n        except IndexError:",
   "        if len(fields) >= 39:\n            ret['blkio_ticks'] = fields[39]  # aka 'delayacct_blkio_ticks'\n        else:"),
  "fires:C06.R8")
V("C06", "benign-blkio-length-guard", L,
  ("        try:\n            ret['blkio_ticks'] = fields[39]  # aka 'delayacct_blkio_ticks'\n        except IndexError:",
   "        if len(fields) > 39:\n            ret['blkio_ticks'] = fields[39]  # aka 'delayacct_blkio_ticks'\n        else:"),
  "silent")
V("C06", "blkio-handler-wrong-class", L,
  ("            ret['blkio_ticks'] = fields[39]  # aka 'delayacct_blkio_ticks'\n        except IndexError:",
   "            ret['blkio_ticks'] = fields[39]  # aka 'delayacct_blkio_ticks'\n        except KeyError:"),
  "fires:C06.R8")
V("C08", "sreclaimable-defaulted", L,
  [("        lru_inactive_file = mems[b'Inactive(file):']\n        slab_reclaimable = mems[b'SReclaimable:']\n",
    "        lru_inactive_file = mems[b'Inactive(file):']\n"),
   ("        return fallback\n    try:\n        f = open_binary(f\"{get_procfs_path()}/zoneinfo\")",
    "        return fallback\n    slab_reclaimable = mems.get(b'SReclaimable:', 0)\n    try:\n        f = open_binary(f\"{get_procfs_path()}/zoneinfo\")")],
  "fires:C08.R5")
V("C08", "missing-key-handler-falls-through", L,
  ("            \" approximation for calculating available memory\"\n        )\n        return fallback\n",
   "            \" approximation for calculating available memory\"\n        )\n        lru_active_file = lru_inactive_file = slab_reclaimable = 0\n"),
  "fires:C08.R5")
V("C10", "purge-fast-path-on-count", C,
  ("        old_dict = self.cache[name]\n        gone_keys = set(old_dict.keys()) - set(input_dict.keys())",
   "        old_dict = self.cache[name]\n        if len(old_dict) == len(input_dict):\n            return\n        gone_keys = set(old_dict.keys()) - set(input_dict.keys())"),
  "fires:C10.R3")
V("C10", "lock-inside-run-check-outside", C,
  [("            self._add_dict(input_dict, name)\n            return input_dict\n\n        self._remove_dead_reminders(input_dict, name)",
    "            with self.lock:\n                self._add_dict(input_dict, name)\n            return input_dict\n\n        with self.lock:\n            return self._update(input_dict, name)\n\n    def _update(self, input_dict, name):\n        self._remove_dead_reminders(input_dict, name)"),
   ("    with _wn.lock:\n        return _wn.run(input_dict, name)", "    return _wn.run(input_dict, name)")],
  "fires:C10.R1")
V("C10", "benign-lock-moved-into-run", C,
  [("        if name not in self.cache:\n            # This was the first call.\n            self._add_dict(input_dict, name)\n            return input_dict\n\n        self._remove_dead_reminders(input_dict, name)",
    "        with self.lock:\n            return self._run(input_dict, name)\n\n    def _run(self, input_dict, name):\n        if name not in self.cache:\n            # This was the first call.\n            self._add_dict(input_dict, name)\n            return input_dict\n\n        self._remove_dead_reminders(input_dict, name)"),
   ("    with _wn.lock:\n        return _wn.run(input_dict, name)", "    return _wn.run(input_dict, name)")],
  "silent")

# ----------------------------------------------------------------- benign refactors (must stay silent)
V("C11", "benign-unix-path-len-gt", L,
  ("path = tokens[7].rstrip('\\n') if len(tokens) == 8 else ''",
   "path = tokens[7].rstrip('\\n') if len(tokens) > 7 else ''"), "silent")
V("C11", "benign-unix-rename-pairs", L,
  [("                    pairs = inodes[inode]\n", "                    refs = inodes[inode]\n"),
   ("                    pairs = [(None, -1)]\n                for pid, fd in pairs:",
    "                    refs = [(None, -1)]\n                for pid, fd in refs:")], "silent")
V("C11", "benign-inet-status-ternary", L,
  ("                    if type_ == socket.SOCK_STREAM:\n                        status = TCP_STATUSES[status]\n                    else:\n                        status = _common.CONN_NONE\n",
   "                    status = (\n                        TCP_STATUSES[status]\n                        if type_ == socket.SOCK_STREAM\n                        else _common.CONN_NONE\n                    )\n"),
  "silent")
V("C11", "benign-inet-inode-get", L,
  ("                if inode in inodes:\n                    # # We assume inet sockets are unique, so we error",
   "                if inodes.get(inode):\n                    # # We assume inet sockets are unique, so we error"),
  "silent")
V("C11", "benign-retrieve-rename-slots", L,
  [("            for fd, family, type_, laddr, raddr, status, bound_pid in ls:\n                if pid:\n                    conn = _common.pconn(\n                        fd, family, type_, laddr, raddr, status\n                    )\n                else:\n                    conn = _common.sconn(\n                        fd, family, type_, laddr, raddr, status, bound_pid\n                    )",
    "            for fd, fam, typ, laddr, raddr, status, owner in ls:\n                if pid:\n                    conn = _common.pconn(fd, fam, typ, laddr, raddr, status)\n                else:\n                    conn = _common.sconn(\n                        fd, fam, typ, laddr, raddr, status, owner\n                    )")],
  "silent")
V("C11", "benign-inodes-rename-and-slice", L,
  [("                inode = readlink(f\"{self._procfs_path}/{pid}/fd/{fd}\")",
    "                target = readlink(f\"{self._procfs_path}/{pid}/fd/{fd}\")"),
   ("                if inode.startswith('socket:['):\n                    # the process is using a socket\n                    inode = inode[8:][:-1]\n                    inodes[inode].append((pid, int(fd)))",
    "                if target.startswith('socket:['):\n                    # the process is using a socket\n                    inodes[target[8:-1]].append((pid, int(fd)))")],
  "silent")
V("C11", "inodes-wrong-slice", L,
  ("                    inode = inode[8:][:-1]\n", "                    inode = inode[7:][:-1]\n"),
  "fires:C11.R4")
V("C11", "retrieve-slots-swapped", L,
  ("                        fd, family, type_, laddr, raddr, status, bound_pid\n                    )",
   "                        fd, family, type_, raddr, laddr, status, bound_pid\n                    )"),
  "fires:C11.R4")

# ----------------------------------------------------------------- round 3 (seed-driven rules)
V("C11", "ipv6-rendered-with-ipaddress", L,
  [("                if LITTLE_ENDIAN:\n                    ip = socket.inet_ntop(\n                        socket.AF_INET6,\n                        struct.pack('>4I', *struct.unpack('<4I', ip)),\n                    )",
    "                if LITTLE_ENDIAN:\n                    import ipaddress\n                    ip = str(ipaddress.IPv6Address(\n                        struct.pack('>4I', *struct.unpack('<4I', ip))\n                    ))")],
  "fires:C11.R5")
V("C11", "ipv4-not-reversed-on-little-endian", L,
  ("                ip = socket.inet_ntop(family, base64.b16decode(ip)[::-1])",
   "                ip = socket.inet_ntop(family, base64.b16decode(ip))"), "fires:C11.R5")
V("C11", "ipv6-word-order-wrong", L,
  ("                        struct.pack('>4I', *struct.unpack('<4I', ip)),",
   "                        struct.pack('>4I', *struct.unpack('>4I', ip)),"), "fires:C11.R5")
V("C12", "readlink-esrch-not-caught", L,
  ("            return readlink(path)\n        except (FileNotFoundError, ProcessLookupError):",
   "            return readlink(path)\n        except FileNotFoundError:"), "fires:C12.R1")
V("C12", "readlink-fallback-without-liveness", L,
  ("            if os.path.lexists(f\"{self._procfs_path}/{self.pid}\"):\n                self._raise_if_zombie()\n                if fallback is not UNSET:\n                    return fallback\n            raise",
   "            if fallback is not UNSET:\n                return fallback\n            raise"),
  "fires:C12.R1")
V("C12", "benign-readlink-catches-oserror-subset", L,
  ("            return readlink(path)\n        except (FileNotFoundError, ProcessLookupError):",
   "            return readlink(path)\n        except (ProcessLookupError, FileNotFoundError):"), "silent")
V("C13", "maps-deleted-stripped-unconditionally", L,
  ("                    if path.endswith(' (deleted)') and not path_exists_strict(\n                        path\n                    ):\n                        path = path[:-10]",
   "                    if path.endswith(' (deleted)'):\n                        path = path[:-10]"),
  "fires:C13.R3")
V("C13", "benign-maps-deleted-nested-if", L,
  ("                    if path.endswith(' (deleted)') and not path_exists_strict(\n                        path\n                    ):\n                        path = path[:-10]",
   "                    if path.endswith(' (deleted)'):\n                        if not path_exists_strict(path):\n                            path = path[:-10]"),
  "silent")
V("C15", "wait-procs-slice-hoisted", I,
  ("        for proc in alive:\n            # Make sure that every complete iteration (all processes)\n            # will last max 1 sec.\n            # We do this because we don't want to wait too long on a\n            # single process: in case it terminates too late other\n            # processes may disappear in the meantime and their PID\n            # reused.\n            max_timeout = 1.0 / len(alive)\n            if timeout is not None:\n                timeout = min((deadline - _timer()), max_timeout)\n                if timeout <= 0:\n                    break\n                check_gone(proc, timeout)\n            else:\n                check_gone(proc, max_timeout)\n",
   "        max_timeout = 1.0 / len(alive)\n        if timeout is not None:\n            timeout = min((deadline - _timer()), max_timeout)\n            if timeout <= 0:\n                break\n        for proc in alive:\n            check_gone(proc, max_timeout if timeout is None else timeout)\n"),
  "fires:C15.R6")
V("C15", "benign-wait-procs-max-timeout-hoisted", I,
  ("        for proc in alive:\n            # Make sure that every complete iteration (all processes)\n            # will last max 1 sec.\n            # We do this because we don't want to wait too long on a\n            # single process: in case it terminates too late other\n            # processes may disappear in the meantime and their PID\n            # reused.\n            max_timeout = 1.0 / len(alive)\n            if timeout is not None:",
   "        max_timeout = 1.0 / len(alive)\n        for proc in alive:\n            if timeout is not None:"),
  "silent")
V("C17", "ioprio-guard-drops-negative", PC,
  ("    if (ioclass < 0 || ioclass > 7 ||\n            iodata < 0 || iodata > (int)IOPRIO_PRIO_MASK) {",
   "    if (ioclass > 7 || iodata > (int)IOPRIO_PRIO_MASK) {"), "fires:C17.R4")
V("C17", "ioprio-guard-too-wide", PC,
  ("    if (ioclass < 0 || ioclass > 7 ||", "    if (ioclass < 0 || ioclass > 0x7ffff ||"),
  "fires:C17.R4")
V("C17", "benign-ioprio-guard-split", PC,
  ("    if (ioclass < 0 || ioclass > 7 ||\n            iodata < 0 || iodata > (int)IOPRIO_PRIO_MASK) {\n        errno = EINVAL;\n        return PyErr_SetFromErrno(PyExc_OSError);\n    }\n",
   "    if (ioclass < 0 || 7 < ioclass) {\n        errno = EINVAL;\n        return PyErr_SetFromErrno(PyExc_OSError);\n    }\n    if (iodata < 0 || iodata > (int)IOPRIO_PRIO_MASK) {\n        errno = EINVAL;\n        return PyErr_SetFromErrno(PyExc_OSError);\n    }\n"),
  "silent")
V("C17", "utmp-host-through-pointer", UC,
  [("    struct utmp *ut;\n", "    struct utmp *ut;\n    const char *host;\n"),
   ("        if (strncmp(ut->ut_host, \":0\", sizeof(ut->ut_host)) == 0 ||\n                strncmp(ut->ut_host, \":0.0\", sizeof(ut->ut_host)) == 0)\n            py_hostname = PyUnicode_DecodeFSDefault(\"localhost\");\n        else\n            py_hostname = PyUnicode_DecodeFSDefaultAndSize(\n                ut->ut_host, strnlen(ut->ut_host, sizeof(ut->ut_host)));",
    "        host = ut->ut_host;\n        if (strcmp(host, \":0\") == 0 || strcmp(host, \":0.0\") == 0)\n            host = \"localhost\";\n        py_hostname = PyUnicode_DecodeFSDefault(host);")],
  "fires:C17.R2")
V("C18", "ioprio-pack-operands-swapped", PC,
  ("    ioprio = IOPRIO_PRIO_VALUE(ioclass, iodata);", "    ioprio = IOPRIO_PRIO_VALUE(iodata, ioclass);"),
  "fires:C18.R2")
V("C18", "benign-ioprio-c-locals-renamed", PC,
  [("    int ioprio, ioclass, iodata;\n    int retval;\n\n    if (! PyArg_ParseTuple(\n            args, _Py_PARSE_PID \"ii\", &pid, &ioclass, &iodata)) {",
    "    int ioprio, klass, level;\n    int retval;\n\n    if (! PyArg_ParseTuple(\n            args, _Py_PARSE_PID \"ii\", &pid, &klass, &level)) {"),
   ("    if (ioclass < 0 || ioclass > 7 ||\n            iodata < 0 || iodata > (int)IOPRIO_PRIO_MASK) {",
    "    if (klass < 0 || klass > 7 ||\n            level < 0 || level > (int)IOPRIO_PRIO_MASK) {"),
   ("    ioprio = IOPRIO_PRIO_VALUE(ioclass, iodata);", "    ioprio = IOPRIO_PRIO_VALUE(klass, level);")],
  "silent")
V("C19", "defect-F18-returns", L,
  ("    basenames = glob.glob('/sys/class/hwmon/hwmon*/fan*_*')\n    # CentOS has an intermediate /device directory:\n    # https://github.com/giampaolo/psutil/issues/971\n    basenames.extend(glob.glob('/sys/class/hwmon/hwmon*/device/fan*_*'))\n",
   "    basenames = glob.glob('/sys/class/hwmon/hwmon*/fan*_*')\n    if not basenames:\n        basenames = glob.glob('/sys/class/hwmon/hwmon*/device/fan*_*')\n"),
  "fires:C19.R2")
V("C19", "temps-nested-layout-dropped", L,
  ("    basenames.extend(glob.glob('/sys/class/hwmon/hwmon*/device/temp*_*'))\n", ""),
  "fires:C19.R2")
V("C19", "benign-discovery-helper-union", L,
  [("    basenames = glob.glob('/sys/class/hwmon/hwmon*/fan*_*')\n    # CentOS has an intermediate /device directory:\n    # https://github.com/giampaolo/psutil/issues/971\n    basenames.extend(glob.glob('/sys/class/hwmon/hwmon*/device/fan*_*'))\n    basenames = sorted({x.split(\"_\")[0] for x in basenames})\n",
    "    basenames = _hwmon_basenames('fan')\n"),
   ("def sensors_fans():",
    "def _hwmon_basenames(kind):\n    found = glob.glob(f'/sys/class/hwmon/hwmon*/{kind}*_*')\n    found += glob.glob(f'/sys/class/hwmon/hwmon*/device/{kind}*_*')\n    return sorted({x.split('_')[0] for x in found})\n\n\ndef sensors_fans():")],
  "silent")
V("C19", "battery-truthiness-guard", L,
  ("    elif energy_now is not None and power_now is not None:\n        try:\n            secsleft = int(energy_now / power_now * 3600)\n        except ZeroDivisionError:\n            secsleft = _common.POWER_TIME_UNKNOWN\n",
   "    elif energy_now and power_now:\n        secsleft = int(energy_now / power_now * 3600)\n"),
  "fires:C19.R3")
V("C19", "battery-zero-division-unhandled", L,
  ("        try:\n            secsleft = int(energy_now / power_now * 3600)\n        except ZeroDivisionError:\n            secsleft = _common.POWER_TIME_UNKNOWN\n",
   "        secsleft = int(energy_now / power_now * 3600)\n"), "fires:C19.R3")
V("C19", "benign-battery-guard-excludes-zero-power", L,
  ("    elif energy_now is not None and power_now is not None:\n        try:\n            secsleft = int(energy_now / power_now * 3600)\n        except ZeroDivisionError:\n            secsleft = _common.POWER_TIME_UNKNOWN\n",
   "    elif energy_now is not None and power_now is not None and power_now == 0:\n        secsleft = _common.POWER_TIME_UNKNOWN\n    elif energy_now is not None and power_now is not None:\n        secsleft = int(energy_now / power_now * 3600)\n"),
  "silent")
W = "psutil/_pswindows.py"
V("C20", "bsd-is-zombie-raw-szomb", "psutil/_psbsd.py",
  ("        return PROC_STATUSES.get(st) == _common.STATUS_ZOMBIE", "        return st == cext.SZOMB"),
  "fires:C20.R2")
V("C20", "benign-bsd-is-zombie-table-subscript", "psutil/_psbsd.py",
  ("        return PROC_STATUSES.get(st) == _common.STATUS_ZOMBIE",
   "        return _common.STATUS_ZOMBIE == PROC_STATUSES.get(st)"), "silent")
V("C20", "win-meminfo-fallback-swapped", W,
  ("                    info[pinfo_map['pagefile']],\n                    info[pinfo_map['peak_pagefile']],",
   "                    info[pinfo_map['peak_pagefile']],\n                    info[pinfo_map['pagefile']],"),
  "fires:C20.R5")
V("C20", "win-io-fallback-swapped", W,
  ("                info[pinfo_map['io_rbytes']],\n                info[pinfo_map['io_wbytes']],",
   "                info[pinfo_map['io_wbytes']],\n                info[pinfo_map['io_rbytes']],"),
  "fires:C20.R5")
V("C20", "win-cputimes-fallback-swapped", W,
  ("            user = info[pinfo_map['user_time']]\n            system = info[pinfo_map['kernel_time']]",
   "            user = info[pinfo_map['kernel_time']]\n            system = info[pinfo_map['user_time']]"),
  "fires:C20.R5")
V("C20", "win-vms-wrong-slot", W,
  ("        vms = t[7]  # pagefile", "        vms = t[8]  # pagefile"), "fires:C20.R5")
V("C20", "win-meminfo-c-builder-swapped", "psutil/arch/windows/proc.c",
  ("        (unsigned long long)cnt.PagefileUsage,\n        (unsigned long long)cnt.PeakPagefileUsage,",
   "        (unsigned long long)cnt.PeakPagefileUsage,\n        (unsigned long long)cnt.PagefileUsage,"),
  "fires:C20.R5")
V("C03", "defect-F19-returns", I,
  ("            try:\n                proc = proc.parent()\n            except NoSuchProcess:\n                # An ancestor disappeared while the chain was being\n                # walked: its own parent can't be determined anymore.\n                break\n",
   "            proc = proc.parent()\n"), "fires:C03.R6")
V("C01", "eq-tolerates-close-start-times", I,
  ("        return self._ident == other._ident\n",
   "        if self.pid == other.pid and abs(self._ident[1] - other._ident[1]) <= 1:\n            return True\n        return self._ident == other._ident\n"),
  "fires:C01.R6")
V("C05", "guard-never-consults-is-running", I,
  ("        if self._pid_reused or (not self.is_running() and self._pid_reused):",
   "        if self._pid_reused:"), "fires:C05.R3")
V("C05", "ppid-map-first-paren", L,
  ("            rpar = data.rfind(b')')\n            dset = data[rpar + 2 :].split()\n            ppid = int(dset[1])",
   "            dset = data.partition(b') ')[2].split()\n            ppid = int(dset[1])"),
  "fires:C05.R6")
V("C05", "flat-selects-wrong-column", I,
  ("                if ppid == self.pid and pid != self.pid:", "                if pid != self.pid and ppid != self.pid:"),
  "fires:C05.R2")
V("C05", "recursive-children-not-pushed", I,
  ("                            ret.append(child)\n                            stack.append(child_pid)",
   "                            ret.append(child)"), "fires:C05.R2")
V("C05", "reverse-map-inverted", I,
  ("                reverse_ppid_map[ppid].append(pid)", "                reverse_ppid_map[pid].append(ppid)"),
  "fires:C05.R2")
V("C05", "walk-starts-elsewhere", I,
  ("            stack = [self.pid]", "            stack = [self.ppid()]"), "fires:C05.R2")
V("C16", "as-dict-outside-oneshot", I,
  ("        with self.oneshot():\n            for name in ls:\n                try:\n                    if name == 'pid':\n                        ret = self.pid\n                    else:\n                        meth = getattr(self, name)\n                        ret = meth()\n                except (AccessDenied, ZombieProcess):\n                    ret = ad_value\n                except NotImplementedError:\n                    # in case of not implemented functionality (may happen\n                    # on old or exotic systems) we want to crash only if\n                    # the user explicitly asked for that particular attr\n                    if attrs:\n                        raise\n                    continue\n                retdict[name] = ret\n",
   "        for name in ls:\n            try:\n                if name == 'pid':\n                    ret = self.pid\n                else:\n                    meth = getattr(self, name)\n                    ret = meth()\n            except (AccessDenied, ZombieProcess):\n                ret = ad_value\n            except NotImplementedError:\n                if attrs:\n                    raise\n                continue\n            retdict[name] = ret\n"),
  "fires:C16.R5")

# ----------------------------------------------------------------- benign refactors, batch 2
V("C14", "benign-open-files-early-continue", L,
  ("                if path.startswith('/') and isfile_strict(path):\n                    # Get file position and flags.\n                    file = f\"{self._procfs_path}/{self.pid}/fdinfo/{fd}\"\n                    try:\n                        with open_binary(file) as f:\n                            pos = int(f.readline().split()[1])\n                            flags = int(f.readline().split()[1], 8)\n                    except (FileNotFoundError, ProcessLookupError):\n                        # fd gone in the meantime; process may\n                        # still be alive\n                        hit_enoent = True\n                    else:\n                        mode = file_flags_to_mode(flags)\n                        ntuple = popenfile(\n                            path, int(fd), int(pos), mode, flags\n                        )\n                        retlist.append(ntuple)\n",
   "                if not (path.startswith('/') and isfile_strict(path)):\n                    continue\n                # Get file position and flags.\n                file = f\"{self._procfs_path}/{self.pid}/fdinfo/{fd}\"\n                try:\n                    with open_binary(file) as f:\n                        pos = int(f.readline().split()[1])\n                        flags = int(f.readline().split()[1], 8)\n                except (FileNotFoundError, ProcessLookupError):\n                    # fd gone in the meantime; process may\n                    # still be alive\n                    hit_enoent = True\n                else:\n                    mode = file_flags_to_mode(flags)\n                    retlist.append(popenfile(path, int(fd), int(pos), mode, flags))\n"),
  "silent")
V("C14", "benign-open-files-errno-set", L,
  ("                hit_enoent = True\n                continue\n            except OSError as err:\n                if err.errno == errno.EINVAL:\n                    # not a link\n                    continue\n                if err.errno == errno.ENAMETOOLONG:\n                    # file name too long\n                    debug(err)\n                    continue\n                raise",
   "                hit_enoent = True\n                continue\n            except OSError as err:\n                if err.errno in {errno.EINVAL, errno.ENAMETOOLONG}:\n                    # not a link / file name too long\n                    debug(err)\n                    continue\n                raise"),
  "silent")
V("C14", "benign-num-fds-temp", L,
  ("        return len(os.listdir(f\"{self._procfs_path}/{self.pid}/fd\"))",
   "        entries = os.listdir(f\"{self._procfs_path}/{self.pid}/fd\")\n        return len(entries)"),
  "silent")
V("C16", "benign-memoiser-simplified-reraise", C,
  ("            try:\n                return fun(self)\n            except Exception as err:  # noqa: BLE001\n                raise err from None\n        except KeyError:",
   "            return fun(self)\n        except KeyError:"), "silent")
V("C16", "benign-memoiser-handler-order", C,
  ("            ret = self._cache[fun]\n        except AttributeError:\n            # case 2: we never entered oneshot() ctx\n            try:\n                return fun(self)\n            except Exception as err:  # noqa: BLE001\n                raise err from None\n        except KeyError:\n            # case 3: we entered oneshot() ctx but there's no cache\n            # for this entry yet\n            try:\n                ret = fun(self)\n            except Exception as err:  # noqa: BLE001\n                raise err from None\n            try:\n                self._cache[fun] = ret\n            except AttributeError:\n                # multi-threading race condition, see:\n                # https://github.com/giampaolo/psutil/issues/1948\n                pass\n",
   "            ret = self._cache[fun]\n        except KeyError:\n            try:\n                ret = fun(self)\n            except Exception as err:  # noqa: BLE001\n                raise err from None\n            try:\n                self._cache[fun] = ret\n            except AttributeError:\n                pass\n        except AttributeError:\n            try:\n                return fun(self)\n            except Exception as err:  # noqa: BLE001\n                raise err from None\n"),
  "silent")
V("C16", "benign-oneshot-deactivate-order", I,
  ("                    self.cpu_times.cache_deactivate(self)\n                    self.memory_info.cache_deactivate(self)\n                    self.ppid.cache_deactivate(self)\n",
   "                    self.ppid.cache_deactivate(self)\n                    self.memory_info.cache_deactivate(self)\n                    self.cpu_times.cache_deactivate(self)\n"),
  "silent")
V("C07", "benign-busy-time-one-expression", I,
  ("    busy = _cpu_tot_time(times)\n    busy -= times.idle\n",
   "    busy = _cpu_tot_time(times) - times.idle\n"), "silent")
V("C07", "benign-deltas-comprehension", I,
  ("    field_deltas = []\n    for field in _psplatform.scputimes._fields:\n        field_delta = getattr(t2, field) - getattr(t1, field)\n",
   "    field_deltas = []\n    for field in _psplatform.scputimes._fields:\n        new, old = getattr(t2, field), getattr(t1, field)\n        field_delta = new - old\n"),
  "silent")
V("C07", "benign-percent-zero-total-test", I,
  ("        try:\n            busy_perc = (busy_delta / all_delta) * 100\n        except ZeroDivisionError:\n            return 0.0\n        else:\n            return round(busy_perc, 1)\n",
   "        if all_delta == 0:\n            return 0.0\n        busy_perc = 100 * busy_delta / all_delta\n        return round(busy_perc, 1)\n"),
  "silent")
V("C07", "benign-percpu-list-comprehension", I,
  ("        for t1, t2 in zip(tot1, _last_per_cpu_times[tid]):\n            ret.append(calculate(t1, t2))\n        return ret",
   "        return [calculate(t1, t2) for t1, t2 in zip(tot1, _last_per_cpu_times[tid])]"),
  "silent")
V("C08", "benign-avail-get-or-fallback", L,
  ("    try:\n        avail = mems[b'MemAvailable:']\n    except KeyError:\n        avail = calculate_avail_vmem(mems)\n    else:\n        if avail == 0:\n            # Yes, it can happen (probably a kernel bug):\n            # https://github.com/giampaolo/psutil/issues/1915\n            # In this case \"free\" CLI tool makes an estimate. We do the same,\n            # and it matches \"free\" CLI tool.\n            avail = calculate_avail_vmem(mems)\n",
   "    avail = mems.get(b'MemAvailable:', 0)\n    if avail == 0:\n        # missing (kernel < 3.14) or zero (kernel bug, issue 1915)\n        avail = calculate_avail_vmem(mems)\n"),
  "silent")
V("C08", "benign-clamp-min-max", L,
  ("    used = total - free - cached - buffers\n    if used < 0:\n",
   "    used = total - free - cached - buffers\n    if 0 > used:\n"), "silent")
V("C08", "benign-meminfo-split-temp", L,
  ("    mems = {}\n    with open_binary(f\"{get_procfs_path()}/meminfo\") as f:\n        for line in f:\n            fields = line.split()\n            mems[fields[0]] = int(fields[1]) * 1024\n\n    # /proc doc states",
   "    mems = {}\n    with open_binary(f\"{get_procfs_path()}/meminfo\") as f:\n        for line in f:\n            fields = line.split()\n            key, kb = fields[0], int(fields[1])\n            mems[key] = kb * 1024\n\n    # /proc doc states"),
  "silent")
V("C08", "benign-slab-get", L,
  ("    try:\n        slab = mems[b\"Slab:\"]\n    except KeyError:\n        slab = 0\n",
   "    slab = mems.get(b\"Slab:\", 0)\n"), "silent")

# ----------------------------------------------------------------- round-2 seed-driven rules
V("C01", "is-running-memoised-in-oneshot", I,
  [("    def is_running(self):\n        \"\"\"Return whether this process is running.",
    "    @memoize_when_activated\n    def is_running(self):\n        \"\"\"Return whether this process is running."),
   ("                    self.ppid.cache_activate(self)\n", "                    self.ppid.cache_activate(self)\n                    self.is_running.cache_activate(self)\n"),
   ("                    self.ppid.cache_deactivate(self)\n", "                    self.ppid.cache_deactivate(self)\n                    self.is_running.cache_deactivate(self)\n")],
  "fires:C01.R6")
V("C02", "reused-verdict-from-pid-set", I,
  ("        if self._gone or self._pid_reused:\n            return False\n        try:",
   "        if self._gone or self._pid_reused:\n            return False\n        if self.pid in _pids_reused:\n            self._pid_reused = True\n            return False\n        try:"),
  "fires:C02.R4")
V("C07", "cpu-line-label-counted", L,
  ("        values = f.readline().split()[1:]", "        values = f.readline().split()"), "fires:C07.R1")
V("C07", "benign-cpu-line-count-two-steps", L,
  ("        values = f.readline().split()[1:]", "        tokens = f.readline().split()\n        values = tokens[1:]"),
  "silent")
V("C03", "helpers-lose-translator", L,
  ("    @wrap_exceptions\n    @memoize_when_activated\n    def _read_status_file(self):",
   "    @memoize_when_activated\n    def _read_status_file(self):"), "fires:C03.R1")
V("C17", "xdecref-became-decref-users", UC,
  ("    Py_XDECREF(py_tuple);\n    Py_DECREF(py_retlist);", "    Py_DECREF(py_tuple);\n    Py_DECREF(py_retlist);"),
  "fires:C17.R5")
V("C17", "xdecref-became-decref-disk", "psutil/arch/linux/disk.c",
  ("    Py_XDECREF(py_dev);", "    Py_DECREF(py_dev);"), "fires:C17.R5")
V("C17", "benign-decref-under-null-test", UC,
  ("    Py_XDECREF(py_tuple);\n    Py_DECREF(py_retlist);",
   "    if (py_tuple != NULL)\n        Py_DECREF(py_tuple);\n    Py_DECREF(py_retlist);"), "silent")
V("C17", "parse-result-unchecked", PC,
  ("    if (! PyArg_ParseTuple(\n            args, _Py_PARSE_PID \"ii\", &pid, &ioclass, &iodata)) {\n        return NULL;\n    }",
   "    PyArg_ParseTuple(args, _Py_PARSE_PID \"ii\", &pid, &ioclass, &iodata);"), "fires:C17.R8")
V("C03", "oneshot-without-finally", I,
  ("                    self._proc.oneshot_enter()\n                    yield\n                finally:\n",
   "                    self._proc.oneshot_enter()\n                    yield\n                except ZeroDivisionError:\n                    pass\n                if True:\n"),
  "fires:C03.R7")
V("C16", "oneshot-without-finally", I,
  ("                    self._proc.oneshot_enter()\n                    yield\n                finally:\n",
   "                    self._proc.oneshot_enter()\n                    yield\n                except ZeroDivisionError:\n                    pass\n                if True:\n"),
  "fires:C16.R1")

# ----------------------------------------------------------------- my own adversarial batch
V("C01", "nice-value-clamped", L,
  ("        return cext_posix.setpriority(self.pid, value)",
   "        return cext_posix.setpriority(self.pid, max(-20, min(19, value)))"), "fires:C01.R4")
V("C02", "ident-start-rounded", I,
  ("                return (self.pid, self._proc.create_time(monotonic=True))",
   "                return (self.pid, round(self._proc.create_time(monotonic=True), 1))"),
  "fires:C02.R3")
V("C03", "adv-netconn-no-liveness", L,
  ("        ret = _net_connections.retrieve(kind, self.pid)\n        self._raise_if_not_alive()\n        return ret",
   "        ret = _net_connections.retrieve(kind, self.pid)\n        return ret"), "fires:")
V("C03", "adv-zombie-letter-lowercase", L,
  ("            return status == b\"Z\"", "            return status == b\"z\""), "fires:")
V("C06", "adv-ctxsw-swapped", L,
  ("        return _common.pctxsw(int(ctxsw[0]), int(ctxsw[1]))",
   "        return _common.pctxsw(int(ctxsw[1]), int(ctxsw[0]))"), "fires:")
V("C06", "adv-uids-saved-effective-swapped", L,
  ("        return _common.puids(int(real), int(effective), int(saved))",
   "        return _common.puids(int(real), int(saved), int(effective))"), "fires:")
V("C12", "adv-name-truncation-threshold", I,
  ("        if POSIX and len(name) >= 15:", "        if POSIX and len(name) > 15:"), "fires:")
V("C14", "adv-io-chars-swapped", L,
  ("fields[b'rchar'],  # read chars\n                    fields[b'wchar'],  # write chars",
   "fields[b'wchar'],  # read chars\n                    fields[b'rchar'],  # write chars"), "fires:")
V("C18", "adv-rlimit-pair-lt2", L,
  ("                    if len(limits) != 2:", "                    if len(limits) < 2:"), "fires:")
V("C19", "adv-cpu-stats-swapped", L,
  ("            elif line.startswith(b'intr'):\n                interrupts = int(line.split()[1])\n            elif line.startswith(b'softirq'):\n                soft_interrupts = int(line.split()[1])",
   "            elif line.startswith(b'intr'):\n                soft_interrupts = int(line.split()[1])\n            elif line.startswith(b'softirq'):\n                interrupts = int(line.split()[1])"),
  "fires:")
V("C19", "adv-boot-time-wrong-key", L,
  ("            if line.startswith(b'btime'):", "            if line.startswith(b'processes'):"), "fires:")
V("C04", "adv-linux-pids-nonzero", L,
  ("    return [int(x) for x in os.listdir(path) if x.isdigit()]",
   "    return [int(x) for x in os.listdir(path) if x.isdigit() and int(x) > 1]"), "fires:")
V("C09", "adv-storage-filter-inverted", L,
  ("        if not perdisk and not is_storage_device(name):", "        if not perdisk and is_storage_device(name):"), "fires:")
V("C13", "adv-memory-percent-check-after", I,
  ("        if memtype not in valid_types:", "        if memtype in ('?',):"), "fires:")
V("C07", "adv-percpu-includes-aggregate", L,
  ("            if line.startswith(b'cpu'):\n                values = line.split()",
   "            if line.startswith(b'c'):\n                values = line.split()"), "fires:")
V("C05", "adv-parent-strictly-older", I,
  ("                if parent.create_time() <= ctime:", "                if parent.create_time() < ctime:"), "fires:")
V("C05", "adv-children-strictly-younger", I,
  ("                        if self.create_time() <= child.create_time():",
   "                        if self.create_time() < child.create_time():"), "fires:")
V("C05", "adv-children-rec-strictly-younger", I,
  ("                        intime = self.create_time() <= child.create_time()",
   "                        intime = self.create_time() < child.create_time()"), "fires:")
V("C07", "adv-zero-interval-rejected", I,
  ("    if interval is not None and interval < 0:\n        msg = f\"interval is not positive (got {interval})\"\n        raise ValueError(msg)\n\n    def calculate(t1, t2):\n        times_delta",
   "    if interval is not None and interval <= 0:\n        msg = f\"interval is not positive (got {interval})\"\n        raise ValueError(msg)\n\n    def calculate(t1, t2):\n        times_delta"),
  "fires:")
V("C04", "adv-pid-exists-zero-false", I,
  ("    if pid < 0:\n        return False\n    elif pid == 0 and POSIX:", "    if pid <= 0:\n        return False\n    elif pid == 0 and POSIX:"),
  "fires:")
V("C08", "adv-avail-ge-total", L,
  ("    elif avail > total:", "    elif avail >= total:"), "fires:")
V("C13", "adv-rss-vms-swapped", L,
  ("            vms, rss, shared, text, lib, data, dirty = (", "            rss, vms, shared, text, lib, data, dirty = ("), "fires:")

# ----------------------------------------------------------------- round-2 misses -> rules
V("C11", "kind-substring-test", I,
  ("    kinds = tuple(_common.conn_tmap)", "    kinds = \", \".join(_common.conn_tmap)"), "fires:C11.R2")
V("C11", "inet-skipped-on-bind-test", L,
  ("        if file.endswith('6') and not os.path.exists(file):",
   "        if family == socket.AF_INET6 and not supports_ipv6():"), "fires:C11.R3")
V("C13", "rollup-reader-translates", L,
  ("        def _parse_smaps_rollup(self):", "        @wrap_exceptions\n        def _parse_smaps_rollup(self):"),
  "fires:C13.R2")
V("C15", "negsignal-not-total", P,
  ("                return negsig_to_enum(-os.WTERMSIG(status))", "                return Negsignal(-os.WTERMSIG(status))"),
  "fires:C15.R5")
V("C18", "eligible-is-current-mask", L,
  ("                return list(range(len(per_cpu_times())))", "                return self.cpu_affinity_get()"),
  "fires:C18.R1")
V("C20", "bsd-pid0-via-pid-exists", "psutil/_psbsd.py",
  ("            if pid == 0 and 0 in pids():", "            if pid == 0 and pid_exists(pid):"), "fires:C20.R2")
V("C20", "sunos-cwd-absorbs-denial", "psutil/_pssunos.py",
  ("            return os.readlink(f\"{procfs_path}/{self.pid}/path/cwd\")\n        except FileNotFoundError:",
   "            return os.readlink(f\"{procfs_path}/{self.pid}/path/cwd\")\n        except OSError:"),
  "fires:C20.R2")


# ----------------------------------------------------------------- corpus
# The seeded breakages (/verif/seeded: written by agents that saw only the property
# text) and the behaviour-preserving refactorings (/verif/benign) are variants too:
# a seed must be reported by every check that reported it when it was evaluated
# (result.json), a refactoring must leave its own property's check silent.
def _corpus():
    import glob as _glob
    import json as _json
    import os as _os
    root = _os.path.dirname(_os.path.dirname(_os.path.abspath(__file__)))
    for d in sorted(_glob.glob(_os.path.join(root, "seeded", "C*-*"))):
        try:
            res = _json.load(open(_os.path.join(d, "result.json")))
        except (OSError, ValueError):
            continue
        for prop, info in sorted((res.get("checks_fired") or {}).items()):
            rules = info.get("rules") if isinstance(info, dict) else info
            if not rules:
                continue
            VARIANTS.append(dict(prop=prop, name="seed-" + _os.path.basename(d), file=None, edits=[],
                                 patch=_os.path.join(d, "patch.diff"), expect="fires:" + rules[0]))
    for d in sorted(_glob.glob(_os.path.join(root, "benign", "C*-*"))):
        if _os.path.exists(_os.path.join(d, "patch.diff")):
            try:
                if _json.load(open(_os.path.join(d, "meta.json"))).get("status") == "open-false-alarm":
                    continue        # listed in DESIGN.md §13b as not yet handled
            except (OSError, ValueError):
                pass
            b = _os.path.basename(d)
            VARIANTS.append(dict(prop=b.split("-")[0], name="refactoring-" + b, file=None, edits=[],
                                 patch=_os.path.join(d, "patch.diff"), expect="silent"))


_corpus()
