#!/venv/bin/python
"""E7: checker validation.  Applies each variant (an exact-text edit of one
source file) to a scratch copy of /repo's psutil/ + docs/, byte-compiles it,
runs `check <prop> --repo <scratch>` and compares the exit status with the
expectation ("fires" -> exit 1 and the expected rule id in the output,
"silent" -> exit 0).  Not a property check: it validates the checkers.

usage: selftest/run.py [PROP ...] [-j N] [-k substr]
"""

import argparse
import concurrent.futures as cf
import os
import py_compile
import shutil
import subprocess
import sys
import tempfile

HERE = os.path.dirname(os.path.abspath(__file__))
VERIF = os.path.dirname(HERE)
sys.path.insert(0, HERE)
REPO = os.environ.get("VERIF_REPO", "/repo")


def make_scratch(REPO=None):
    REPO = REPO or globals()["REPO"]
    d = tempfile.mkdtemp(prefix="psutil-selftest-")
    shutil.copytree(os.path.join(REPO, "psutil"), os.path.join(d, "psutil"),
                    ignore=shutil.ignore_patterns("*.so", "__pycache__", "tests"))
    if os.path.isdir(os.path.join(REPO, "docs")):
        os.makedirs(os.path.join(d, "docs"))
        shutil.copy(os.path.join(REPO, "docs", "index.rst"), os.path.join(d, "docs"))
    shutil.copy(os.path.join(REPO, "setup.py"), d)
    return d


def run_variant(v, repo=None):
    prop, name, file, edits, expect = v["prop"], v["name"], v["file"], v["edits"], v["expect"]
    d = make_scratch(repo)
    try:
        if v.get("patch"):
            pp = subprocess.run(["patch", "-p1", "-s", "--no-backup-if-mismatch", "-i", v["patch"]],
                                cwd=d, capture_output=True, text=True)
            if pp.returncode != 0:
                return (v, "BROKEN-VARIANT", "patch does not apply: " + (pp.stdout + pp.stderr)[-200:])
            file, edits = "", []
        path = os.path.join(d, file)
        src = ""
        if file:
            with open(path) as f:
                src = f.read()
        for old, new in edits:
            if src.count(old) != 1:
                return (v, "BROKEN-VARIANT",
                        f"pattern occurs {src.count(old)} times: {old[:60]!r}")
            src = src.replace(old, new)
        if file:
            with open(path, "w") as f:
                f.write(src)
        if file.endswith(".py"):
            try:
                compile(src, path, "exec")
            except SyntaxError as e:
                return (v, "BROKEN-VARIANT", f"does not compile: {e}")
        p = subprocess.run([os.path.join(VERIF, "check"), prop, "--repo", d],
                           capture_output=True, text=True,
                           env=dict(os.environ, VERIF_SELFTEST="1",
                                    VERIF_EVIDENCE_DIR=os.path.join(d, "evidence")))
        out = p.stdout + p.stderr
        if expect == "silent":
            ok = p.returncode == 0
        else:
            rule = expect.split(":", 1)[1] if ":" in expect else ""
            ok = p.returncode == 1 and (not rule or f"rule={rule}" in out)
        return (v, "ok" if ok else "MISMATCH",
                f"exit={p.returncode}\n" + "\n".join(out.splitlines()[:12]))
    finally:
        shutil.rmtree(d, ignore_errors=True)


def run_transform(name, props):
    """Whole-tree behaviour-preserving transformation: every check must stay silent."""
    import glob
    from transforms import TRANSFORMS
    d = make_scratch()
    bad = 0
    try:
        for path in sorted(glob.glob(os.path.join(d, "psutil", "*.py"))):
            with open(path) as f:
                src = f.read()
            new = TRANSFORMS[name](src)
            compile(new, path, "exec")
            with open(path, "w") as f:
                f.write(new)

        def one(prop):
            p = subprocess.run([os.path.join(VERIF, "check"), prop, "--repo", d],
                               capture_output=True, text=True,
                               env=dict(os.environ, VERIF_SELFTEST="1",
                                        VERIF_EVIDENCE_DIR=os.path.join(d, "evidence", prop)))
            return prop, p.returncode, p.stdout + p.stderr
        with cf.ThreadPoolExecutor(16) as ex:
            for prop, rc, out in ex.map(one, props):
                if rc != 0:
                    bad += 1
                    print(f"[FALSE-ALARM?] transform={name} {prop} exit={rc}")
                    print("    " + "\n    ".join(out.splitlines()[:14]))
        print(f"transform {name}: {len(props)} checks, {bad} not silent")
        if os.environ.get("KEEP_SCRATCH"):
            print("kept", d)
    finally:
        if not os.environ.get("KEEP_SCRATCH"):
            shutil.rmtree(d, ignore_errors=True)
    return bad


def main():
    ap = argparse.ArgumentParser()
    ap.add_argument("--transform", default=None, help="alpha | reprint | all")
    ap.add_argument("props", nargs="*")
    ap.add_argument("-j", type=int, default=16)
    ap.add_argument("-k", default="")
    ap.add_argument("-v", action="store_true")
    args = ap.parse_args()
    if args.transform:
        props = args.props or [f"C{i:02d}" for i in range(1, 21)]
        from transforms import TRANSFORMS as _T
        names = sorted(_T) if args.transform == "all" else [args.transform]
        return 1 if sum(run_transform(n, props) for n in names) else 0
    from variants import VARIANTS
    vs = [v for v in VARIANTS
          if (not args.props or v["prop"] in args.props) and args.k in v["name"]]
    bad = 0
    with cf.ThreadPoolExecutor(args.j) as ex:
        for v, status, info in ex.map(run_variant, vs):
            if status != "ok" or args.v:
                print(f"[{status}] {v['prop']} {v['name']} expect={v['expect']}")
                print("    " + info.replace("\n", "\n    "))
            if status != "ok":
                bad += 1
    if not args.props and not args.k:
        # on the unchanged tree no rule instance may be "not decided"
        import json
        for i in range(1, 21):
            prop = f"C{i:02d}"
            d = tempfile.mkdtemp(prefix="psutil-selftest-ev-")
            try:
                p = subprocess.run([os.path.join(VERIF, "check"), prop], capture_output=True,
                                   text=True, env=dict(os.environ, VERIF_SELFTEST="1",
                                                       VERIF_EVIDENCE_DIR=d))
                ev = json.load(open(os.path.join(d, f"{prop}.json")))
                u = ev["coverage"].get("undecided_instances", 0)
                if p.returncode != 0 or u:
                    bad += 1
                    print(f"[CLEAN-TREE] {prop} exit={p.returncode} undecided_instances={u}")
            finally:
                shutil.rmtree(d, ignore_errors=True)
    print(f"selftest: {len(vs)} variants, {bad} not as expected")
    return 1 if bad else 0


if __name__ == "__main__":
    sys.exit(main())
