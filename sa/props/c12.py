"""C12 - cmdline/environ/exe/cwd and extended name() decode what the kernel exposes.

Mostly value-level (separator heuristics, decoding); only the structural
necessary conditions below are decided.
"""

import ast

from ..core.absint import Interp, alternatives, pretty
from ..core.analysis import Analysis, assigned_names, facts
from ..core.astutil import deref, handler_catches, order_rel, path_templates
from ..core.cfg import decompose_guard
from ..core.forms import canon
from ..core.pyrepo import Repo, calls_in, dotted, norm_stmt
from ..oracles import linux as O
from .c06 import collect


def run(ctx):
    repo = Repo(ctx.repo)
    A = Analysis(repo)
    pm = "_pslinux"
    I = Interp(repo, A)

    # ------------------------------------------------------------------- R1
    ctx.rule("C12.R1", "link targets: os.readlink is called only inside readlink(), "
             "which cuts at the first NUL and drops a stale ' (deleted)' suffix; "
             "exe()/cwd() go through _readlink(..., fallback=''), which takes the "
             "liveness path for both ENOENT and ESRCH", floor=5)
    sites = []
    for fi in repo.all_funcs(pm):
        for c in calls_in(fi.node):
            if dotted(c.func) == "os.readlink":
                sites.append((fi, c))
    if len(sites) == 1 and sites[0][0].qual == "readlink":
        ctx.ok("C12.R1", "single-site", sample="os.readlink only in _pslinux.readlink()")
    else:
        ctx.fail("C12.R1", "single-site", f"psutil/{pm}.py", 0, "readlink",
                 f"os.readlink is called from {[f.qual for f, _ in sites]}: raw link "
                 f"targets (NUL garbage, ' (deleted)') would bypass the clean-up")
    rl = repo.func(pm, "readlink")
    t = canon(I.call_function(rl, [("param", "path")]))
    txt = pretty(t)
    alts = alternatives(t)
    # cut at the first NUL: `.split('\0')[0]` or the head of `.partition('\0')`
    nul = all("split(os.readlink(path), '\\x00', None)[0]" in pretty(a)
              or "slice(os.readlink(path), None, find(os.readlink(path), '\\x00', 'first'), None)"
              in pretty(a) for a in alts)
    dele = any(a[0] == "slice" and a[3] == ("const", -10) for a in alts) and \
        any(a[0] in ("idx",) or (a[0] == "slice" and a[3] != ("const", -10)) for a in alts)
    cond_ok = False
    for g in collect(I.call_function(rl, [("param", "path")]), lambda x: x and x[0] == "gphi"):
        c = pretty(g[1])
        if "endswith" in c and "' (deleted)'" in c and "not(" in c:
            cond_ok = True
    if nul and dele and cond_ok:
        ctx.ok("C12.R1", "cleanup", sample="split('\\0')[0]; drop ' (deleted)' if the path "
               "does not exist")
    else:
        ctx.fail("C12.R1", "cleanup", rl.file, rl.node.lineno, rl.qual,
                 f"readlink() = `{txt[:140]}`: must cut at the first NUL and drop a stale "
                 f"' (deleted)' suffix (10 chars) only when that path does not exist")
    for q, leaf in (("Process.exe", "exe"), ("Process.cwd", "cwd")):
        f = repo.func(pm, q)
        cs = [c for c in calls_in(f.node) if isinstance(c.func, ast.Attribute)
              and c.func.attr == "_readlink"]
        tmpls = path_templates(repo, f, cs[0].args[0]) if len(cs) == 1 and cs[0].args else set()
        good = bool(tmpls) and all(t.endswith("{self.pid}/" + leaf) for t in tmpls) \
            and any(k.arg == "fallback" and isinstance(k.value, ast.Constant)
                    and k.value.value == "" for k in cs[0].keywords)
        if good:
            ctx.ok("C12.R1", q, sample=f"_readlink(<pid>/{leaf}, fallback='')")
        else:
            ctx.fail("C12.R1", q, f.file, f.node.lineno, f.qual,
                     f"{leaf}() no longer reads <pid>/{leaf} through _readlink(..., "
                     f"fallback='')")

    # withheld link: ENOENT *and* ESRCH (psutil issue #503: readlink on <pid>/exe
    # races to ESRCH) take the liveness path, not the error translator
    rlm = repo.func(pm, "Process._readlink")
    rcfg = A.cfg(rlm)
    rcalls = [c for c in calls_in(rlm.node) if dotted(c.func) == "readlink"]
    ctx.require(rcalls, "_readlink no longer calls readlink()")
    trys = [t_ for t_ in ast.walk(rlm.node) if isinstance(t_, ast.Try)
            and any(rcalls[0] is x for b in t_.body for x in ast.walk(b))]
    probs = []
    if not trys:
        probs.append("readlink() is not inside a try")
    else:
        for cls_ in ("FileNotFoundError", "ProcessLookupError"):
            hs = [h for h in trys[-1].handlers if handler_catches(h, [cls_])]
            if not hs:
                probs.append(f"{cls_} ({'ENOENT' if cls_[0] == 'F' else 'ESRCH'}) from "
                             f"readlink() is not caught: a live process whose link the "
                             f"kernel withholds is reported as NoSuchProcess instead of ''")
                continue
            h = hs[0]
            rets = [n for n in rcfg.nodes if n.kind == "return" and n.stmt is not None
                    and any(n.stmt is x for b in h.body for x in ast.walk(b))]
            okret = False
            for r in rets:
                gs = [(norm_stmt(a_), t_) for e, pol, _ in rcfg.guards(r)
                      for a_, t_ in decompose_guard(e, pol)]
                if any("lexists" in g and pol is True for g, pol in gs):
                    zc = [n for c in calls_in(rlm.node) if isinstance(c.func, ast.Attribute)
                          and c.func.attr == "_raise_if_zombie" for n in rcfg.owners(c)]
                    if any(rcfg.dominates(z, r) for z in zc):
                        okret = True
            if not okret:
                probs.append(f"after {cls_} the fallback is not returned under "
                             f"lexists(<pid dir>) after the zombie check")
            if not any(isinstance(x, ast.Raise) and x.exc is None for b in h.body
                       for x in ast.walk(b)):
                probs.append(f"{cls_} is not re-raised when the process is gone")
    if probs:
        ctx.fail("C12.R1", "_readlink:withheld", rlm.file, rlm.node.lineno, rlm.qual,
                 "; ".join(sorted(set(probs))))
    else:
        ctx.ok("C12.R1", "_readlink:withheld",
               sample="ENOENT|ESRCH -> lexists(pid dir): zombie check, fallback; else re-raise")

    # ------------------------------------------------------------------- R2
    ctx.rule("C12.R2", "cmdline: NUL-separated when the data ends with NUL (else "
             "spaces), one trailing separator removed, empty arguments preserved by "
             "split(sep); empty data -> zombie check then []", floor=2)
    cl = repo.func(pm, "Process.cmdline")
    tc = I.call_function(cl, [])
    alts = alternatives(tc)
    has_empty = any(a in (("list",), ("listof", ("bot",))) for a in alts)
    splits = collect(tc, lambda x: x and x[0] == "split")
    seps = {pretty(s[2]) for s in splits}
    sep_term = [s[2] for s in splits if s[2][0] == "gphi"]
    sep_ok = any("endswith" in pretty(s[1]) and "'\\x00'" in pretty(s[1])
                 and s[2] == ("const", "\x00") and s[3] == ("const", " ") for s in sep_term)
    trail = any(s[1][0] == "slice" and s[1][3] == ("const", -1) and s[1][2] == ("const", None)
                for s in splits) and any(s[1][0] == "file" for s in splits)
    if has_empty and sep_ok and trail:
        ctx.ok("C12.R2", "cmdline", sample="sep = NUL if data ends with NUL else ' '; "
               "data[:-1] if it ends with sep; data.split(sep)")
    else:
        ctx.fail("C12.R2", "cmdline", cl.file, cl.node.lineno, cl.qual,
                 f"cmdline() separator/trailing-separator handling changed "
                 f"(separators seen: {sorted(seps)})")
    cfg = A.cfg(cl)
    rets = [n for n in cfg.nodes if n.kind == "return" and isinstance(n.stmt.value, ast.List)
            and not n.stmt.value.elts]
    zc = [m for c in calls_in(cl.node) if isinstance(c.func, ast.Attribute)
          and c.func.attr == "_raise_if_zombie" for m in cfg.owners(c)]
    if rets and all(any(cfg.dominates(z, r) for z in zc) for r in rets):
        ctx.ok("C12.R2", "cmdline-zombie", sample="empty -> _raise_if_zombie(); []")
    else:
        ctx.fail("C12.R2", "cmdline-zombie", cl.file, cl.node.lineno, cl.qual,
                 "an empty cmdline is returned without the zombie check")

    # ------------------------------------------------------------------- R3
    ctx.rule("C12.R3", "parse_environ_block: the scan stops at an empty entry "
             "(next_pos <= pos) and otherwise advances past the NUL (progress => "
             "termination); an assignment is recorded only when '=' is found after "
             "the entry start; later duplicates overwrite", floor=3)
    pe = repo.func("_common", "parse_environ_block")
    pcfg = A.cfg(pe)
    asg = assigned_names(pe.node)
    # loop variable: assigned `X = data.find("\0", P)`
    finds = [st for st in ast.walk(pe.node) if isinstance(st, ast.Assign)
             and isinstance(st.value, ast.Call) and isinstance(st.value.func, ast.Attribute)
             and st.value.func.attr == "find" and st.value.args
             and isinstance(st.value.args[0], ast.Constant)]
    nulf = [st for st in finds if st.value.args[0].value == "\0"]
    eqf = [st for st in finds if st.value.args[0].value == "="]
    probs = []
    if len(nulf) != 1 or len(eqf) != 1:
        probs.append("the NUL / '=' searches vanished")
    else:
        nxt = dotted(nulf[0].targets[0])
        pos = dotted(nulf[0].value.args[1]) if len(nulf[0].value.args) > 1 else None
        if not pos:
            probs.append("the NUL search does not start at the current position")
        brk = [n for n in pcfg.nodes if n.kind == "stmt" and isinstance(n.stmt, ast.Break)]
        stop = False
        for b in brk:
            for e, p, _ in pcfg.guards(b):
                if p is True and order_rel(e) == (nxt, "<=", pos):
                    stop = True
                if p is False and order_rel(e) == (pos, "<", nxt):
                    stop = True
        if not stop:
            probs.append(f"the loop does not stop when {nxt} <= {pos} (an empty entry / no "
                         f"more NUL): it could loop for ever or read trailing garbage")
        adv = [st for st in asg.get(pos, []) if isinstance(st, ast.Assign)
               and norm_stmt(st.value).replace(" ", "") in (f"{nxt}+1", f"1+{nxt}")]
        if not adv:
            probs.append(f"{pos} is not advanced to {nxt} + 1")
        else:
            # the advance is executed on every non-breaking iteration
            wl = [n for n in ast.walk(pe.node) if isinstance(n, ast.While)]
            if not wl or adv[0] not in wl[0].body:
                probs.append("the advance is conditional: some iteration makes no progress")
        eq = dotted(eqf[0].targets[0])
        a = eqf[0].value.args
        if not (len(a) == 3 and dotted(a[1]) == pos and dotted(a[2]) == nxt):
            probs.append("'=' is not searched within the current entry only")
        stores = [n for n in pcfg.nodes if n.kind == "stmt" and isinstance(n.stmt, ast.Assign)
                  and isinstance(n.stmt.targets[0], ast.Subscript)
                  and dotted(n.stmt.targets[0].value) == "ret"]
        if not stores or not all(
                any((order_rel(e) == (pos, "<", eq) and p is True)
                    or (order_rel(e) == (eq, "<=", pos) and p is False)
                    for e, p, _ in pcfg.guards(n)) for n in stores):
            probs.append(f"entries are recorded without requiring {eq} > {pos} (an entry "
                         f"without '=' or starting with '=' must be ignored)")
        # what is stored: ret[<key>] = <value> with the key cut from data[pos:eq] (maybe
        # upper-cased on Windows) and the value from data[eq+1:nxt]; temporaries and
        # conditional spellings are looked through
        kv = {}
        for n_ in stores:
            st_ = n_.stmt
            for role, e_ in (("key", st_.targets[0].slice), ("value", st_.value)):
                def origins(x, seen=()):
                    # the expression itself, through `.upper()`, conditional spellings
                    # and ONE level of single-assignment names at a time
                    if isinstance(x, ast.IfExp):
                        return origins(x.body, seen) + origins(x.orelse, seen)
                    if isinstance(x, ast.Call) and isinstance(x.func, ast.Attribute) \
                            and x.func.attr in ("upper", "lower", "strip") and not x.args:
                        return origins(x.func.value, seen)
                    if isinstance(x, ast.Name) and x.id not in seen:
                        ds = [a_ for a_ in asg.get(x.id, []) if isinstance(a_, ast.Assign)]
                        out_ = []
                        for a_ in ds:
                            out_ += origins(a_.value, seen + (x.id,))
                        return out_ or [x]
                    return [x]
                sl_ = {norm_stmt(x).replace(" ", "") for x in origins(e_)
                       if isinstance(x, ast.Subscript) and isinstance(x.slice, ast.Slice)}
                kv.setdefault(role, set()).update(sl_)
        if kv.get("key") != {f"data[{pos}:{eq}]"} or kv.get("value") != {f"data[{eq}+1:{nxt}]"}:
            probs.append(f"key/value slices are { {k: sorted(v) for k, v in kv.items()} }")
    if probs:
        for i, pr in enumerate(probs):
            ctx.fail("C12.R3", f"environ:{i}:{pr[:30]}", pe.file, pe.node.lineno, pe.qual, pr)
    else:
        ctx.ok("C12.R3", "environ:stop", sample="next_pos <= pos -> break")
        ctx.ok("C12.R3", "environ:progress", sample="pos = next_pos + 1 each iteration")
        ctx.ok("C12.R3", "environ:assign", sample="ret[data[pos:eq]] = data[eq+1:next_pos] "
               "iff eq > pos (later duplicates overwrite)")

    # ------------------------------------------------------------------- R4
    ctx.rule("C12.R4", "name(): the kernel name is extended only when it is "
             "truncated (len >= 15) and the basename of cmdline()[0] starts with it; "
             "exe(): the cache is written only from the platform answer or the "
             "guess (absolute, regular, executable)", floor=3)
    nm = repo.func("psutil", "Process.name")
    ncfg = A.cfg(nm)
    ext = [n for n in ncfg.nodes if n.kind == "stmt" and isinstance(n.stmt, ast.Assign)
           and dotted(n.stmt.targets[0]) == "name" and dotted(n.stmt.value) == "extended_name"]
    good = False
    for n in ext:
        conds = []
        for e, p, _ in ncfg.guards(n):
            for a, t in decompose_guard(e, p):
                conds.append((norm_stmt(a).replace(" ", ""), t))
        if (f"len(name)>={O.TASK_COMM_LEN - 1}", True) in conds \
                and ("extended_name.startswith(name)", True) in conds \
                and ("cmdline", True) in conds:
            good = True
    en = [st for st in ast.walk(nm.node) if isinstance(st, ast.Assign)
          and dotted(st.targets[0]) == "extended_name"]
    src_ok = en and norm_stmt(en[0].value).replace(" ", "") == "os.path.basename(cmdline[0])"
    if good and src_ok:
        ctx.ok("C12.R4", "name-extension", sample="len(name) >= 15 and "
               "basename(cmdline[0]).startswith(name)")
    else:
        ctx.fail("C12.R4", "name-extension", nm.file, nm.node.lineno, nm.qual,
                 "the truncated-name extension is no longer guarded by len(name) >= 15, a "
                 "non-empty cmdline and basename(cmdline[0]).startswith(name)")
    # the extension is a nicety: when cmdline() is denied or the process is a zombie
    # (its cmdline is empty and the platform raises ZombieProcess) name() still answers
    # with the kernel's (truncated) name
    from ..core.astutil import enclosing_trys
    cl = [c for c in ast.walk(nm.node) if isinstance(c, ast.Call) and isinstance(c.func, ast.Attribute)
          and c.func.attr == "cmdline" and dotted(c.func.value) == "self"]
    okh = bool(cl)
    missing = set()
    for c in cl:
        st_ = next(s_ for s_ in ast.walk(nm.node) if isinstance(s_, ast.stmt)
                   and not isinstance(s_, (ast.Try, ast.If, ast.For, ast.While, ast.With,
                                           ast.FunctionDef, ast.AsyncFunctionDef))
                   and any(x is c for x in ast.walk(s_)))
        for cls_ in ("AccessDenied", "ZombieProcess"):
            if not any(handler_catches(h, [cls_]) for t_ in enclosing_trys(nm.node, st_)
                       for h in t_.handlers):
                okh = False
                missing.add(cls_)
    if okh:
        ctx.ok("C12.R4", "name:cmdline-unavailable", sample="self.cmdline() in try/except "
               "(AccessDenied, ZombieProcess): the kernel name is returned")
    else:
        ctx.fail("C12.R4", "name:cmdline-unavailable", nm.file, nm.node.lineno, nm.qual,
                 f"name() consults cmdline() without absorbing {sorted(missing) or 'its failures'}: "
                 f"for a zombie (or a denied cmdline) with a 15-character name it raises "
                 f"instead of returning the kernel's name")
    ex = repo.func("psutil", "Process.exe")
    writes = []
    for fi in repo.all_funcs("psutil"):
        if fi.cls in ("Process", "Popen"):
            for st in ast.walk(fi.node):
                if isinstance(st, ast.Assign) and dotted(st.targets[0]) == "self._exe":
                    writes.append((fi, st))
    bad = [f"{fi.qual}: {norm_stmt(st)}" for fi, st in writes
           if not (fi.qual == "Process._init" and norm_stmt(st.value) == "None")
           and not (fi.qual == "Process.exe" and dotted(st.value) == "exe")]
    if not bad and len(writes) >= 2:
        ctx.ok("C12.R4", "exe-cache", sample=[f"{fi.qual}: {norm_stmt(st)}" for fi, st in writes])
    else:
        ctx.fail("C12.R4", "exe-cache", ex.file, ex.node.lineno, ex.qual,
                 f"the exe cache is written elsewhere: {bad}")
    # the guess lives in a closure of exe(), in a private method it calls, or inline:
    # wherever `cmdline()[0]` is turned into an answer, that return is guarded by
    # isabs, isfile and access(X_OK) on the very value returned
    cands = [f_ for f_ in repo.all_funcs("psutil") if f_.cls == "Process"
             and (f_ is ex or (f_.parent is not None and f_.parent is ex)
                  or any(isinstance(c_.func, ast.Attribute) and c_.func.attr == f_.name
                         and dotted(c_.func.value) == "self" for c_ in ast.walk(ex.node)
                         if isinstance(c_, ast.Call)))
             and any(isinstance(c_, ast.Call) and isinstance(c_.func, ast.Attribute)
                     and c_.func.attr == "cmdline" for c_ in ast.walk(f_.node))]
    gok = False
    gi = cands[0] if cands else ex
    for f_ in cands:
        gcfg = A.cfg(f_)
        for n in [n for n in gcfg.nodes if n.kind == "return" and n.stmt.value is not None
                  and not isinstance(n.stmt.value, ast.Constant)]:
            v_ = norm_stmt(n.stmt.value).replace(" ", "")
            conds = set()
            for e, p, _ in gcfg.guards(n):
                for a, t in decompose_guard(e, p):
                    conds.add((norm_stmt(a).replace(" ", ""), t))
            if {(f"os.path.isabs({v_})", True), (f"os.path.isfile({v_})", True),
                    (f"os.access({v_},os.X_OK)", True)} <= conds:
                gok = True
                gi = f_
    if gok:
        ctx.ok("C12.R4", "exe-guess", sample="cmdline[0] if absolute, regular and executable")
    else:
        ctx.fail("C12.R4", "exe-guess", gi.file, gi.node.lineno, gi.qual,
                 "the cmdline-based exe guess is no longer restricted to an absolute path "
                 "of an existing executable file")
    ctx.assume("the space-splitting heuristic of cmdline(), trailing-argument handling and "
               "byte decoding are value-level and are not decided")
    return ("Who-may-call inventory of os.readlink, abstract interpretation of the "
            "link clean-up and of cmdline's separator logic, loop-progress rule for "
            "parse_environ_block, control dependence of the name/exe heuristics.",
            "who-may-call, abstract interpretation, loop variant (progress) rule, control "
            "dependence")
