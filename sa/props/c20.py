"""C20 - every platform layer keeps the same error contract and record layout.

None of this code runs on the Linux host of the test suite: it is decided from
the source of _psbsd/_psosx/_pssunos/_psaix/_pswindows and (textually) of the
matching C files."""

import ast
import os
import re

from ..core import ctext
from ..core.analysis import Analysis
from ..core.escape import Escape, Exc, State
from ..core.cfg import decompose_guard
from ..core.pyrepo import Repo, calls_in, dotted, eval_cond, norm_stmt, platform_flags
from ..core.report import AnalysisError
from ..oracles import platforms as P

PLATS = ["freebsd", "openbsd", "netbsd", "macos", "sunos", "aix", "windows"]

# reasoned exceptions to R1: (module, method) -> reason
R1_EXCEPTIONS = {
    ("_psaix", "Process.open_files"):
        "parses the output of the `procfiles` subprocess and raises NoSuchProcess "
        "itself; errno failures there are about the helper binary, not the process",
}


def frontend_attrs(repo, A, plat):
    out = set()
    for fi in repo.all_funcs("psutil"):
        if A.defined(fi, plat) is False:
            continue
        dead = A.dead_nodes(fi, plat)
        for n in ast.walk(fi.node):
            if isinstance(n, ast.Attribute) and dotted(n.value) == "self._proc" \
                    and id(n) not in dead:
                out.add(n.attr)
    return out


def run(ctx):
    repo = Repo(ctx.repo)
    A = Analysis(repo)
    ctx.stat("platform_modules", sorted(set(P.PLATFORM_MODULES.values())))

    # ------------------------------------------------------------------- R1
    ctx.rule("C20.R1", "translation coverage per platform: no 'no such process' / "
             "permission failure raised by a native or OS call taking the object's "
             "pid escapes a Process method untranslated", floor=150)
    nsites = 0
    for plat in PLATS:
        pm = P.PLATFORM_MODULES[plat]
        E = Escape(repo, A, plat)
        used = frontend_attrs(repo, A, plat)
        armed = P.ARMED[pm]
        for name, fs in sorted(repo.methods(pm, "Process").items()):
            if name.startswith("__"):
                continue
            if not (name in used or not name.startswith("_")):
                continue
            for f in fs:
                if A.defined(f, plat) is False:
                    continue
                es = E.escapes(f)
                bad = sorted({x for x in es if x.cls in armed and x.origin in ("process", "param")})
                key = f"{plat}:{f.qual}"
                if (pm, f.qual) in R1_EXCEPTIONS:
                    ctx.assume(f"{pm}:{f.qual}: " + R1_EXCEPTIONS[(pm, f.qual)])
                    bad = []
                if bad:
                    for x in bad:
                        ctx.fail("C20.R1", f"{pm}:{f.qual}:{x.cls}@{x.site.split(':', 2)[2]}",
                                 f.file, f.node.lineno, f.qual,
                                 f"[{plat}] {x.cls} from {x.site} escapes {f.qual}() "
                                 f"untranslated (no wrap_exceptions frame on that path)")
                else:
                    raw = E.escapes(f, decorated=False)
                    ctx.ok("C20.R1", key, nontrivial=bool(raw),
                           sample={"platform": plat, "method": f.fq,
                                   "escapes": sorted({x.cls for x in es})} if len(ctx.samples) < 8 else None)
        nsites += len([1 for v in E.sites.values() if v in ("process", "param")])
    ctx.stat("per_process_access_sites", nsites)
    # procfs accesses on platforms whose wrap_exceptions does not translate ENOENT
    # (BSD: NetBSD reads /proc/<pid>/exe): a vanished process shows up there as
    # FileNotFoundError, so the access itself must sit under a translation - the
    # module's procfs context manager or a local handler
    from ..core.astutil import enclosing_trys, handler_catches, path_templates
    for pm in sorted(set(P.PLATFORM_MODULES.values())):
        if "FileNotFoundError" in P.ARMED.get(pm, ()) or pm == "_pslinux":
            continue
        for f in repo.all_funcs(pm):
            if f.cls != "Process":
                continue
            for c_ in [x for x in ast.walk(f.node) if isinstance(x, ast.Call)]:
                nm_ = dotted(c_.func) or ""
                if nm_ not in ("os.readlink", "os.listdir", "os.stat", "open", "open_binary",
                               "open_text", "cat", "bcat") or not c_.args:
                    continue
                tm_ = path_templates(repo, f, c_.args[0])
                if not any(t_.startswith("/proc/") and "{self.pid}" in t_ for t_ in tm_):
                    continue
                stmt_ = next(s_ for s_ in ast.walk(f.node) if isinstance(s_, ast.stmt)
                             and not isinstance(s_, (ast.Try, ast.If, ast.FunctionDef, ast.With,
                                                     ast.For, ast.While))
                             and any(x is c_ for x in ast.walk(s_)))
                covered = any(handler_catches(h, ["FileNotFoundError"])
                              for t_ in enclosing_trys(f.node, stmt_) for h in t_.handlers)
                for w_ in [x for x in ast.walk(f.node) if isinstance(x, ast.With)]:
                    if any(y is stmt_ for b_ in w_.body for y in ast.walk(b_)):
                        for it_ in w_.items:
                            cm_ = it_.context_expr
                            if isinstance(cm_, ast.Call):
                                g_ = repo.func(pm, dotted(cm_.func) or "", required=False)
                                if g_ is not None and any(
                                        handler_catches(h, ["FileNotFoundError"])
                                        for t_ in ast.walk(g_.node) if isinstance(t_, ast.Try)
                                        for h in t_.handlers):
                                    covered = True
                key = f"procfs-enoent:{pm}:{f.qual}"
                if covered:
                    ctx.ok("C20.R1", key, sample=f"{f.qual}: {sorted(tm_)[0]} under an ENOENT translation")
                else:
                    ctx.fail("C20.R1", key, f.file, c_.lineno, f.qual,
                             f"[{pm}] `{norm_stmt(c_)[:60]}` reads procfs but {pm}.wrap_exceptions does not "
                             f"translate ENOENT: when the process is gone (or a zombie) the bare "
                             f"FileNotFoundError escapes {f.qual}() instead of NoSuchProcess / ZombieProcess")

    # ------------------------------------------------------------------- R2
    ctx.rule("C20.R2", "translator matrix: per platform, each OS error class comes "
             "out of wrap_exceptions exactly as documented (ESRCH -> Zombie | "
             "NoSuchProcess, EPERM/EACCES -> AccessDenied, others unchanged; PID-0 "
             "clause on BSD and Solaris only), carrying (pid, name); is_zombie() agrees "
             "with the platform's own status table", floor=24)
    for pm, table in P.TRANSLATOR.items():
        plat = [k for k, v in P.PLATFORM_MODULES.items() if v == pm][0]
        E = Escape(repo, A, plat)
        w = repo.func(pm, "wrap_exceptions.wrapper")
        for cls, want in table.items():
            st = State(w, fun_raises={Exc(cls, "process", "probe")})
            got = {(x.cls, x.origin) for x in E._body(w, st)}
            # system-wide helpers used by the PID-0 clause (pids()) and argument
            # conversion are outside the matrix
            got = {g for g in got if g[0] not in ("OverflowError",) and g[1] != "system"}
            key = f"{pm}:{cls}"
            if got == want:
                ctx.ok("C20.R2", key, sample={pm: {cls: sorted(map(str, got))}})
            else:
                ctx.fail("C20.R2", key, w.file, w.node.lineno, w.qual,
                         f"[{pm}] a {cls} from the wrapped method comes out as "
                         f"{sorted(got)}; contract: {sorted(want)}")
        # constructor arguments
        bad = []
        srcs = {}
        for st_ in ast.walk(w.node):
            if isinstance(st_, ast.Assign) and isinstance(st_.targets[0], ast.Tuple) \
                    and isinstance(st_.value, ast.Tuple):
                for a, b in zip(st_.targets[0].elts, st_.value.elts):
                    srcs[dotted(a)] = dotted(b)
            elif isinstance(st_, ast.Assign) and len(st_.targets) == 1 \
                    and isinstance(st_.targets[0], ast.Name) and dotted(st_.value):
                srcs.setdefault(st_.targets[0].id, dotted(st_.value))
        for r in ast.walk(w.node):
            if isinstance(r, ast.Raise) and isinstance(r.exc, ast.Call):
                cn = dotted(r.exc.func)
                if cn in ("AccessDenied", "NoSuchProcess", "ZombieProcess"):
                    a = [srcs.get(dotted(x), dotted(x)) for x in r.exc.args[:2]]
                    kw = {k.arg: srcs.get(dotted(k.value), dotted(k.value)) for k in r.exc.keywords}
                    pid = a[0] if a else kw.get("pid")
                    nm = a[1] if len(a) > 1 else kw.get("name")
                    if pid != "self.pid" or nm != "self._name":
                        bad.append(f"{cn}({pid}, {nm})")
                    if cn == "ZombieProcess":
                        pp = srcs.get(dotted(r.exc.args[2]), None) if len(r.exc.args) > 2 \
                            else kw.get("ppid")
                        if pp != "self._ppid":
                            bad.append(f"ZombieProcess ppid={pp}")
        # constructor ROLES, everywhere in the module (methods raise these directly
        # too): NoSuchProcess(pid, name[, msg]) and AccessDenied(pid, name[, msg]) take
        # a message third - only ZombieProcess(pid, name, ppid) takes the parent pid
        for fi_ in repo.all_funcs(pm):
            for r in ast.walk(fi_.node):
                if isinstance(r, ast.Raise) and isinstance(r.exc, ast.Call) \
                        and dotted(r.exc.func) in ("NoSuchProcess", "AccessDenied") \
                        and len(r.exc.args) >= 3:
                    third = r.exc.args[2]
                    d3 = dotted(third) or ""
                    src3 = srcs.get(d3, d3)
                    if "ppid" in d3.lower() or "ppid" in (src3 or "").lower() \
                            or (isinstance(third, ast.Constant) and not isinstance(third.value, str)):
                        ctx.fail("C20.R2", f"{pm}:ctor-roles:{fi_.qual}", fi_.file, r.lineno, fi_.qual,
                                 f"`{norm_stmt(r.exc)}`: the third parameter of "
                                 f"{dotted(r.exc.func)} is the MESSAGE; passing the parent pid makes "
                                 f"str(exc) raise TypeError (only ZombieProcess takes a ppid)")
        if bad:
            ctx.fail("C20.R2", f"{pm}:args", w.file, w.node.lineno, w.qual,
                     f"[{pm}] translated errors do not carry (self.pid, self._name"
                     f"[, self._ppid]): {bad}")
        else:
            ctx.ok("C20.R2", f"{pm}:args", nontrivial=(pm != "_pswindows"),
                   sample=f"{pm}: (pid, name[, ppid]) from the instance")
    _zombie_recognition(ctx, repo)
    _pid0_clause(ctx, repo, A)
    _no_swallowed_denial(ctx, repo)
    cv = repo.func("_pswindows", "convert_oserror")
    rets = [norm_stmt(r.value).replace(" ", "") for r in ast.walk(cv.node)
            if isinstance(r, ast.Return)]
    if "AccessDenied(pid=pid,name=name)" in rets and "NoSuchProcess(pid=pid,name=name)" in rets:
        ctx.ok("C20.R2", "_pswindows:convert", sample=rets)
    else:
        ctx.fail("C20.R2", "_pswindows:convert", cv.file, cv.node.lineno, cv.qual,
                 f"convert_oserror builds {rets}: must carry pid and name")

    # ------------------------------------------------------------------- R3
    ctx.rule("C20.R3", "decorators are applied to functions: wrap_exceptions(...) "
             "never receives a value", floor=5)
    for pm in sorted(set(P.PLATFORM_MODULES.values()) | {"_pslinux"}):
        n = 0
        for fi in repo.all_funcs(pm):
            for c in calls_in(fi.node):
                if dotted(c.func) == "wrap_exceptions" and c.args:
                    a = c.args[0]
                    n += 1
                    if isinstance(a, (ast.Name, ast.Lambda)) or \
                            (isinstance(a, ast.Attribute)):
                        ctx.ok("C20.R3", f"{pm}:{fi.qual}:call", nontrivial=False)
                    else:
                        ctx.fail("C20.R3", f"{pm}:{fi.qual}:{norm_stmt(a)}", fi.file, c.lineno,
                                 fi.qual,
                                 f"`{norm_stmt(c)}` wraps a VALUE, not a function: the result "
                                 f"is a wrapper object, so the comparison/use that follows "
                                 f"never sees the record slot")
        ndec = sum(1 for f in repo.all_funcs(pm) if "wrap_exceptions" in f.decorators)
        ctx.ok("C20.R3", f"{pm}:decorators", sample={pm: f"{ndec} decorated methods, "
                                                     f"{n} direct calls"})

    # ------------------------------------------------------------------- R4
    ctx.rule("C20.R4", "each method builds the documented named tuple "
             "(uids->puids, gids->pgids, cpu_times->pcputimes, ...)", floor=40)
    ntnames = set()
    for mn, m in repo.modules.items():
        for name, vals in m.assigns.items():
            if any(isinstance(v, ast.Call) and dotted(v.func) in ("namedtuple",
                                                                  "collections.namedtuple")
                   for v in vals):
                ntnames.add(name)
    for pm in sorted(set(P.PLATFORM_MODULES.values()) | {"_pslinux"}):
        for meth, want in P.METHOD_TUPLE.items():
            for f in repo.funcs(pm, f"Process.{meth}"):
                used = set()
                for c in calls_in(f.node):
                    d = dotted(c.func)
                    if d and d.split(".")[-1] in ntnames:
                        used.add(d.split(".")[-1])
                # one level: helper returning the tuple
                key = f"{pm}:{meth}"
                if not used:
                    continue
                if used <= {want} | ({"pmem"} if want == "pfullmem" else set()):
                    ctx.ok("C20.R4", key, sample={f"{pm}.{meth}": sorted(used)})
                else:
                    ctx.fail("C20.R4", key, f.file, f.node.lineno, f.qual,
                             f"{pm}.Process.{meth}() builds {sorted(used)}; the documented "
                             f"tuple is {want} (repr, type and field names of the result "
                             f"are wrong for this platform)")

    # ------------------------------------------------------------------- R5
    ctx.rule("C20.R5", "record slot agreement: each one-shot map is a bijection onto "
             "0..n-1, n equals the number of format units and of arguments of the C "
             "Py_BuildValue for every #if configuration, and each key's slot holds "
             "the C expression of that role; the Windows memory record agrees between "
             "the C builder, the access-denied fallback and pmem", floor=67)
    for pm, mapname, cfile, cfunc, cfgs, roles in P.ONESHOT:
        m = repo.mod(pm)
        mp = None
        for v in m.assigns.get(mapname, []):
            if isinstance(v, ast.Call) and dotted(v.func) == "dict":
                mp = {k.arg: k.value.value for k in v.keywords if isinstance(k.value, ast.Constant)}
            elif isinstance(v, ast.Dict):
                mp = {k.value: x.value for k, x in zip(v.keys, v.values)}
        if mp is None:
            raise AnalysisError(f"{pm}.{mapname} vanished")
        n = len(mp)
        if sorted(mp.values()) == list(range(n)):
            ctx.ok("C20.R5", f"{pm}.{mapname}:bijection", sample={mapname: n})
        else:
            ctx.fail("C20.R5", f"{pm}.{mapname}:bijection", m.rel, 0, mapname,
                     f"{mapname} values {sorted(mp.values())} are not 0..{n - 1}")
        path = os.path.join(ctx.repo, "psutil", cfile)
        if not os.path.exists(path):
            raise AnalysisError(f"C source missing: psutil/{cfile}")
        raw = ctext.strip_comments(open(path, encoding="utf-8", errors="replace").read())
        for defs in cfgs:
            cfgname = "+".join(sorted(k for k in defs if k.startswith(("PSUTIL_", "_WIN"))
                                      or "version" in k.lower())) + \
                ("@%d" % defs["__FreeBSD_version"] if "__FreeBSD_version" in defs else "")
            src = ctext.preprocess(raw, defs)
            body = ctext.function_body(src, cfunc)
            if body is None:
                raise AnalysisError(f"{cfile}: function {cfunc} not found")
            bvs = [c for c in ctext.calls(body, "Py_BuildValue") if len(c[0]) > 3]
            if not bvs:
                raise AnalysisError(f"{cfile}:{cfunc}: no record-building Py_BuildValue")
            args = bvs[-1][0]
            units = ctext.format_units(args[0])
            cargs = args[1:]
            key = f"{pm}.{mapname}:{cfgname}"
            if len(units) == len(cargs) == n:
                ctx.ok("C20.R5", key + ":arity", sample={"config": cfgname, "slots": n})
            else:
                ctx.fail("C20.R5", key + ":arity", f"psutil/{cfile}", 0, cfunc,
                         f"[{cfgname}] {cfunc} builds {len(units)} format units / "
                         f"{len(cargs)} arguments but {pm}.{mapname} has {n} slots")
                continue
            for k, idx in mp.items():
                pat = roles.get(k)
                if pat is None:
                    ctx.fail("C20.R5", key + f":{k}", m.rel, 0, mapname,
                             f"{mapname} key {k!r} has no role in the oracle")
                    continue
                if re.search(pat, cargs[idx]):
                    ctx.ok("C20.R5", key + f":{k}", nontrivial=(defs is cfgs[0]))
                else:
                    ctx.fail("C20.R5", key + f":{k}", f"psutil/{cfile}", 0, cfunc,
                             f"[{cfgname}] slot {idx} read by Python as {k!r} is built from "
                             f"`{cargs[idx]}` in C (expected an expression matching "
                             f"/{pat}/): the Python map and the C builder disagree")
        # advisory: duplicated C expressions in distinct slots
        if pm == "_psbsd":
            ctx.advisory("C20.R5: FreeBSD/OpenBSD/NetBSD fill the 'saved gid' slot from "
                         "the saved *uid* member (ki_svuid/p_svuid) - outside the property "
                         "statement")

    _windows_meminfo(ctx, repo)
    _windows_fallbacks(ctx, repo)

    # ------------------------------------------------------------------- R6
    ctx.rule("C20.R6", "front-end post-processing takes effect: the result of a pure "
             "call (namedtuple._replace, str.replace, ...) is never discarded", floor=1)
    pure = {"_replace", "replace", "strip", "lower", "upper", "format", "join", "split",
            "encode", "decode", "copy", "union", "difference"}
    nchecked = 0
    for mn in ("psutil", "_common"):
        for fi in repo.all_funcs(mn):
            for st in ast.walk(fi.node):
                if isinstance(st, ast.Expr) and isinstance(st.value, ast.Call) \
                        and isinstance(st.value.func, ast.Attribute) \
                        and st.value.func.attr in pure:
                    ctx.fail("C20.R6", f"{fi.fq}:{norm_stmt(st)}", fi.file, st.lineno, fi.qual,
                             f"`{norm_stmt(st)}`: the value returned by "
                             f".{st.value.func.attr}() is discarded, so the computed "
                             f"result never reaches what the function returns")
                elif isinstance(st, (ast.Assign, ast.Return)) and isinstance(
                        getattr(st, "value", None), ast.Call) and isinstance(
                        st.value.func, ast.Attribute) and st.value.func.attr in pure:
                    nchecked += 1
    nia = repo.func("psutil", "net_if_addrs")
    repl = [c for c in calls_in(nia.node) if isinstance(c.func, ast.Attribute)
            and c.func.attr == "_replace"]
    if repl:
        ctx.ok("C20.R6", "net_if_addrs:broadcast",
               sample="the Windows broadcast address is bound to the record")
        # ... for IPv4 AND IPv6 records (the documented behaviour): the families the
        # guard of that computation admits
        ncfg = A.cfg(nia)
        fams = set()
        for c_ in repl:
            for n_ in ncfg.owners(c_):
                for e_, p_, _ in ncfg.guards(n_):
                    for a_, t_ in decompose_guard(e_, p_):
                        if isinstance(a_, ast.Compare) and len(a_.ops) == 1 and t_ is True:
                            op_, r_ = a_.ops[0], a_.comparators[0]
                            if isinstance(op_, ast.In) and isinstance(r_, (ast.Set, ast.Tuple, ast.List)):
                                fams |= {dotted(x) for x in r_.elts}
                            elif isinstance(op_, ast.Eq):
                                fams |= {dotted(r_), dotted(a_.left)}
                        elif isinstance(a_, ast.BoolOp) and isinstance(a_.op, ast.Or) and t_ is True:
                            for v_ in a_.values:
                                if isinstance(v_, ast.Compare) and isinstance(v_.ops[0], ast.Eq):
                                    fams |= {dotted(v_.comparators[0]), dotted(v_.left)}
        fams = {f_.split(".")[-1] for f_ in fams if f_ and "AF_" in f_}
        if {"AF_INET", "AF_INET6"} <= fams:
            ctx.ok("C20.R6", "net_if_addrs:broadcast-families", sample=sorted(fams))
        else:
            ctx.fail("C20.R6", "net_if_addrs:broadcast-families", nia.file, repl[0].lineno, nia.qual,
                     f"the Windows broadcast address is computed only for {sorted(fams) or 'no family'}: "
                     f"the documented post-processing covers IPv4 and IPv6 records")
    ctx.ok("C20.R6", "pure-calls", sample=f"{nchecked} pure-call results are bound/returned")
    # MAC padding flows into the record: the variable in the address slot of the
    # snicaddr(...) record is the one a padding loop (`while v.count(sep) < 5:
    # v += ...`) extends - inline, or in a helper whose result is bound to it
    def padded_vars(fnode):
        out = set()
        for w in ast.walk(fnode):
            if not isinstance(w, ast.While):
                continue
            cnt = [c for c in ast.walk(w.test) if isinstance(c, ast.Call)
                   and isinstance(c.func, ast.Attribute) and c.func.attr == "count"
                   and isinstance(c.func.value, ast.Name)]
            for c in cnt:
                v = c.func.value.id
                if any(isinstance(a, ast.AugAssign) and isinstance(a.op, ast.Add)
                       and isinstance(a.target, ast.Name) and a.target.id == v
                       or isinstance(a, ast.Assign) and len(a.targets) == 1
                       and isinstance(a.targets[0], ast.Name) and a.targets[0].id == v
                       and isinstance(a.value, ast.BinOp) and isinstance(a.value.op, ast.Add)
                       and isinstance(a.value.left, ast.Name) and a.value.left.id == v
                       for b in w.body for a in ast.walk(b)):
                    out.add(v)
        return out
    padders = {}
    for g in repo.all_funcs("psutil"):
        if g is nia or g.parent is not None and g.parent is not nia:
            continue
        pv = padded_vars(g.node)
        rets = [r.value for r in ast.walk(g.node) if isinstance(r, ast.Return) and r.value is not None]
        params = [a.arg for a in g.node.args.args]
        if pv and rets and all(isinstance(r, ast.Name) and r.id in pv for r in rets) \
                and any(v in params for v in pv):
            padders[g.name] = params.index(next(v for v in params if v in pv))
    slot = set()
    for c in calls_in(nia.node):
        if (dotted(c.func) or "").split(".")[-1] == "snicaddr" and len(c.args) >= 2 \
                and isinstance(c.args[1], ast.Name):
            slot.add(c.args[1].id)
    flows = padded_vars(nia.node) & slot
    for st in ast.walk(nia.node):
        if isinstance(st, ast.Assign) and len(st.targets) == 1 \
                and isinstance(st.targets[0], ast.Name) and st.targets[0].id in slot \
                and isinstance(st.value, ast.Call):
            nm = (dotted(st.value.func) or "").split(".")[-1]
            if nm in padders and len(st.value.args) > padders[nm]:
                flows.add(st.targets[0].id)
    ctx.require(slot, "net_if_addrs(): the snicaddr(...) record construction vanished")
    if flows:
        ctx.ok("C20.R6", "net_if_addrs:mac-padding", nontrivial=False,
               sample=f"padded `{sorted(flows)[0]}` is the address slot of snicaddr")
    else:
        ctx.fail("C20.R6", "net_if_addrs:mac-padding", nia.file, nia.node.lineno, nia.qual,
                 "the padded MAC address no longer flows into the snicaddr record")

    # ------------------------------------------------------------------- R7
    ctx.rule("C20.R7", "promised names exist: every function/method whose "
             "documentation says 'Availability: <platforms>' is (maybe-)defined on "
             "each of those platforms", floor=15)
    docs = os.path.join(ctx.repo, "docs", "index.rst")
    if not os.path.exists(docs):
        raise AnalysisError("docs/index.rst missing")
    entries = _availability(open(docs, encoding="utf-8").read())
    ctx.require(len(entries) >= 15, f"only {len(entries)} Availability annotations parsed")
    for kind, names, plats in entries:
        for name in names:
            for plat in plats:
                key = f"{kind}:{name}:{plat}"
                if kind == "method":
                    fs = repo.funcs("psutil", f"Process.{name}")
                    vals = [A.defined(f, plat) for f in fs]
                    ok = any(v is not False for v in vals)
                    if ok:
                        # the platform layer must provide what the front end calls
                        pm = {**P.PLATFORM_MODULES, "linux": "_pslinux"}[plat]
                        need = set()
                        for f in fs:
                            if A.defined(f, plat) is False:
                                continue
                            dead = A.dead_nodes(f, plat)
                            for n_ in ast.walk(f.node):
                                if isinstance(n_, ast.Attribute) and \
                                        dotted(n_.value) == "self._proc" and id(n_) not in dead:
                                    need.add(n_.attr)
                        missing = [x for x in need if not repo._method(pm, "Process", x)
                                   and x not in ("_name", "pid", "_ppid")
                                   and not x.startswith("_get_eligible")]
                        if missing:
                            ok = False
                elif kind == "function":
                    fs = repo.funcs("psutil", name)
                    ok = any(A.defined(f, plat) is not False for f in fs) or \
                        _module_level_name(repo, A, name, plat)
                else:
                    ok = _module_level_name(repo, A, name, plat) or name.startswith("RLIM")
                if ok:
                    ctx.ok("C20.R7", key, nontrivial=(kind != "data"),
                           sample={"name": name, "platform": plat} if len(ctx.samples) < 30 else None)
                else:
                    ctx.fail("C20.R7", key, "psutil/__init__.py", 0, name,
                             f"docs/index.rst promises {kind} {name} on {plat} but the "
                             f"package does not define it there")
    ctx.assume("non-Linux C sources are read textually (no headers here): only "
               "Py_BuildValue formats/arguments are extracted, per #if configuration")
    ctx.assume("native functions taking the object's pid may fail with ESRCH/EPERM/EACCES")
    return ("For each of 7 non-Linux platform configurations: exception-escape "
            "analysis of every Process method, class-by-class evaluation of the "
            "platform's translator against the documented matrix, AST rules for "
            "decorator misuse / discarded pure results / named-tuple types, text-level "
            "extraction of the C record builders (with a #if evaluator) compared slot by "
            "slot with the Python maps through a role table, and the documentation's "
            "Availability annotations against the three-valued platform evaluator.",
            "exception-escape analysis per platform, translator table evaluation, "
            "cross-language slot agreement (text extraction), platform evaluator")


def _availability(rst):
    """[(kind, [names], [platform configs])] from docs/index.rst."""
    out = []
    cur = []
    lines = rst.split("\n")
    for i, line in enumerate(lines):
        m = re.match(r"\s*\.\. (function|method|data|class):: ([\w.]+)", line)
        if m:
            kind, name = m.group(1), m.group(2)
            prev_dir = i > 0 and re.match(r"\s*\.\. (function|method|data)::", lines[i - 1])
            if not prev_dir:
                cur = []
            cur.append((kind, name.split(".")[-1]))
            continue
        m = re.match(r"\s*Availability:\s*(.*)", line)
        if m and cur:
            words = re.split(r"[,\s]+", m.group(1).split(".")[0])
            plats = []
            for w in words:
                w = w.strip().lower().rstrip("+")
                if w in P.DOC_PLATFORMS:
                    for p in P.DOC_PLATFORMS[w]:
                        if p not in plats:
                            plats.append(p)
            kinds = {k for k, _ in cur}
            for k in kinds:
                if k == "class":
                    continue
                out.append((k, [n for kk, n in cur if kk == k], plats))
            cur = []
    return out


def _module_level_name(repo, A, name, plat):
    """Is `name` bound at the top level of psutil/__init__.py on `plat`?"""
    flags = platform_flags(plat)
    m = repo.mod("psutil")
    found = [False]

    def walk(body):
        for st in body:
            if isinstance(st, ast.If):
                v = A._eval(st.test, flags, plat, "psutil")
                if v is not False:
                    walk(st.body)
                if v is not True:
                    walk(st.orelse)
            elif isinstance(st, ast.Assign):
                for t in st.targets:
                    if dotted(t) == name:
                        found[0] = True
            elif isinstance(st, ast.ImportFrom):
                for a in st.names:
                    if (a.asname or a.name) == name:
                        found[0] = True
            elif isinstance(st, (ast.FunctionDef, ast.ClassDef)) and st.name == name:
                found[0] = True
            elif isinstance(st, ast.Try):
                walk(st.body)
    walk(m.tree.body)
    return found[0]


def _module_table(mod, name, flags):
    """The dict literal bound to `name` at module level under the platform
    flags (following if/elif chains), as {key text: value text}."""
    from ..core.pyrepo import eval_cond
    found = [None]

    def body(stmts):
        for st in stmts:
            if isinstance(st, ast.If):
                v = eval_cond(st.test, flags)
                if v is True:
                    body(st.body)
                elif v is False:
                    body(st.orelse)
                else:
                    body(st.body)
                    body(st.orelse)
            elif isinstance(st, ast.Assign) and dotted(st.targets[0]) == name \
                    and isinstance(st.value, ast.Dict):
                found[0] = {norm_stmt(k): norm_stmt(v) for k, v in zip(st.value.keys, st.value.values)}
    body(mod.tree.body)
    return found[0]


def _zombie_recognition(ctx, repo):
    """ESRCH becomes ZombieProcess iff is_zombie(pid): the raw states for which
    is_zombie() answers True must be exactly those the platform's own status
    table calls STATUS_ZOMBIE (OpenBSD reports zombies as SDEAD)."""
    from ..core.pyrepo import platform_flags
    n = 0
    for plat, pm in sorted(P.PLATFORM_MODULES.items()):
        f = repo.func(pm, "is_zombie", required=False)
        if f is None:
            continue
        mod = repo.mod(pm)
        table = _module_table(mod, "PROC_STATUSES", platform_flags(plat))
        key = f"zombie-recognition:{plat}"
        if table is None:
            ctx.fail("C20.R2", key, f.file, f.node.lineno, f.qual,
                     f"[{plat}] PROC_STATUSES table not found")
            continue
        n += 1
        ztab = {k for k, v in table.items() if v.endswith("STATUS_ZOMBIE")}
        rets = [r.value for r in ast.walk(f.node) if isinstance(r, ast.Return)
                and not (isinstance(r.value, ast.Constant) and r.value.value is False)]
        zfn = None
        for r in rets:
            if isinstance(r, ast.Compare) and len(r.ops) == 1:
                l, rr = r.left, r.comparators[0]
                if isinstance(r.ops[0], ast.Eq):
                    for a, b in ((l, rr), (rr, l)):
                        if norm_stmt(b).endswith("STATUS_ZOMBIE") and "PROC_STATUSES" in norm_stmt(a):
                            zfn = set(ztab)              # looked up in the table itself
                        elif dotted(b) and dotted(b).startswith("cext.") and dotted(b).split(".")[-1].isupper() \
                                and (isinstance(a, ast.Name) or "status" in norm_stmt(a)):
                            zfn = {dotted(b)}
                elif isinstance(r.ops[0], ast.In) and isinstance(rr, (ast.Tuple, ast.Set, ast.List)):
                    zfn = {dotted(x) for x in rr.elts}
        if zfn is None:
            ctx.advisory(f"C20.R2 {key}: is_zombie() has a form this rule does not know; "
                         f"not decided")
            ctx.ok("C20.R2", key, sample="not decided", nontrivial=False)
        elif zfn == ztab:
            ctx.ok("C20.R2", key, sample={plat: sorted(ztab)})
        else:
            ctx.fail("C20.R2", key, f.file, f.node.lineno, f.qual,
                     f"[{plat}] is_zombie() recognises {sorted(zfn)} but the platform's status "
                     f"table reports {sorted(ztab)} as STATUS_ZOMBIE: an ESRCH on a PID in state "
                     f"{sorted(ztab - zfn) or sorted(zfn - ztab)} is translated to "
                     f"NoSuchProcess instead of ZombieProcess (or vice versa)")
    ctx.require(n >= 4, f"only {n} platform configurations with is_zombie() found")


def _windows_meminfo(ctx, repo):
    """Windows memory_info(): three producers of one positional record must agree -
    the C builder, the access-denied fallback rebuilt from proc_info(), and the
    pmem field order that memory_info() fills from it."""
    pm = "_pswindows"
    m = repo.mod(pm)
    fields = None
    for v in m.assigns.get("pmem", []):
        if isinstance(v, ast.Call) and len(v.args) > 1 and isinstance(v.args[1], (ast.List, ast.Tuple)):
            fields = [e.value for e in v.args[1].elts if isinstance(e, ast.Constant)]
    if not fields or fields[:2] != ["rss", "vms"]:
        raise AnalysisError("_pswindows.pmem vanished or no longer starts with (rss, vms)")
    rest = fields[2:]
    want = [k for k, _ in P.WIN_MEMINFO]
    if rest == want:
        ctx.ok("C20.R5", "win-meminfo:pmem-fields", sample=rest)
    else:
        ctx.fail("C20.R5", "win-meminfo:pmem-fields", m.rel, 0, "pmem",
                 f"pmem fields after (rss, vms) are {rest}; documented {want}")

    def nk(x):
        x = x.lower().replace("_", "")
        return x[3:] if x.startswith("mem") else x
    # (1) the fallback tuple
    f = repo.func(pm, "Process._get_raw_meminfo")
    tup = None
    keys = None
    for r in ast.walk(f.node):
        if isinstance(r, ast.Return) and r.value is not None:
            ks_ = _pinfo_keys(repo, r.value)
            if ks_ is None and isinstance(r.value, ast.Tuple) and len(r.value.elts) > 3:
                ks_ = [_pinfo_key(x) for x in r.value.elts]
            if ks_ and len(ks_) > 3:
                tup, keys = r.value, ks_
    if tup is None:
        raise AnalysisError("_get_raw_meminfo: fallback record vanished")
    bad = [(i, k, rest[i] if i < len(rest) else None) for i, k in enumerate(keys)
           if i >= len(rest) or k is None or nk(k) != nk(rest[i])]
    if not bad and len(keys) == len(rest):
        ctx.ok("C20.R5", "win-meminfo:fallback", sample=keys)
    else:
        i, k, w = bad[0] if bad else (len(keys), None, None)
        ctx.fail("C20.R5", "win-meminfo:fallback", f.file, tup.lineno, f.qual,
                 f"the access-denied fallback puts pinfo_map[{k!r}] in slot {i}, which "
                 f"memory_info() reports as {w!r}: the fallback path and the direct path "
                 f"disagree on the record layout")
    # (2) the C builder, both word sizes
    path = os.path.join(ctx.repo, "psutil", "arch", "windows", "proc.c")
    if not os.path.exists(path):
        raise AnalysisError("C source missing: psutil/arch/windows/proc.c")
    raw = ctext.strip_comments(open(path, encoding="utf-8", errors="replace").read())
    for defs in ({"PSUTIL_WINDOWS": 1, "_WIN64": 1}, {"PSUTIL_WINDOWS": 1}):
        cfgname = "win64" if "_WIN64" in defs else "win32"
        body = ctext.function_body(ctext.preprocess(raw, defs), "psutil_proc_memory_info")
        if body is None:
            raise AnalysisError("psutil_proc_memory_info not found")
        bvs = [c for c in ctext.calls(body, "Py_BuildValue") if len(c[0]) > 3]
        if not bvs:
            raise AnalysisError("psutil_proc_memory_info: no record-building Py_BuildValue")
        cargs = bvs[-1][0][1:]
        probs = []
        if len(cargs) != len(P.WIN_MEMINFO):
            probs.append(f"{len(cargs)} slots, documented {len(P.WIN_MEMINFO)}")
        else:
            for i, (k, pat) in enumerate(P.WIN_MEMINFO):
                if not re.search(pat, cargs[i]):
                    probs.append(f"slot {i} ({k}) is built from `{cargs[i].strip()}`")
        if probs:
            ctx.fail("C20.R5", f"win-meminfo:c-builder:{cfgname}", "psutil/arch/windows/proc.c",
                     0, "psutil_proc_memory_info", f"[{cfgname}] " + "; ".join(probs[:3]))
        else:
            ctx.ok("C20.R5", f"win-meminfo:c-builder:{cfgname}", sample=f"{len(cargs)} slots")
    # (3) memory_info(): rss / vms aliases and the splice
    mi = repo.func(pm, "Process.memory_info")
    idx = {}
    rec = None
    for st in ast.walk(mi.node):
        if isinstance(st, ast.Assign) and isinstance(st.value, ast.Subscript) \
                and isinstance(st.value.slice, ast.Constant) and isinstance(st.value.slice.value, int):
            idx[dotted(st.targets[0])] = (dotted(st.value.value), st.value.slice.value)
        if isinstance(st, ast.Assign) and isinstance(st.value, ast.Call) \
                and (dotted(st.value.func) or "").endswith("_get_raw_meminfo"):
            rec = dotted(st.targets[0])
    calls = [c for c in calls_in(mi.node) if dotted(c.func) == "pmem"]
    ok = False
    if calls and rec and len(calls[0].args) == 1 and isinstance(calls[0].args[0], ast.Starred):
        v = calls[0].args[0].value
        if isinstance(v, ast.BinOp) and isinstance(v.op, ast.Add) and isinstance(v.left, ast.Tuple) \
                and len(v.left.elts) == 2 and dotted(v.right) == rec:
            def slot(x):
                if isinstance(x, ast.Subscript) and isinstance(x.slice, ast.Constant) \
                        and isinstance(x.slice.value, int):
                    return (dotted(x.value), x.slice.value)
                return idx.get(dotted(x))
            a, b = (slot(x) for x in v.left.elts)
            if a and b and a[0] == b[0] == rec and 0 <= a[1] < len(rest) and 0 <= b[1] < len(rest) \
                    and rest[a[1]] == "wset" and rest[b[1]] == "pagefile":
                ok = True
    if ok:
        ctx.ok("C20.R5", "win-meminfo:aliases", sample="rss = wset slot, vms = pagefile slot")
    else:
        ctx.fail("C20.R5", "win-meminfo:aliases", mi.file, mi.node.lineno, mi.qual,
                 "memory_info() no longer builds pmem(rss=<wset slot>, vms=<pagefile slot>, "
                 "*record)")


def _pinfo_key(e):
    if isinstance(e, ast.Subscript) and isinstance(e.slice, ast.Subscript) \
            and dotted(e.slice.value) == "pinfo_map" and isinstance(e.slice.slice, ast.Constant):
        return e.slice.slice.value
    return None


def _pinfo_keys(repo, e):
    """The proc_info() field names a record expression is built from, in order:
    a tuple of `info[pinfo_map['k']]`, or a call `self.<sel>('k1', 'k2', ...)` of a
    selector method (`def sel(self, *names): ...; return tuple(info[pinfo_map[n]] for n
    in names)`).  None if the expression is neither."""
    if isinstance(e, ast.Tuple) and e.elts and all(_pinfo_key(x) for x in e.elts):
        return [_pinfo_key(x) for x in e.elts]
    if isinstance(e, ast.Call) and isinstance(e.func, ast.Attribute) and dotted(e.func.value) == "self" \
            and e.args and all(isinstance(a, ast.Constant) and isinstance(a.value, str) for a in e.args):
        for f_ in repo.funcs("_pswindows", f"Process.{e.func.attr}"):
            va = f_.node.args.vararg
            rets = [r for r in ast.walk(f_.node) if isinstance(r, ast.Return) and r.value is not None]
            if va is None or len(rets) != 1:
                continue
            v = rets[0].value
            if isinstance(v, ast.Call) and dotted(v.func) in ("tuple", "list") and v.args:
                v = v.args[0]
            if isinstance(v, (ast.GeneratorExp, ast.ListComp)) and len(v.generators) == 1 \
                    and dotted(v.generators[0].iter) == va.arg and not v.generators[0].ifs \
                    and isinstance(v.generators[0].target, ast.Name):
                el = v.elt
                tv = v.generators[0].target.id
                if isinstance(el, ast.Subscript) and isinstance(el.slice, ast.Subscript) \
                        and dotted(el.slice.value) == "pinfo_map" and dotted(el.slice.slice) == tv:
                    return [a.value for a in e.args]
    return None


def _windows_fallbacks(ctx, repo):
    """io_counters() / cpu_times() access-denied fallbacks: each slot rebuilt from
    proc_info() stands for the documented field at that position."""
    pm = "_pswindows"
    m = repo.mod(pm)

    def nt_fields(mod, name):
        for v in repo.mod(mod).assigns.get(name, []):
            if isinstance(v, ast.Call) and len(v.args) > 1 and isinstance(v.args[1], (ast.List, ast.Tuple)):
                return [e.value for e in v.args[1].elts if isinstance(e, ast.Constant)]
        return None
    # io_counters
    f = repo.func(pm, "Process.io_counters")
    fields = nt_fields(pm, "pio")
    tup = [st.value for st in ast.walk(f.node) if isinstance(st, ast.Assign)
           and _pinfo_keys(repo, st.value)]
    if not fields or not tup:
        raise AnalysisError("_pswindows io_counters fallback / pio vanished")
    keys = _pinfo_keys(repo, tup[0])
    got = [P.WIN_PINFO_FIELD.get(k) for k in keys]
    if got == fields:
        ctx.ok("C20.R5", "win-io:fallback", sample=keys)
    else:
        ctx.fail("C20.R5", "win-io:fallback", f.file, tup[0].lineno, f.qual,
                 f"the access-denied fallback fills pio{tuple(fields)} from {keys} "
                 f"(= {got}): slots are in the wrong order")
    # cpu_times
    f = repo.func(pm, "Process.cpu_times")
    calls = [c for c in calls_in(f.node) if (dotted(c.func) or "").endswith("pcputimes")]
    asg = {dotted(st.targets[0]): _pinfo_key(st.value) for st in ast.walk(f.node)
           if isinstance(st, ast.Assign) and _pinfo_key(st.value)}
    for st in ast.walk(f.node):
        if isinstance(st, ast.Assign) and isinstance(st.targets[0], ast.Tuple):
            ks_ = _pinfo_keys(repo, st.value)
            if ks_ and len(ks_) == len(st.targets[0].elts):
                for t_, k_ in zip(st.targets[0].elts, ks_):
                    asg[dotted(t_)] = k_
    want = nt_fields("_common", "pcputimes")
    if not calls or not want:
        raise AnalysisError("_pswindows cpu_times / pcputimes vanished")
    a = [dotted(x) for x in calls[0].args[:2]]
    got = [P.WIN_PINFO_FIELD.get(asg.get(x)) for x in a]
    if got == want[:2]:
        ctx.ok("C20.R5", "win-cputimes:fallback", sample={a[0]: asg.get(a[0]), a[1]: asg.get(a[1])})
    else:
        ctx.fail("C20.R5", "win-cputimes:fallback", f.file, calls[0].lineno, f.qual,
                 f"the access-denied fallback feeds pcputimes(user, system, ...) from "
                 f"{[asg.get(x) for x in a]}")


# handlers that absorb a permission failure by design (reviewed on the pinned tree)
SWALLOW_OK = {
    ("_pssunos", "Process.exe"): "exe() falls back to guessing the path from cmdline()",
    ("_pslinux", "Process._is_zombie"): "the zombie probe answers False when it cannot read",
}


def _no_swallowed_denial(ctx, repo):
    """A handler that covers PermissionError inside a Process method must let it
    out (re-raise / translate) on some path; one that absorbs it turns 'access
    denied' into an ordinary (wrong) answer."""
    from ..core.astutil import handler_catches
    n = 0
    for pm in sorted(set(P.PLATFORM_MODULES.values())):
        for f in repo.all_funcs(pm):
            if f.cls != "Process" or f.parent is not None:
                continue
            for t in ast.walk(f.node):
                if not isinstance(t, ast.Try):
                    continue
                for h in t.handlers:
                    if not handler_catches(h, ["PermissionError"]):
                        continue
                    n += 1
                    key = f"denial-not-absorbed:{pm}:{f.qual}:{norm_stmt(h.type) if h.type else 'bare'}"
                    raises = any(isinstance(x, ast.Raise) for b in h.body for x in ast.walk(b))
                    if raises:
                        ctx.ok("C20.R2", key, nontrivial=False)
                    elif (pm, f.qual) in SWALLOW_OK:
                        ctx.ok("C20.R2", key, sample=SWALLOW_OK[(pm, f.qual)], nontrivial=False)
                    else:
                        ctx.fail("C20.R2", key, f.file, h.lineno, f.qual,
                                 f"[{pm}] `except {norm_stmt(h.type) if h.type else ''}` in "
                                 f"{f.qual} absorbs a permission failure (and every other OS "
                                 f"error) without re-raising: the method returns an ordinary "
                                 f"value where AccessDenied is due")
    ctx.require(n >= 10, f"only {n} handlers covering PermissionError found")


def _pid0_clause(ctx, repo, A):
    """BSD / Solaris: an unexplained OSError becomes AccessDenied only for the
    EXISTING PID 0, i.e. when 0 is in the process list."""
    from ..core.cfg import decompose_guard
    for pm in ("_psbsd", "_pssunos"):
        w = repo.func(pm, "wrap_exceptions.wrapper")
        cfg = A.cfg(w)
        found = False
        for n in cfg.nodes:
            if n.kind != "raise" or not isinstance(n.stmt.exc, ast.Call) \
                    or dotted(n.stmt.exc.func) != "AccessDenied":
                continue
            atoms = [(a_, t_) for e, pol, _ in cfg.guards(n) for a_, t_ in decompose_guard(e, pol)]
            txt = [norm_stmt(a_).replace(" ", "") for a_, t_ in atoms if t_ is True]
            if not any(x in ("pid==0", "self.pid==0", "0==pid") for x in txt):
                continue        # the PermissionError branch
            found = True
            key = f"{pm}:pid0-listed"
            listed = any(isinstance(a_, ast.Compare) and len(a_.ops) == 1
                         and isinstance(a_.ops[0], ast.In) and t_ is True
                         and isinstance(a_.comparators[0], ast.Call)
                         and (dotted(a_.comparators[0].func) or "").split(".")[-1] == "pids"
                         for a_, t_ in atoms)
            other = [x for x in txt if x not in ("pid==0", "self.pid==0", "0==pid")]
            if listed:
                ctx.ok("C20.R2", key, sample="pid == 0 and 0 in pids() -> AccessDenied")
            elif any("pid_exists" in x for x in other):
                ctx.fail("C20.R2", key, w.file, n.line, w.qual,
                         f"[{pm}] the PID-0 clause asks pid_exists(0) instead of looking PID 0 "
                         f"up in pids(): the POSIX pid_exists() answers True for 0 without "
                         f"checking, so an OSError on a PID 0 that is NOT listed (jail, zone) "
                         f"is turned into AccessDenied instead of passing through")
            else:
                ctx.advisory(f"C20.R2 {key}: existence test `{other}` has a form this rule does "
                             f"not know; not decided")
                ctx.ok("C20.R2", key, sample="not decided", nontrivial=False)
        if not found:
            ctx.fail("C20.R2", f"{pm}:pid0-listed", w.file, w.node.lineno, w.qual,
                     f"[{pm}] the documented PID-0 clause (OSError on the listed PID 0 -> "
                     f"AccessDenied) vanished")
