"""C20 - every platform layer keeps the same error contract and record layout.

None of this code runs on the Linux host of the test suite: it is decided from
the source of _psbsd/_psosx/_pssunos/_psaix/_pswindows and (textually) of the
matching C files."""

import ast
import os
import re

from ..core import ctext
from ..core.analysis import Analysis
from ..core.escape import Escape, Exc, State
from ..core.pyrepo import Repo, calls_in, dotted, eval_cond, norm_stmt, platform_flags
from ..core.report import AnalysisError
from ..oracles import platforms as P

PLATS = ["freebsd", "openbsd", "netbsd", "macos", "sunos", "aix", "windows"]

# reasoned exceptions to R1: (module, method) -> reason
R1_EXCEPTIONS = {
    ("_psaix", "Process.open_files"):
        "parses the output of the `procfiles` subprocess and raises NoSuchProcess "
        "itself; errno failures there are about the helper binary, not the process",
}


def frontend_attrs(repo, A, plat):
    out = set()
    for fi in repo.all_funcs("psutil"):
        if A.defined(fi, plat) is False:
            continue
        dead = A.dead_nodes(fi, plat)
        for n in ast.walk(fi.node):
            if isinstance(n, ast.Attribute) and dotted(n.value) == "self._proc" \
                    and id(n) not in dead:
                out.add(n.attr)
    return out


def run(ctx):
    repo = Repo(ctx.repo)
    A = Analysis(repo)
    ctx.stat("platform_modules", sorted(set(P.PLATFORM_MODULES.values())))

    # ------------------------------------------------------------------- R1
    ctx.rule("C20.R1", "translation coverage per platform: no 'no such process' / "
             "permission failure raised by a native or OS call taking the object's "
             "pid escapes a Process method untranslated", floor=150)
    nsites = 0
    for plat in PLATS:
        pm = P.PLATFORM_MODULES[plat]
        E = Escape(repo, A, plat)
        used = frontend_attrs(repo, A, plat)
        armed = P.ARMED[pm]
        for name, fs in sorted(repo.methods(pm, "Process").items()):
            if name.startswith("__"):
                continue
            if not (name in used or not name.startswith("_")):
                continue
            for f in fs:
                if A.defined(f, plat) is False:
                    continue
                es = E.escapes(f)
                bad = sorted({x for x in es if x.cls in armed and x.origin in ("process", "param")})
                key = f"{plat}:{f.qual}"
                if (pm, f.qual) in R1_EXCEPTIONS:
                    ctx.assume(f"{pm}:{f.qual}: " + R1_EXCEPTIONS[(pm, f.qual)])
                    bad = []
                if bad:
                    for x in bad:
                        ctx.fail("C20.R1", f"{pm}:{f.qual}:{x.cls}@{x.site.split(':', 2)[2]}",
                                 f.file, f.node.lineno, f.qual,
                                 f"[{plat}] {x.cls} from {x.site} escapes {f.qual}() "
                                 f"untranslated (no wrap_exceptions frame on that path)")
                else:
                    raw = E.escapes(f, decorated=False)
                    ctx.ok("C20.R1", key, nontrivial=bool(raw),
                           sample={"platform": plat, "method": f.fq,
                                   "escapes": sorted({x.cls for x in es})} if len(ctx.samples) < 8 else None)
        nsites += len([1 for v in E.sites.values() if v in ("process", "param")])
    ctx.stat("per_process_access_sites", nsites)

    # ------------------------------------------------------------------- R2
    ctx.rule("C20.R2", "translator matrix: per platform, each OS error class comes "
             "out of wrap_exceptions exactly as documented (ESRCH -> Zombie | "
             "NoSuchProcess, EPERM/EACCES -> AccessDenied, others unchanged; PID-0 "
             "clause on BSD and Solaris only), carrying (pid, name)", floor=20)
    for pm, table in P.TRANSLATOR.items():
        plat = [k for k, v in P.PLATFORM_MODULES.items() if v == pm][0]
        E = Escape(repo, A, plat)
        w = repo.func(pm, "wrap_exceptions.wrapper")
        for cls, want in table.items():
            st = State(w, fun_raises={Exc(cls, "process", "probe")})
            got = {(x.cls, x.origin) for x in E._body(w, st)}
            # system-wide helpers used by the PID-0 clause (pids()) and argument
            # conversion are outside the matrix
            got = {g for g in got if g[0] not in ("OverflowError",) and g[1] != "system"}
            key = f"{pm}:{cls}"
            if got == want:
                ctx.ok("C20.R2", key, sample={pm: {cls: sorted(map(str, got))}})
            else:
                ctx.fail("C20.R2", key, w.file, w.node.lineno, w.qual,
                         f"[{pm}] a {cls} from the wrapped method comes out as "
                         f"{sorted(got)}; contract: {sorted(want)}")
        # constructor arguments
        bad = []
        srcs = {}
        for st_ in ast.walk(w.node):
            if isinstance(st_, ast.Assign) and isinstance(st_.targets[0], ast.Tuple) \
                    and isinstance(st_.value, ast.Tuple):
                for a, b in zip(st_.targets[0].elts, st_.value.elts):
                    srcs[dotted(a)] = dotted(b)
        for r in ast.walk(w.node):
            if isinstance(r, ast.Raise) and isinstance(r.exc, ast.Call):
                cn = dotted(r.exc.func)
                if cn in ("AccessDenied", "NoSuchProcess", "ZombieProcess"):
                    a = [srcs.get(dotted(x), dotted(x)) for x in r.exc.args[:2]]
                    kw = {k.arg: srcs.get(dotted(k.value), dotted(k.value)) for k in r.exc.keywords}
                    pid = a[0] if a else kw.get("pid")
                    nm = a[1] if len(a) > 1 else kw.get("name")
                    if pid != "self.pid" or nm != "self._name":
                        bad.append(f"{cn}({pid}, {nm})")
                    if cn == "ZombieProcess":
                        pp = srcs.get(dotted(r.exc.args[2]), None) if len(r.exc.args) > 2 \
                            else kw.get("ppid")
                        if pp != "self._ppid":
                            bad.append(f"ZombieProcess ppid={pp}")
        if bad:
            ctx.fail("C20.R2", f"{pm}:args", w.file, w.node.lineno, w.qual,
                     f"[{pm}] translated errors do not carry (self.pid, self._name"
                     f"[, self._ppid]): {bad}")
        else:
            ctx.ok("C20.R2", f"{pm}:args", nontrivial=(pm != "_pswindows"),
                   sample=f"{pm}: (pid, name[, ppid]) from the instance")
    cv = repo.func("_pswindows", "convert_oserror")
    rets = [norm_stmt(r.value).replace(" ", "") for r in ast.walk(cv.node)
            if isinstance(r, ast.Return)]
    if "AccessDenied(pid=pid,name=name)" in rets and "NoSuchProcess(pid=pid,name=name)" in rets:
        ctx.ok("C20.R2", "_pswindows:convert", sample=rets)
    else:
        ctx.fail("C20.R2", "_pswindows:convert", cv.file, cv.node.lineno, cv.qual,
                 f"convert_oserror builds {rets}: must carry pid and name")

    # ------------------------------------------------------------------- R3
    ctx.rule("C20.R3", "decorators are applied to functions: wrap_exceptions(...) "
             "never receives a value", floor=5)
    for pm in sorted(set(P.PLATFORM_MODULES.values()) | {"_pslinux"}):
        n = 0
        for fi in repo.all_funcs(pm):
            for c in calls_in(fi.node):
                if dotted(c.func) == "wrap_exceptions" and c.args:
                    a = c.args[0]
                    n += 1
                    if isinstance(a, (ast.Name, ast.Lambda)) or \
                            (isinstance(a, ast.Attribute)):
                        ctx.ok("C20.R3", f"{pm}:{fi.qual}:call", nontrivial=False)
                    else:
                        ctx.fail("C20.R3", f"{pm}:{fi.qual}:{norm_stmt(a)}", fi.file, c.lineno,
                                 fi.qual,
                                 f"`{norm_stmt(c)}` wraps a VALUE, not a function: the result "
                                 f"is a wrapper object, so the comparison/use that follows "
                                 f"never sees the record slot")
        ndec = sum(1 for f in repo.all_funcs(pm) if "wrap_exceptions" in f.decorators)
        ctx.ok("C20.R3", f"{pm}:decorators", sample={pm: f"{ndec} decorated methods, "
                                                     f"{n} direct calls"})

    # ------------------------------------------------------------------- R4
    ctx.rule("C20.R4", "each method builds the documented named tuple "
             "(uids->puids, gids->pgids, cpu_times->pcputimes, ...)", floor=40)
    ntnames = set()
    for mn, m in repo.modules.items():
        for name, vals in m.assigns.items():
            if any(isinstance(v, ast.Call) and dotted(v.func) in ("namedtuple",
                                                                  "collections.namedtuple")
                   for v in vals):
                ntnames.add(name)
    for pm in sorted(set(P.PLATFORM_MODULES.values()) | {"_pslinux"}):
        for meth, want in P.METHOD_TUPLE.items():
            for f in repo.funcs(pm, f"Process.{meth}"):
                used = set()
                for c in calls_in(f.node):
                    d = dotted(c.func)
                    if d and d.split(".")[-1] in ntnames:
                        used.add(d.split(".")[-1])
                # one level: helper returning the tuple
                key = f"{pm}:{meth}"
                if not used:
                    continue
                if used <= {want} | ({"pmem"} if want == "pfullmem" else set()):
                    ctx.ok("C20.R4", key, sample={f"{pm}.{meth}": sorted(used)})
                else:
                    ctx.fail("C20.R4", key, f.file, f.node.lineno, f.qual,
                             f"{pm}.Process.{meth}() builds {sorted(used)}; the documented "
                             f"tuple is {want} (repr, type and field names of the result "
                             f"are wrong for this platform)")

    # ------------------------------------------------------------------- R5
    ctx.rule("C20.R5", "record slot agreement: each one-shot map is a bijection onto "
             "0..n-1, n equals the number of format units and of arguments of the C "
             "Py_BuildValue for every #if configuration, and each key's slot holds "
             "the C expression of that role", floor=60)
    for pm, mapname, cfile, cfunc, cfgs, roles in P.ONESHOT:
        m = repo.mod(pm)
        mp = None
        for v in m.assigns.get(mapname, []):
            if isinstance(v, ast.Call) and dotted(v.func) == "dict":
                mp = {k.arg: k.value.value for k in v.keywords if isinstance(k.value, ast.Constant)}
            elif isinstance(v, ast.Dict):
                mp = {k.value: x.value for k, x in zip(v.keys, v.values)}
        if mp is None:
            raise AnalysisError(f"{pm}.{mapname} vanished")
        n = len(mp)
        if sorted(mp.values()) == list(range(n)):
            ctx.ok("C20.R5", f"{pm}.{mapname}:bijection", sample={mapname: n})
        else:
            ctx.fail("C20.R5", f"{pm}.{mapname}:bijection", m.rel, 0, mapname,
                     f"{mapname} values {sorted(mp.values())} are not 0..{n - 1}")
        path = os.path.join(ctx.repo, "psutil", cfile)
        if not os.path.exists(path):
            raise AnalysisError(f"C source missing: psutil/{cfile}")
        raw = ctext.strip_comments(open(path, encoding="utf-8", errors="replace").read())
        for defs in cfgs:
            cfgname = "+".join(sorted(k for k in defs if k.startswith(("PSUTIL_", "_WIN"))
                                      or "version" in k.lower())) + \
                ("@%d" % defs["__FreeBSD_version"] if "__FreeBSD_version" in defs else "")
            src = ctext.preprocess(raw, defs)
            body = ctext.function_body(src, cfunc)
            if body is None:
                raise AnalysisError(f"{cfile}: function {cfunc} not found")
            bvs = [c for c in ctext.calls(body, "Py_BuildValue") if len(c[0]) > 3]
            if not bvs:
                raise AnalysisError(f"{cfile}:{cfunc}: no record-building Py_BuildValue")
            args = bvs[-1][0]
            units = ctext.format_units(args[0])
            cargs = args[1:]
            key = f"{pm}.{mapname}:{cfgname}"
            if len(units) == len(cargs) == n:
                ctx.ok("C20.R5", key + ":arity", sample={"config": cfgname, "slots": n})
            else:
                ctx.fail("C20.R5", key + ":arity", f"psutil/{cfile}", 0, cfunc,
                         f"[{cfgname}] {cfunc} builds {len(units)} format units / "
                         f"{len(cargs)} arguments but {pm}.{mapname} has {n} slots")
                continue
            for k, idx in mp.items():
                pat = roles.get(k)
                if pat is None:
                    ctx.fail("C20.R5", key + f":{k}", m.rel, 0, mapname,
                             f"{mapname} key {k!r} has no role in the oracle")
                    continue
                if re.search(pat, cargs[idx]):
                    ctx.ok("C20.R5", key + f":{k}", nontrivial=(defs is cfgs[0]))
                else:
                    ctx.fail("C20.R5", key + f":{k}", f"psutil/{cfile}", 0, cfunc,
                             f"[{cfgname}] slot {idx} read by Python as {k!r} is built from "
                             f"`{cargs[idx]}` in C (expected an expression matching "
                             f"/{pat}/): the Python map and the C builder disagree")
        # advisory: duplicated C expressions in distinct slots
        if pm == "_psbsd":
            ctx.advisory("C20.R5: FreeBSD/OpenBSD/NetBSD fill the 'saved gid' slot from "
                         "the saved *uid* member (ki_svuid/p_svuid) - outside the property "
                         "statement, not decided")

    # ------------------------------------------------------------------- R6
    ctx.rule("C20.R6", "front-end post-processing takes effect: the result of a pure "
             "call (namedtuple._replace, str.replace, ...) is never discarded", floor=1)
    pure = {"_replace", "replace", "strip", "lower", "upper", "format", "join", "split",
            "encode", "decode", "copy", "union", "difference"}
    nchecked = 0
    for mn in ("psutil", "_common"):
        for fi in repo.all_funcs(mn):
            for st in ast.walk(fi.node):
                if isinstance(st, ast.Expr) and isinstance(st.value, ast.Call) \
                        and isinstance(st.value.func, ast.Attribute) \
                        and st.value.func.attr in pure:
                    ctx.fail("C20.R6", f"{fi.fq}:{norm_stmt(st)}", fi.file, st.lineno, fi.qual,
                             f"`{norm_stmt(st)}`: the value returned by "
                             f".{st.value.func.attr}() is discarded, so the computed "
                             f"result never reaches what the function returns")
                elif isinstance(st, (ast.Assign, ast.Return)) and isinstance(
                        getattr(st, "value", None), ast.Call) and isinstance(
                        st.value.func, ast.Attribute) and st.value.func.attr in pure:
                    nchecked += 1
    nia = repo.func("psutil", "net_if_addrs")
    repl = [c for c in calls_in(nia.node) if isinstance(c.func, ast.Attribute)
            and c.func.attr == "_replace"]
    if repl:
        ctx.ok("C20.R6", "net_if_addrs:broadcast",
               sample="the Windows broadcast address is bound to the record")
    ctx.ok("C20.R6", "pure-calls", sample=f"{nchecked} pure-call results are bound/returned")
    # MAC padding flows into the record
    txt = norm_stmt(nia.node)
    if "addr += f'{separator}00'" in txt and "snicaddr(fam, addr, mask, broadcast, ptp)" in txt:
        ctx.ok("C20.R6", "net_if_addrs:mac-padding", nontrivial=False)
    else:
        ctx.fail("C20.R6", "net_if_addrs:mac-padding", nia.file, nia.node.lineno, nia.qual,
                 "the padded MAC address no longer flows into the snicaddr record")

    # ------------------------------------------------------------------- R7
    ctx.rule("C20.R7", "promised names exist: every function/method whose "
             "documentation says 'Availability: <platforms>' is (maybe-)defined on "
             "each of those platforms", floor=15)
    docs = os.path.join(ctx.repo, "docs", "index.rst")
    if not os.path.exists(docs):
        raise AnalysisError("docs/index.rst missing")
    entries = _availability(open(docs, encoding="utf-8").read())
    ctx.require(len(entries) >= 15, f"only {len(entries)} Availability annotations parsed")
    for kind, names, plats in entries:
        for name in names:
            for plat in plats:
                key = f"{kind}:{name}:{plat}"
                if kind == "method":
                    fs = repo.funcs("psutil", f"Process.{name}")
                    vals = [A.defined(f, plat) for f in fs]
                    ok = any(v is not False for v in vals)
                    if ok:
                        # the platform layer must provide what the front end calls
                        pm = {**P.PLATFORM_MODULES, "linux": "_pslinux"}[plat]
                        need = set()
                        for f in fs:
                            if A.defined(f, plat) is False:
                                continue
                            dead = A.dead_nodes(f, plat)
                            for n_ in ast.walk(f.node):
                                if isinstance(n_, ast.Attribute) and \
                                        dotted(n_.value) == "self._proc" and id(n_) not in dead:
                                    need.add(n_.attr)
                        missing = [x for x in need if not repo._method(pm, "Process", x)
                                   and x not in ("_name", "pid", "_ppid")
                                   and not x.startswith("_get_eligible")]
                        if missing:
                            ok = False
                elif kind == "function":
                    fs = repo.funcs("psutil", name)
                    ok = any(A.defined(f, plat) is not False for f in fs) or \
                        _module_level_name(repo, A, name, plat)
                else:
                    ok = _module_level_name(repo, A, name, plat) or name.startswith("RLIM")
                if ok:
                    ctx.ok("C20.R7", key, nontrivial=(kind != "data"),
                           sample={"name": name, "platform": plat} if len(ctx.samples) < 30 else None)
                else:
                    ctx.fail("C20.R7", key, "psutil/__init__.py", 0, name,
                             f"docs/index.rst promises {kind} {name} on {plat} but the "
                             f"package does not define it there")
    ctx.assume("non-Linux C sources are read textually (no headers here): only "
               "Py_BuildValue formats/arguments are extracted, per #if configuration")
    ctx.assume("native functions taking the object's pid may fail with ESRCH/EPERM/EACCES")
    return ("For each of 7 non-Linux platform configurations: exception-escape "
            "analysis of every Process method, class-by-class evaluation of the "
            "platform's translator against the documented matrix, AST rules for "
            "decorator misuse / discarded pure results / named-tuple types, text-level "
            "extraction of the C record builders (with a #if evaluator) compared slot by "
            "slot with the Python maps through a role table, and the documentation's "
            "Availability annotations against the three-valued platform evaluator.",
            "exception-escape analysis per platform, translator table evaluation, "
            "cross-language slot agreement (text extraction), platform evaluator")


def _availability(rst):
    """[(kind, [names], [platform configs])] from docs/index.rst."""
    out = []
    cur = []
    lines = rst.split("\n")
    for i, line in enumerate(lines):
        m = re.match(r"\s*\.\. (function|method|data|class):: ([\w.]+)", line)
        if m:
            kind, name = m.group(1), m.group(2)
            prev_dir = i > 0 and re.match(r"\s*\.\. (function|method|data)::", lines[i - 1])
            if not prev_dir:
                cur = []
            cur.append((kind, name.split(".")[-1]))
            continue
        m = re.match(r"\s*Availability:\s*(.*)", line)
        if m and cur:
            words = re.split(r"[,\s]+", m.group(1).split(".")[0])
            plats = []
            for w in words:
                w = w.strip().lower().rstrip("+")
                if w in P.DOC_PLATFORMS:
                    for p in P.DOC_PLATFORMS[w]:
                        if p not in plats:
                            plats.append(p)
            kinds = {k for k, _ in cur}
            for k in kinds:
                if k == "class":
                    continue
                out.append((k, [n for kk, n in cur if kk == k], plats))
            cur = []
    return out


def _module_level_name(repo, A, name, plat):
    """Is `name` bound at the top level of psutil/__init__.py on `plat`?"""
    flags = platform_flags(plat)
    m = repo.mod("psutil")
    found = [False]

    def walk(body):
        for st in body:
            if isinstance(st, ast.If):
                v = A._eval(st.test, flags, plat, "psutil")
                if v is not False:
                    walk(st.body)
                if v is not True:
                    walk(st.orelse)
            elif isinstance(st, ast.Assign):
                for t in st.targets:
                    if dotted(t) == name:
                        found[0] = True
            elif isinstance(st, ast.ImportFrom):
                for a in st.names:
                    if (a.asname or a.name) == name:
                        found[0] = True
            elif isinstance(st, (ast.FunctionDef, ast.ClassDef)) and st.name == name:
                found[0] = True
            elif isinstance(st, ast.Try):
                walk(st.body)
    walk(m.tree.body)
    return found[0]
