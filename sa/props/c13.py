"""C13 - process memory figures are consistent with the kernel's per-mapping accounting."""

import ast
import re

from ..core.absint import Interp, alternatives, pretty
from ..core.analysis import Analysis, facts
from ..core.astutil import deref, handler_catches
from ..core.forms import NotPolynomial, Poly, Rat, canon, expand, srcinfo, to_rat
from ..core.pyrepo import Repo, calls_in, dotted, norm_stmt
from ..core.report import AnalysisError
from ..oracles import linux as O
from .c06 import _regex_facts, collect


def run(ctx):
    repo = Repo(ctx.repo)
    A = Analysis(repo)
    pm = "_pslinux"
    I = Interp(repo, A)

    # ------------------------------------------------------------------- R1
    ctx.rule("C13.R1", "memory_info: each pmem field is the statm column proc(5) "
             "assigns to it, in pages * PAGESIZE", floor=7)
    mi = repo.func(pm, "Process.memory_info")
    t = canon(I.call_function(mi, []))
    nts = [a for a in alternatives(t) if a[0] == "nt"]
    ctx.require(nts, "memory_info(): not a pmem record")
    for fld, v in zip(nts[0][2], nts[0][3]):
        want = O.STATM.get(fld)
        key = f"pmem.{fld}"
        probs = []
        srcs = [srcinfo(a) for a in collect(v, lambda x: x and x[0] == "idx")]
        srcs = [d for d in srcs if d]
        if want is None:
            probs.append("field unknown to the oracle")
        elif len(srcs) != 1 or srcs[0]["file"] != "pid/statm" or srcs[0]["col"] != want \
                or srcs[0]["cut"] != ("line", 0):
            probs.append(f"reads {[(d['file'], d['col']) for d in srcs]}; proc(5): {fld} is "
                         f"statm column {want}")
        try:
            r = to_rat(v)
            at = [a for a in r.num.atoms() if a != "PAGESIZE"]
            if len(at) != 1 or not r.same(Rat(Poly.atom(at[0])) * Rat(Poly.atom("PAGESIZE"))):
                probs.append(f"value `{r!r}` is not pages * PAGESIZE")
        except NotPolynomial as e:
            probs.append(str(e))
        if probs:
            ctx.fail("C13.R1", key, mi.file, mi.node.lineno, mi.qual, f"{key}: " + "; ".join(probs))
        else:
            ctx.ok("C13.R1", key, sample={"field": fld, "statm_column": want})

    # ------------------------------------------------------------------- R2
    ctx.rule("C13.R2", "uss/pss/swap: the roll-up file and the per-mapping listing "
             "select the same keys (Private_*, Pss:, Swap:), both kB*1024, both in "
             "(uss, pss, swap) order; smaps regexes are line-anchored; ESRCH/ENOENT "
             "on the roll-up falls back to smaps; memory_full_info appends them to "
             "memory_info in pfullmem order", floor=8)
    ru = repo.func(pm, "Process._parse_smaps_rollup")
    sp = repo.func(pm, "Process._parse_smaps")
    tr = canon(I.call_function(ru, []))
    ts = canon(I.call_function(sp, []))
    keys = [("uss", b"Private_", "sum"), ("pss", b"Pss:", "last"), ("swap", b"Swap:", "last")]
    ctx.require(tr[0] == "tuple" and len(tr) == 4, f"_parse_smaps_rollup: {pretty(tr)[:80]}")
    ctx.require(ts[0] == "tuple" and len(ts) == 4, f"_parse_smaps: {pretty(ts)[:80]}")
    for i, (name, prefix, mode) in enumerate(keys):
        v = tr[1 + i]
        txt = pretty(v)
        key = f"rollup.{name}"
        probs = []
        sw = collect(v, lambda x: x and x[0] == "call" and x[1] == "startswith")
        pref = {s[3][1] for s in sw if len(s) > 3 and s[3][0] == "const"}
        if pref != {prefix}:
            probs.append(f"selects lines by {sorted(pref)}, expected {prefix!r}")
        srcs = [srcinfo(a) for a in collect(v, lambda x: x and x[0] == "idx")]
        srcs = [d for d in srcs if d]
        if not srcs or any(d["file"] != "pid/smaps_rollup" or d["col"] != 1 for d in srcs):
            probs.append("value is not column 1 of the smaps_rollup line")
        if mode == "sum" and not collect(v, lambda x: x and x[0] == "loopsum"):
            probs.append("Private_* lines are not summed")
        if "* 1024" not in txt:
            probs.append("kB not converted to bytes (*1024)")
        if probs:
            ctx.fail("C13.R2", key, ru.file, ru.node.lineno, ru.qual, f"{key}: " + "; ".join(probs))
        else:
            ctx.ok("C13.R2", key, sample={name: f"lines starting {prefix!r}, kB*1024"})
        # smaps side
        v2 = ts[1 + i]
        key = f"smaps.{name}"
        probs = []
        fa = collect(v2, lambda x: x and x[0] == "findall")
        if len(fa) != 1 or fa[0][1][0] != "const":
            probs.append("no single regex")
        else:
            pat = fa[0][1][1]
            anchored, width = _regex_facts(pat, fa[0][3] if len(fa[0]) > 3 else None)
            norm = pat.replace(b"\\n", b"").replace(b"\\:", b":").lstrip(b"^")
            wantp = {"uss": b"Private", "pss": b"Pss:", "swap": b"Swap:"}[name]
            if not anchored:
                probs.append(f"regex {pat!r} is not anchored at a line start (a mapping "
                             f"path or another key containing the word would match)")
            if not norm.startswith(wantp):
                probs.append(f"regex {pat!r} does not select the {wantp.decode()} key")
            if name != "uss" and b".*" in norm.split(b":")[0]:
                probs.append("matches more than one key")
            if "smaps'" not in pretty(fa[0][2]):
                probs.append("not applied to <pid>/smaps")
        if not (v2[0] == "bin" and v2[1] == "*" and ("const", 1024) in (v2[2], v2[3])
                and "sum(" in pretty(v2)):
            probs.append("not sum(...) * 1024")
        if probs:
            ctx.fail("C13.R2", key, sp.file, sp.node.lineno, sp.qual, f"{key}: " + "; ".join(probs))
        else:
            ctx.ok("C13.R2", key, sample={name: "anchored regex, sum * 1024"})
    mf = repo.func(pm, "Process.memory_full_info")
    tf = canon(I.call_function(mf, []))
    fn = [a for a in alternatives(tf) if a[0] == "nt"]
    ctx.require(fn, "memory_full_info(): not a pfullmem record")
    rec = dict(zip(fn[0][2], fn[0][3]))
    base_ok = all(pretty(rec[f]) == pretty(dict(zip(nts[0][2], nts[0][3]))[f]) for f in nts[0][2])
    order_ok = True
    for i, (name, prefix, mode) in enumerate(keys):
        alts = {pretty(a) for a in alternatives(rec[name]) if a != ("const", 0)}
        want = {pretty(a) for a in alternatives(tr[1 + i]) if a != ("const", 0)} | \
               {pretty(a) for a in alternatives(ts[1 + i]) if a != ("const", 0)}
        if not alts or not alts <= want:
            order_ok = False
    if base_ok and order_ok and tuple(fn[0][2][-3:]) == ("uss", "pss", "swap"):
        ctx.ok("C13.R2", "pfullmem", sample="pfullmem(*memory_info() + (uss, pss, swap))")
    else:
        ctx.fail("C13.R2", "pfullmem", mf.file, mf.node.lineno, mf.qual,
                 "memory_full_info does not append (uss, pss, swap) of the smaps "
                 "parsers to memory_info() in that order")
    # fallback handler
    # (in memory_full_info() itself or in a new helper it calls)
    scopes_ = [mf.node] + [h_.node for h_ in repo.new_helpers_called_from(pm, "Process.memory_full_info")]
    hs = [h for sc_ in scopes_ for tr_ in ast.walk(sc_) if isinstance(tr_, ast.Try)
          for h in tr_.handlers]
    good = any(handler_catches(h, ["ProcessLookupError"]) and handler_catches(h, ["FileNotFoundError"])
               and not handler_catches(h, ["PermissionError"])
               and any(isinstance(c.func, ast.Attribute) and c.func.attr == "_parse_smaps"
                       for b in h.body for c in calls_in(b)) for h in hs)
    # ... and the errors can actually REACH that handler: what escapes the roll-up
    # reader (decorators included) still contains the raw ENOENT and ESRCH
    from ..core.escape import Escape
    esc = {(x.cls, x.origin) for x in Escape(repo, A, "linux").escapes(ru)}
    raw = {c for c, o in esc if o in ("process", "alive") and c in ("ProcessLookupError",
                                                                   "FileNotFoundError")}
    if good and raw != {"ProcessLookupError", "FileNotFoundError"}:
        lost = sorted({"ProcessLookupError", "FileNotFoundError"} - raw)
        ctx.fail("C13.R2", "rollup-fallback", ru.file, ru.node.lineno, ru.qual,
                 f"{lost} raised while reading smaps_rollup no longer reach(es) "
                 f"memory_full_info()'s fallback handler (it is translated inside "
                 f"{ru.qual}, decorators {ru.decorators}): a live process whose roll-up "
                 f"file fails that way gets NoSuchProcess instead of the per-mapping sums")
    elif good:
        ctx.ok("C13.R2", "rollup-fallback", sample="ESRCH/ENOENT on smaps_rollup -> smaps")
    else:
        ctx.fail("C13.R2", "rollup-fallback", mf.file, mf.node.lineno, mf.qual,
                 "a roll-up file failing with ESRCH/ENOENT for a live process no longer "
                 "falls back to the per-mapping listing (or the handler became too "
                 "broad and hides a permission error)")

    # ------------------------------------------------------------------- R3
    ctx.rule("C13.R3", "memory_maps: bounded header split keeps paths with spaces; "
             "missing path -> [anon]; each figure is the smaps key named like the "
             "tuple field, kB*1024; ' (deleted)' stripped only for paths that do "
             "not exist (readlink() and memory_maps() agree)", floor=14)
    mm = repo.func(pm, "Process.memory_maps")
    # the HEADER split is the one whose result is unpacked into the six header
    # columns (address, perms, offset, dev, inode, path): it must be bounded by 5 so
    # that a path containing spaces stays whole.  Found anywhere in memory_maps(),
    # nested helpers included; other splits (key lines) are not constrained.
    allnodes = list(ast.walk(mm.node))
    for h_ in repo.new_helpers_called_from(pm, "Process.memory_maps"):
        allnodes += list(ast.walk(h_.node))     # a block generator lifted out of the method
    hsplits = []
    for st_ in allnodes:
        if isinstance(st_, ast.Assign) and isinstance(st_.targets[0], ast.Tuple) \
                and len(st_.targets[0].elts) == 6:
            v_ = deref(mm.node, st_.value)
            for fn_ in [x for x in allnodes if isinstance(x, ast.FunctionDef) and x is not mm.node]:
                if any(y is st_ for y in ast.walk(fn_)):
                    v_ = deref(fn_, st_.value)
            cands = [v_]
            if isinstance(v_, ast.Name):
                # assigned in several places (e.g. an inlined helper used twice): every
                # definition counts
                cands = [a_.value for a_ in allnodes if isinstance(a_, ast.Assign)
                         and any(isinstance(t_, ast.Name) and t_.id == v_.id for t_ in a_.targets)]
            for v2 in cands:
                if isinstance(v2, ast.BinOp):       # hfields + ['']
                    v2 = v2.left if not isinstance(v2.left, ast.List) else v2.right
                    if isinstance(v2, ast.Name):
                        continue
                if isinstance(v2, ast.Call) and isinstance(v2.func, ast.Attribute) \
                        and v2.func.attr == "split":
                    hsplits.append(v2)
    if not hsplits:
        # no six-way unpacking: the path is taken by index from some split result.
        # May-flow of UNBOUNDED split results (no maxsplit) through assignments,
        # containers, yields and loop targets of memory_maps() and its helpers: if one
        # can reach the record's path slot, a path with spaces is cut short
        fdefs = [x for x in allnodes if isinstance(x, (ast.FunctionDef,))]
        tainted, bounded = set(), set()

        def is_split(e, want_unbounded):
            if isinstance(e, ast.Call) and isinstance(e.func, ast.Attribute) and e.func.attr == "split":
                # whitespace splits only: `data.split(b'\n')` cuts the file into lines
                if e.args and not (isinstance(e.args[0], ast.Constant) and e.args[0].value is None):
                    return False
                ms = e.args[1] if len(e.args) > 1 else next(
                    (k.value for k in e.keywords if k.arg == "maxsplit"), None)
                unb = ms is None or (isinstance(ms, ast.Constant) and (ms.value is None or ms.value < 0))
                five = isinstance(ms, ast.Constant) and ms.value == 5
                return unb if want_unbounded else five
            return False

        def names_in(e):
            return {n.id for n in ast.walk(e) if isinstance(n, ast.Name)}

        def store_names(t):
            return {n.id for n in ast.walk(t) if isinstance(n, ast.Name)}
        for _ in range(6):
            for st_ in allnodes:
                srcs_, tgts_ = [], set()
                if isinstance(st_, ast.Assign):
                    srcs_, tgts_ = [st_.value], set().union(*[store_names(t) for t in st_.targets])
                elif isinstance(st_, ast.For):
                    srcs_, tgts_ = [st_.iter], store_names(st_.target)
                elif isinstance(st_, ast.Expr) and isinstance(st_.value, ast.Call) \
                        and isinstance(st_.value.func, ast.Attribute) \
                        and st_.value.func.attr in ("append", "add", "extend", "insert") \
                        and isinstance(st_.value.func.value, ast.Name):
                    srcs_, tgts_ = list(st_.value.args), {st_.value.func.value.id}
                elif isinstance(st_, ast.Expr) and isinstance(st_.value, (ast.Yield,)) \
                        and st_.value.value is not None:
                    g_ = next((f_ for f_ in fdefs if any(y is st_ for y in ast.walk(f_))), None)
                    if g_ is not None:
                        srcs_, tgts_ = [st_.value.value], {"<ret:" + g_.name + ">"}
                elif isinstance(st_, ast.Return) and st_.value is not None:
                    g_ = next((f_ for f_ in fdefs if f_ is not mm.node
                               and any(y is st_ for y in ast.walk(f_))), None)
                    if g_ is not None:
                        srcs_, tgts_ = [st_.value], {"<ret:" + g_.name + ">"}
                for e_ in srcs_:
                    hit_t = any(is_split(x, True) for x in ast.walk(e_)) or (names_in(e_) & tainted) \
                        or any(isinstance(x, ast.Call) and isinstance(x.func, ast.Name)
                               and "<ret:" + x.func.id + ">" in tainted for x in ast.walk(e_))
                    if hit_t:
                        tainted |= tgts_
                # arguments of calls to the nested helpers bind their parameters
                for c_ in [x for x in ast.walk(st_) if isinstance(x, ast.Call)
                           and isinstance(x.func, ast.Name)]:
                    g_ = next((f_ for f_ in fdefs if f_.name == c_.func.id), None)
                    if g_ is not None:
                        for a_, p_ in zip(c_.args, g_.args.args):
                            if any(is_split(x, True) for x in ast.walk(a_)) or (names_in(a_) & tainted):
                                tainted.add(p_.arg)
        item_ = [t_ for t_ in allnodes if isinstance(t_, ast.Tuple) and len(t_.elts) >= 10
                 and isinstance(t_.ctx, ast.Load)]
        pslot = item_[0].elts[2] if item_ else None
        pnames = names_in(pslot) if pslot is not None else set()
        # one assignment level back (path = decode(hfields[5]) ...)
        for _ in range(3):
            for st_ in allnodes:
                if isinstance(st_, ast.Assign) and (store_names(st_.targets[0]) & pnames):
                    pnames |= names_in(st_.value)
        if pslot is None:
            raise AnalysisError("memory_maps: neither a six-column header unpacking nor a result tuple")
        if pnames & tainted:
            ctx.fail("C13.R3", "split:header", mm.file, mm.node.lineno, mm.qual,
                     f"the mapping's path can come from an UNBOUNDED split() (via "
                     f"{sorted(pnames & tainted)}): a header line whose path contains spaces is "
                     f"cut at the first one; the header must be split at most 5 times")
        else:
            ctx.ok("C13.R3", "split:header", sample="no unbounded split result reaches the path slot")
    for c in hsplits:
        a = [norm_stmt(x) for x in c.args]
        key = "split:header"
        if a == ["None", "5"]:
            ctx.ok("C13.R3", key, sample=f"{norm_stmt(c)}")
        else:
            ctx.fail("C13.R3", key, mm.file, c.lineno, mm.qual,
                     f"`{norm_stmt(c)}`: the mapping header must be split at most 5 times "
                     f"so that a path containing spaces stays whole")
    # the listing is cut into lines at b'\n' only: the kernel escapes '\n' in a mapping's
    # path and nothing else, so `splitlines()` (which also cuts at '\r', and for text
    # at \x0b \x0c \x1c-\x1e \x85 \u2028 \u2029) breaks a header whose path holds one
    cuts = [c for c in calls_in(mm.node) if isinstance(c.func, ast.Attribute)
            and c.func.attr == "splitlines"]
    if cuts:
        ctx.fail("C13.R3", "line-cut", mm.file, cuts[0].lineno, mm.qual,
                 f"`{norm_stmt(cuts[0])}`: splitlines() also cuts at '\\r' (and more for text); "
                 f"a mapping whose path contains such a byte is split into two records. "
                 f"The kernel escapes only '\\n': cut with split(b'\\n') or iterate the file")
    else:
        ctx.ok("C13.R3", "line-cut", sample="no splitlines() on the smaps listing")
    # the per-mapping record: a >= 10-slot tuple literal, assigned or appended directly
    def expanded(t_):
        # (a, b, c, *[d.get(k, 0) for k in TABLE]) with TABLE a module-level tuple of
        # constants: the slots the comprehension produces, spelled out
        import copy as _copy
        out_ = []
        for e_ in t_.elts:
            if isinstance(e_, ast.Starred) and isinstance(e_.value, (ast.ListComp, ast.GeneratorExp)) \
                    and len(e_.value.generators) == 1 and not e_.value.generators[0].ifs \
                    and isinstance(e_.value.generators[0].target, ast.Name):
                g_ = e_.value.generators[0]
                tbl = g_.iter
                if isinstance(tbl, ast.Name):
                    vs_ = repo.mod(pm).assigns.get(tbl.id, [])
                    tbl = vs_[0] if len(vs_) == 1 else None
                if isinstance(tbl, (ast.Tuple, ast.List)) and all(isinstance(x, ast.Constant)
                                                                  for x in tbl.elts):
                    for k_ in tbl.elts:
                        el_ = _copy.deepcopy(e_.value.elt)
                        for n_ in ast.walk(el_):
                            for f_, v_ in ast.iter_fields(n_):
                                if isinstance(v_, list):
                                    for i_, x_ in enumerate(v_):
                                        if isinstance(x_, ast.Name) and x_.id == g_.target.id:
                                            v_[i_] = ast.copy_location(ast.Constant(k_.value), x_)
                                elif isinstance(v_, ast.Name) and v_.id == g_.target.id:
                                    setattr(n_, f_, ast.copy_location(ast.Constant(k_.value), v_))
                        out_.append(ast.copy_location(el_, e_))
                    continue
            out_.append(e_)
        return out_
    item = [t_ for t_ in ast.walk(mm.node) if isinstance(t_, ast.Tuple)
            and isinstance(t_.ctx, ast.Load) and len(expanded(t_)) >= 10]
    ctx.require(item, "memory_maps: result tuple vanished")
    elts = expanded(item[0])
    ext = I.namedtuples.get((pm, "pmmap_ext"))
    ctx.require(ext and len(ext) == len(elts),
                f"pmmap_ext has {len(ext or ())} fields but memory_maps builds {len(elts)}")
    heads = [norm_stmt(e) for e in elts[:3]]
    if heads == ["decode(addr)", "decode(perms)", "path"]:
        ctx.ok("C13.R3", "head", sample=heads)
    else:
        ctx.fail("C13.R3", "head", mm.file, item[0].lineno, mm.qual,
                 f"first three slots are {heads}, expected address, permissions, path")
    for fld, e in zip(ext[3:], elts[3:]):
        key = f"pmmap.{fld}"
        good = isinstance(e, ast.Call) and isinstance(e.func, ast.Attribute) \
            and e.func.attr == "get" and len(e.args) == 2 \
            and isinstance(e.args[0], ast.Constant) and isinstance(e.args[0].value, bytes) \
            and e.args[0].value.decode().rstrip(":").lower() == fld \
            and e.args[0].value.endswith(b":") \
            and isinstance(e.args[1], ast.Constant) and e.args[1].value == 0
        if good:
            ctx.ok("C13.R3", key, sample={fld: e.args[0].value.decode()})
        else:
            ctx.fail("C13.R3", key, mm.file, e.lineno, mm.qual,
                     f"pmmap field {fld} is filled from `{norm_stmt(e)}`; expected the "
                     f"smaps key {fld.title()!r} (default 0)")
    # figures: <map>[<tok>[0]] = int(<tok>[1]) * 1024 for one split result <tok>
    conv = False
    for st_ in allnodes:
        if isinstance(st_, ast.Assign) and isinstance(st_.targets[0], ast.Subscript):
            k_, v_ = st_.targets[0].slice, st_.value
            if isinstance(k_, ast.Subscript) and isinstance(k_.value, ast.Name) \
                    and norm_stmt(k_.slice) == "0" and isinstance(v_, ast.BinOp) \
                    and isinstance(v_.op, ast.Mult):
                sides = [v_.left, v_.right]
                c1024 = [x for x in sides if isinstance(x, ast.Constant) and x.value == 1024]
                ints = [x for x in sides if isinstance(x, ast.Call) and dotted(x.func) == "int"
                        and x.args and isinstance(x.args[0], ast.Subscript)
                        and dotted(x.args[0].value) == k_.value.id
                        and norm_stmt(x.args[0].slice) == "1"]
                if c1024 and ints:
                    conv = True
    if conv:
        ctx.ok("C13.R3", "kb", sample="data[fields[0]] = int(fields[1]) * 1024")
    else:
        ctx.fail("C13.R3", "kb", mm.file, mm.node.lineno, mm.qual,
                 "per-mapping figures are not int(value) * 1024 keyed by the smaps key")
    anon = [st for st in ast.walk(mm.node) if isinstance(st, ast.Assign)
            and isinstance(st.value, ast.Constant) and st.value.value == "[anon]"]
    cfg = A.cfg(mm)
    if anon and all(("truthy", "path", False) in facts(cfg, n)
                    for st in anon for n in cfg.nodes_of(st)):
        ctx.ok("C13.R3", "anon", sample="not path -> '[anon]'")
    else:
        ctx.fail("C13.R3", "anon", mm.file, mm.node.lineno, mm.qual,
                 "a mapping without a path is not reported as '[anon]'")

    # sibling rule (readlink() and memory_maps()): the kernel's ' (deleted)' mark is
    # stripped only when no file of that literal name exists
    from ..core.cfg import decompose_guard
    nstrip = 0
    for fi in repo.all_funcs(pm):
        if not any(isinstance(x, ast.Constant) and x.value == " (deleted)"
                   for x in ast.walk(fi.node)):
            continue
        # each function on its own CFG: the statements of a nested function belong to
        # that nested function, not to its parent
        fcfg = A.cfg(fi)
        nested_ = [x for x in ast.walk(fi.node) if isinstance(x, (ast.FunctionDef, ast.AsyncFunctionDef))
                   and x is not fi.node]
        own_ = [x for x in ast.walk(fi.node)
                if not any(x is not nf and any(y is x for y in ast.walk(nf)) for nf in nested_)]
        for st in own_:
            strip = None
            if isinstance(st, ast.Assign) and isinstance(st.value, ast.Subscript) \
                    and isinstance(st.value.slice, ast.Slice) \
                    and norm_stmt(deref(fi.node, st.value.slice)).replace(" ", "") in (
                        ":-10", ":-len('(deleted)')"):
                strip = st
            elif isinstance(st, ast.Assign) and isinstance(st.value, ast.Call) \
                    and isinstance(st.value.func, ast.Attribute) \
                    and st.value.func.attr in ("removesuffix", "replace") and st.value.args \
                    and isinstance(st.value.args[0], ast.Constant) \
                    and st.value.args[0].value == " (deleted)":
                strip = st
            if strip is None:
                continue
            nstrip += 1
            key = f"deleted-suffix:{fi.qual}"
            ends = exists = False
            for n in fcfg.nodes_of(strip):
                for e, pol, _ in fcfg.guards(n):
                    for atom, val in decompose_guard(e, pol):
                        txt = norm_stmt(deref(fi.node, atom))
                        if "endswith" in txt and "' (deleted)'" in txt and val:
                            ends = True
                        if isinstance(atom, ast.Call) and (dotted(atom.func) or "").split(".")[-1] in (
                                "path_exists_strict", "exists", "lexists", "isfile_strict") \
                                and val is False:
                            exists = True
            if ends and exists:
                ctx.ok("C13.R3", key, sample="strip only if endswith(' (deleted)') and the "
                       "path does not exist")
            else:
                ctx.fail("C13.R3", key, fi.file, strip.lineno, fi.qual,
                         "the ' (deleted)' suffix is stripped " +
                         ("without checking that no file of that name exists: a live file "
                          "literally named '... (deleted)' is reported under a truncated "
                          "path (and merged into its sibling's row when grouped)"
                          if ends else "without testing for the suffix"))
    ctx.require(nstrip >= 2, f"only {nstrip} ' (deleted)' strip sites found")

    # ------------------------------------------------------------------- R4
    ctx.rule("C13.R4", "grouping: rows are keyed by slot 2 (path) and slots 3.. are "
             "summed element-wise; pmmap_ext == ('addr','perms') + pmmap_grouped on "
             "every platform", floor=3)
    fm = repo.func("psutil", "Process.memory_maps")
    # the accumulation statement D[K] = <element-wise sum of D[K] and N>, in any of
    # its spellings; K = row[2], N = row[3:]; rows = nt(K, *D[K]) for every key
    def txt(e):
        return norm_stmt(deref(fm.node, e)).replace(" ", "")

    def elementwise_sum(e, a, b):
        e = deref(fm.node, e)
        if isinstance(e, ast.Call) and dotted(e.func) in ("list", "tuple") and len(e.args) == 1:
            e = e.args[0]
        if isinstance(e, ast.Call) and dotted(e.func) == "map" and len(e.args) == 3:
            f_, x_, y_ = e.args
            okf = (isinstance(f_, ast.Lambda) and len(f_.args.args) == 2
                   and isinstance(f_.body, ast.BinOp) and isinstance(f_.body.op, ast.Add)
                   and {dotted(f_.body.left), dotted(f_.body.right)} ==
                   {f_.args.args[0].arg, f_.args.args[1].arg}) or dotted(f_) in ("operator.add", "add")
            return okf and {txt(x_), txt(y_)} == {a, b}
        if isinstance(e, (ast.ListComp, ast.GeneratorExp)) and len(e.generators) == 1 \
                and not e.generators[0].ifs:
            g = e.generators[0]
            if isinstance(g.iter, ast.Call) and dotted(g.iter.func) == "zip" and len(g.iter.args) == 2 \
                    and isinstance(g.target, ast.Tuple) and len(g.target.elts) == 2 \
                    and isinstance(e.elt, ast.BinOp) and isinstance(e.elt.op, ast.Add):
                return {dotted(e.elt.left), dotted(e.elt.right)} == {dotted(x) for x in g.target.elts} \
                    and {txt(x) for x in g.iter.args} == {a, b}
        return False
    rows_loop = [f_ for f_ in ast.walk(fm.node) if isinstance(f_, ast.For)
                 and any(isinstance(x, ast.Assign) and isinstance(x.targets[0], ast.Subscript)
                         for x in ast.walk(f_))]
    okg, why_g = False, "no accumulation loop found"
    for lp_ in rows_loop:
        rv = dotted(lp_.target)
        stores = [x for x in ast.walk(lp_) if isinstance(x, ast.Assign)
                  and isinstance(x.targets[0], ast.Subscript) and dotted(x.targets[0].value)]
        if not rv or not stores:
            continue
        dname = dotted(stores[0].targets[0].value)
        keyt = {txt(x.targets[0].slice) for x in stores}
        if keyt != {f"{rv}[2]"}:
            why_g = f"rows are keyed by {sorted(keyt)}, not by slot 2 (the path)"
            continue
        kexpr = norm_stmt(stores[0].targets[0].slice).replace(" ", "")
        sums = [x for x in stores if elementwise_sum(x.value, f"{dname}[{rv}[2]]", f"{rv}[3:]")]
        inits = [x for x in stores if txt(x.value) == f"{rv}[3:]"]
        if sums and inits and len(sums) + len(inits) == len(stores):
            okg = True
        else:
            why_g = ("the figures of a path seen again are not the element-wise sum of the "
                     "stored ones and slots 3.. of the row")
    if okg:
        ctx.ok("C13.R4", "grouping", sample="d[row[2]] = elementwise(d[row[2]] + row[3:]) | row[3:]")
    else:
        ctx.fail("C13.R4", "grouping", fm.file, fm.node.lineno, fm.qual,
                 f"grouping: {why_g}")
    rets = [s.value for s in ast.walk(fm.node) if isinstance(s, ast.Return)
            and isinstance(s.value, ast.ListComp)]

    def rows_ok(lc):
        g = lc.generators[0]
        e = lc.elt
        if not (isinstance(e, ast.Call) and len(lc.generators) == 1 and not g.ifs):
            return None
        if isinstance(g.target, ast.Name) and len(e.args) == 2 and dotted(e.args[0]) == g.target.id \
                and isinstance(e.args[1], ast.Starred) \
                and norm_stmt(e.args[1].value).replace(" ", "") == f"{dotted(g.iter)}[{g.target.id}]":
            return "grouped"
        if isinstance(g.target, ast.Tuple) and len(g.target.elts) == 2 and len(e.args) == 2 \
                and isinstance(g.iter, ast.Call) and isinstance(g.iter.func, ast.Attribute) \
                and g.iter.func.attr == "items" and dotted(e.args[0]) == dotted(g.target.elts[0]) \
                and isinstance(e.args[1], ast.Starred) \
                and dotted(e.args[1].value) == dotted(g.target.elts[1]):
            return "grouped"
        if isinstance(g.target, ast.Name) and len(e.args) == 1 and isinstance(e.args[0], ast.Starred) \
                and dotted(e.args[0].value) == g.target.id:
            return "flat"
        return None
    # every mapping is listed: a block generator that emits the PREVIOUS block when
    # it meets the next header must emit the pending one once more after its loop
    from ..core.analysis import unflushed_generators
    lm = repo.func(pm, "Process.memory_maps")
    lost = unflushed_generators(lm.node)
    if lost:
        g_, y_ = lost[0]
        ctx.fail("C13.R4", "rows:last-block", lm.file, y_.lineno, lm.qual,
                 f"{g_.name}() yields a block only when the next header arrives and does "
                 f"not yield after its loop: the LAST mapping of /proc/<pid>/smaps is never "
                 f"listed (a process with one mapping gets [])")
    else:
        ctx.ok("C13.R4", "rows:last-block", nontrivial=False,
               sample="the block generator flushes the pending block after its loop")
    kinds = {rows_ok(r) for r in rets}
    if {"grouped", "flat"} <= kinds:
        ctx.ok("C13.R4", "rows", sample="one row per distinct path / one per mapping")
    else:
        ctx.fail("C13.R4", "rows", fm.file, fm.node.lineno, fm.qual,
                 f"memory_maps returns {[norm_stmt(r) for r in rets]}")
    nplat = 0
    for (mn, n), f in sorted(I.namedtuples.items()):
        if n == "pmmap_ext":
            g = I.namedtuples.get((mn, "pmmap_grouped"))
            nplat += 1
            if g and tuple(f) == ("addr", "perms") + tuple(g):
                ctx.ok("C13.R4", f"tuples:{mn}", sample={mn: list(f)})
            else:
                ctx.fail("C13.R4", f"tuples:{mn}", f"psutil/{mn}.py", 0, "pmmap_ext",
                         f"{mn}.pmmap_ext {f} != ('addr','perms') + pmmap_grouped {g}: "
                         f"grouped rows would be built from shifted slots")
    ctx.require(nplat >= 1, "no platform defines pmmap_ext")

    # ------------------------------------------------------------------- R5
    ctx.rule("C13.R5", "memory_percent: an unknown memtype raises ValueError before "
             "any query; the value is 100 * field / total physical memory", floor=2)
    mp = repo.func("psutil", "Process.memory_percent")
    cfg = A.cfg(mp)
    raises = [n for n in cfg.nodes if n.kind == "raise" and "ValueError" in norm_stmt(n.stmt)]
    good = False
    for r in raises:
        gs = cfg.guards(r)
        if gs and norm_stmt(gs[0][0]).replace(" ", "") == "memtypenotinvalid_types" \
                and gs[0][1] is True:
            tn = [x for x in cfg.nodes if x.kind == "test" and x.expr is gs[0][0]][0]
            q = [c for c in calls_in(mp.node) if dotted(c.func) in ("fun", "virtual_memory")
                 or (isinstance(c.func, ast.Attribute) and c.func.attr in
                     ("memory_info", "memory_full_info"))]
            if q and all(cfg.dominates(tn, n) for c in q for n in cfg.owners(c)):
                good = True
    vt = [st for st in ast.walk(mp.node) if isinstance(st, ast.Assign)
          and dotted(st.targets[0]) == "valid_types"]
    src_ok = vt and "pfullmem._fields" in norm_stmt(vt[0].value)
    if good and src_ok:
        ctx.ok("C13.R5", "validation", sample="memtype not in pfullmem._fields -> ValueError first")
    else:
        ctx.fail("C13.R5", "validation", mp.file, mp.node.lineno, mp.qual,
                 "an unknown memtype is not rejected (ValueError) before querying")
    t = I.call_function(mp, [("const", "rss")])
    vals = []
    for a in expand(t):
        try:
            vals.append(to_rat(a))
        except NotPolynomial as e:
            raise AnalysisError(f"memory_percent: {e}")
    okf = bool(vals)
    for v in vals:
        num = [a for a in v.num.atoms()]
        den = [a for a in v.den.atoms()]
        if len(num) != 1 or len(den) != 1 or "'rss')" not in num[0] or \
                not v.same(Rat(Poly.atom(num[0])) * Rat(Poly.const(100)) / Rat(Poly.atom(den[0]))):
            okf = False
        if "MemTotal" not in den[0] and "_TOTAL_PHYMEM" not in den[0]:
            okf = False
    if okf:
        ctx.ok("C13.R5", "form", sample="(value / float(total_phymem)) * 100")
    else:
        ctx.fail("C13.R5", "form", mp.file, mp.node.lineno, mp.qual,
                 f"memory_percent('rss') = {[repr(v)[:120] for v in vals]}; documented "
                 f"100 * field / total physical memory")
    # every accepted memtype is looked up on a record that HAS that field: the getter
    # selection is evaluated for each field of pfullmem (a finite domain)
    pmf = I.namedtuples.get((pm, "pmem")) or ()
    pff = I.namedtuples.get((pm, "pfullmem")) or ()
    ctx.require(pmf and pff, "pmem / pfullmem field lists not found")
    wrong = []
    for f_ in pff:
        tf_ = I.call_function(mp, [("const", f_)])
        for g_ in collect(tf_, lambda x: x and x[0] == "gphi" and x[1] and x[1][0] == "cmp"
                          and x[1][1] in ("in", "notin") and x[1][2] == ("const", f_)):
            cont = g_[1][3]
            if cont[0] not in ("tuple", "list", "set") or not all(e_[0] == "const" for e_ in cont[1:]):
                continue
            member = f_ in [e_[1] for e_ in cont[1:]]
            taken = g_[2] if (member == (g_[1][1] == "in")) else g_[3]
            txt_ = pretty(taken)
            if "memory_info" in txt_ and "memory_full_info" not in txt_ and f_ not in pmf:
                wrong.append(f_)
    if wrong:
        ctx.fail("C13.R5", "getter-has-field", mp.file, mp.node.lineno, mp.qual,
                 f"memory_percent({wrong[0]!r}) is accepted by the validation but looked up on "
                 f"memory_info(), whose record has no such field (AttributeError): {sorted(set(wrong))} "
                 f"exist only in memory_full_info()")
    else:
        ctx.ok("C13.R5", "getter-has-field", sample=f"evaluated for {list(pff)}")
    ctx.assume("smaps keys and statm columns as documented in proc(5)")
    return ("Abstract interpretation of memory_info / smaps parsers (statm columns, "
            "pages*PAGESIZE, key selection, kB*1024, tuple order), regex-literal "
            "analysis, AST table agreement between the memory_maps tuple, the smaps "
            "keys and the named-tuple fields on every platform, dominance of the "
            "memtype validation.",
            "abstract interpretation (provenance, forms), regex static analysis, table "
            "agreement")
