"""C06 - per-process kernel facts are exact, whatever bytes the name contains."""

import ast
import re

from ..core.absint import Interp, alternatives, result_alternatives, contains, is_top, pretty
from ..core.analysis import Analysis
from ..core.forms import (Poly, Rat, U, UnitError, canon, srcinfo, to_rat, unit_of,
                          ustr)
from ..core.pyrepo import Repo, calls_in, dotted, norm_stmt
from ..core.cfg import handler_names
from ..core.report import AnalysisError
from ..oracles import linux as O


def collect(t, pred, out=None):
    out = [] if out is None else out
    if isinstance(t, tuple):
        if pred(t):
            out.append(t)
        for x in t:
            if isinstance(x, tuple):
                collect(x, pred, out)
    return out


def stat_atoms(t):
    """srcinfo of every split-column atom in t."""
    out = []
    for a in collect(t, lambda x: x and x[0] == "idx"):
        d = srcinfo(a)
        if d is not None:
            out.append((a, d))
    return out


def evaluate(I, fi, **kw):
    t = I.call_function(fi, kw.get("args", []), kw.get("kwargs"))
    return canon(t)


def run(ctx):
    repo = Repo(ctx.repo)
    A = Analysis(repo)
    I = Interp(repo, A)
    pm = "_pslinux"

    # ------------------------------------------------------------------- R1
    ctx.rule("C06.R1", "sibling parsers of `pid (comm) state ...`: every function "
             "that cuts a <pid>/stat or task/<tid>/stat record at a parenthesis "
             "locates the end of comm with the LAST ')'", floor=4)
    nparsers = 0
    for fi in list(repo.all_funcs(pm)):
        if A.defined(fi, "linux") is False or fi.parent is not None:
            continue
        has = False
        helpers = []
        for c0 in calls_in(fi.node):
            nm0 = None
            if isinstance(c0.func, ast.Attribute) and dotted(c0.func.value) in ("self", "cls"):
                nm0 = f"{fi.cls}.{c0.func.attr}" if fi.cls else None
            elif isinstance(c0.func, ast.Name):
                nm0 = c0.func.id
            h0 = repo.func(pm, nm0, required=False) if nm0 else None
            if h0 is not None and h0.node is not fi.node:
                helpers.append(h0)
        for c in list(calls_in(fi.node)) + [c1 for h0 in helpers for c1 in calls_in(h0.node)]:
            if isinstance(c.func, ast.Attribute) and c.func.attr in ("find", "rfind", "index",
                                                                    "rindex", "rpartition",
                                                                    "partition", "rsplit") \
                    and c.args and isinstance(c.args[0], ast.Constant) \
                    and c.args[0].value in (b")", ")", b") ", ") "):
                has = True
        if not has:
            continue
        t = evaluate(I, fi)
        finds = collect(t, lambda x: x and x[0] == "find" and x[2][0] == "const"
                        and x[2][1] in (b")", ")", b") ", ") "))
        statfinds = [f for f in finds if "stat" in pretty(f[1]) and "/stat" in pretty(f[1])]
        if not statfinds:
            continue
        nparsers += 1
        whiches = {f[3] for f in statfinds}
        key = f"{fi.qual}"
        if whiches == {"last"}:
            ctx.ok("C06.R1", key, sample=f"{fi.qual}: end of comm = last ')'")
        else:
            ctx.fail("C06.R1", key, fi.file, fi.node.lineno, fi.qual,
                     f"{fi.qual}() locates the end of the name with the FIRST ')': a "
                     f"process/thread named e.g. 'a) S 1 2' shifts every field that "
                     f"follows (siblings use the last ')')")
    ctx.require(nparsers >= 4, f"only {nparsers} stat-record parsers found (4 expected: "
                f"_parse_stat_file, threads, ppid_map, _is_zombie)")

    # ------------------------------------------------------------------- R2/R3
    ctx.rule("C06.R2", "column agreement: each public field is read from the "
             "proc(5) stat column the documentation assigns to it (indexed after "
             "the last ')')", floor=12)
    ctx.rule("C06.R3", "units: tick counters are divided by CLOCK_TICKS (seconds); "
             "create_time adds the boot time in seconds", floor=7)
    by_method = {}
    for (q, field), sname in O.STAT_API.items():
        by_method.setdefault(q, []).append((field, sname))
    results = {}
    for q, fields in sorted(by_method.items()):
        fi = repo.func(pm, q)
        t = evaluate(I, fi)
        results[q] = t
        for field, sname in fields:
            col = O.STAT[sname]
            vt = t
            if field is not None:
                nts = [a for a in alternatives(t) if a[0] == "nt"]
                if not nts or field not in nts[0][2]:
                    raise AnalysisError(f"{q}: result is not a named tuple with field "
                                        f"{field}: {pretty(t)[:120]}")
                vt = nts[0][3][nts[0][2].index(field)]
            atoms = stat_atoms(vt)
            key = f"{q}.{field}" if field else q
            if not atoms:
                raise AnalysisError(f"{key}: no stat column found in {pretty(vt)[:160]}")
            probs = []
            for a, d in atoms:
                if d["file"] == "stat" and q == "Process.create_time":
                    continue          # the boot-time line, checked in R3
                if d["file"] != "pid/stat":
                    probs.append(f"reads {d['file']}")
                    continue
                sl = d.get("slice")
                # whitespace split(): starting 1 or 2 bytes after ')' is the same
                okoff = (2,) if d["sep"] is not None else (1, 2)
                if not sl or sl[0] is None or sl[0][0] != "find" or sl[0][2] != "last" \
                        or sl[0][3] not in okoff:
                    probs.append("fields are not indexed from just after the last ')'")
                if d["col"] != col:
                    probs.append(f"reads column {d['col']} (proc(5): {sname} is column "
                                 f"{col})")
                if d["sep"] not in (None, b" ") or d["maxsplit"] is not None:
                    probs.append(f"split({d['sep']!r}, {d['maxsplit']!r})")
            if probs:
                ctx.fail("C06.R2", key, fi.file, fi.node.lineno, fi.qual,
                         f"{key}: " + "; ".join(sorted(set(probs))))
            else:
                ctx.ok("C06.R2", key, sample={"field": key, "stat_column": col,
                                              "kernel_field": sname})
            # units
            if sname in ("utime", "stime", "cutime", "cstime", "delayacct_blkio_ticks"):
                _check_ticks(ctx, fi, key, vt)
    # create_time
    fi = repo.func(pm, "Process.create_time")
    _check_create_time(ctx, fi, results["Process.create_time"], I, repo)
    # threads
    fi = repo.func(pm, "Process.threads")
    t = evaluate(I, fi)
    elems = [e for a in result_alternatives(t) if a[0] == "listof" for e in alternatives(a[1])
             if e[0] == "nt"]
    ctx.require(elems, f"threads(): no pthread records in {pretty(t)[:120]}")
    nt = elems[0]
    for field, sname in O.THREAD_API.items():
        vt = nt[3][nt[2].index(field)]
        col = O.STAT[sname]
        atoms = stat_atoms(vt)
        key = f"Process.threads.{field}"
        probs = []
        for a, d in atoms:
            if not d["file"].startswith("pid/task/") or not d["file"].endswith("/stat"):
                probs.append(f"reads {d['file']}")
            if d["col"] != col:
                probs.append(f"reads column {d['col']} (proc(5): {sname} is column {col})")
            sl = d.get("slice")
            okoff = (2,) if d["sep"] is not None else (1, 2)
            if not sl or sl[0] is None or sl[0][0] != "find" or sl[0][3] not in okoff:
                probs.append("fields are not indexed from just after the ')'")
        if probs or not atoms:
            ctx.fail("C06.R2", key, fi.file, fi.node.lineno, fi.qual,
                     f"{key}: " + "; ".join(sorted(set(probs)) or ["no source"]))
        else:
            ctx.ok("C06.R2", key, sample={"field": key, "stat_column": col})
        _check_ticks(ctx, fi, key, vt)
    tid = nt[3][nt[2].index("id")]
    if "os.listdir" in pretty(tid) and "/task" in pretty(tid):
        ctx.ok("C06.R2", "Process.threads.id", sample=pretty(tid)[:80])
    else:
        ctx.fail("C06.R2", "Process.threads.id", fi.file, fi.node.lineno, fi.qual,
                 f"thread id is `{pretty(tid)[:80]}`, not the task directory entry")
    # ppid_map
    fi = repo.func(pm, "ppid_map")
    t = evaluate(I, fi)
    ds = [a for a in alternatives(t) if a[0] == "dictof"]
    ctx.require(ds, "ppid_map(): result is not a {pid: ppid} table")
    atoms = stat_atoms(ds[0][2])
    good = atoms and all(d["file"] == "pid/stat" and d["col"] == O.STAT["ppid"]
                         for _, d in atoms)
    if good:
        ctx.ok("C06.R2", "ppid_map.value", sample={"stat_column": 1})
    else:
        ctx.fail("C06.R2", "ppid_map.value", fi.file, fi.node.lineno, fi.qual,
                 f"ppid_map values come from {[(d['file'], d['col']) for _, d in atoms]}, "
                 f"not stat column 1")

    # name(): between first '(' and last ')'
    ctx.rule("C06.R7", "name(): the bytes between the first '(' and the last ')'",
             floor=1)
    fi = repo.func(pm, "Process.name")
    t = evaluate(I, fi)
    sl = collect(t, lambda x: x and x[0] == "slice")
    okn = False
    for s in sl:
        lo, hi = s[2], s[3]
        if lo[0] == "bin" and lo[1] == "+" and lo[2][0] == "find" and lo[2][2] == ("const", b"(") \
                and lo[2][3] == "first" and lo[3] == ("const", 1) \
                and hi[0] == "find" and hi[2] == ("const", b")") and hi[3] == "last":
            okn = True
    if okn:
        ctx.ok("C06.R7", "name", sample="data[data.find('(')+1 : data.rfind(')')]")
    else:
        ctx.fail("C06.R7", "name", fi.file, fi.node.lineno, fi.qual,
                 f"name() is `{pretty(t)[:120]}`: not the text between the first '(' "
                 f"and the last ')'")

    # ------------------------------------------------------------------- R4
    ctx.rule("C06.R4", "state letters: PROC_STATUSES maps every kernel task-state "
             "letter to the documented STATUS_* constant; status() looks the "
             "letter up in it", floor=13)
    m = repo.mod(pm)
    tbl = None
    for v in m.assigns.get("PROC_STATUSES", []):
        if isinstance(v, ast.Dict):
            tbl = v
    ctx.require(tbl is not None, "PROC_STATUSES table vanished")
    got = {}
    for k, v in zip(tbl.keys, tbl.values):
        if isinstance(k, ast.Constant):
            got[k.value] = (dotted(v) or "").split(".")[-1]
    for letter, cname in O.TASK_STATES.items():
        if got.get(letter) == cname:
            ctx.ok("C06.R4", f"state:{letter}", sample={letter: cname})
        else:
            ctx.fail("C06.R4", f"state:{letter}", m.rel, tbl.lineno, "PROC_STATUSES",
                     f"kernel state letter {letter!r} maps to {got.get(letter)!r}; "
                     f"documented constant is {cname}")
    cm = repo.mod("_common")
    for cname, val in O.STATUS_VALUES.items():
        vs = cm.assigns.get(cname, [])
        if len(vs) == 1 and isinstance(vs[0], ast.Constant) and vs[0].value == val:
            ctx.ok("C06.R4", f"const:{cname}", nontrivial=False)
        else:
            ctx.fail("C06.R4", f"const:{cname}", cm.rel, 0, cname,
                     f"{cname} is no longer {val!r}")
    st = results["Process.status"]
    good = any(a[0] in ("dget", "opt") and "PROC_STATUSES" in pretty(a)
               for a in collect(st, lambda x: x and x[0] in ("dget", "opt")))
    if good:
        ctx.ok("C06.R4", "status:lookup", sample=pretty(st)[:100])
    else:
        ctx.fail("C06.R4", "status:lookup", "psutil/_pslinux.py", 0, "Process.status",
                 f"status() = `{pretty(st)[:100]}` does not look the letter up in "
                 f"PROC_STATUSES")

    # ------------------------------------------------------------------- R5
    ctx.rule("C06.R5", "status-file regexes cannot match inside the `Name:\\t<comm>` "
             "line: each is anchored at a line start, or its minimum match width "
             "exceeds the 15 bytes comm can hold", floor=5)
    nre = 0
    for fi in repo.all_funcs(pm):
        for pat, flags, meth, call in _status_regex_uses(fi, repo, pm):
            nre += 1
            key = f"{fi.qual}:{pat.decode() if isinstance(pat, bytes) else pat}"
            anchored, width = _regex_facts(pat, flags)
            if meth in ("match", "fullmatch"):
                anchored = True       # offset 0 is the start of the first line
            if anchored or width > O.TASK_COMM_LEN - 1:
                ctx.ok("C06.R5", key, sample={"pattern": repr(pat), "anchored": anchored,
                                              "min_width": width, "method": meth})
            else:
                ctx.fail("C06.R5", key, fi.file, call.lineno, fi.qual,
                         f"regex {pat!r} (min width {width}, not line-anchored) can match "
                         f"inside the `Name:` line of <pid>/status: a process whose name "
                         f"is e.g. {_spoof(pat)!r} makes {fi.name}() report the values "
                         f"embedded in its name")
    ctx.require(nre >= 5, f"only {nre} status-file regexes found")

    # ------------------------------------------------------------------- R6
    ctx.rule("C06.R6", "terminal(): the device map is indexed with int(tty_nr); a "
             "missing entry yields None", floor=1)
    tt = results["Process.terminal"]
    alts = alternatives(tt)
    hasnone = ("const", None) in alts
    dv = [a for a in alts if a[0] in ("dval", "dget")]
    if dv and dv[0][0] == "dget" and len(dv[0]) > 3 and dv[0][3] == ("const", None):
        hasnone = True          # .get(key) -> None when the entry is missing
    good = hasnone and dv and dv[0][2][0] == "call" and dv[0][2][1] == "int" \
        and "st_rdev" in pretty(dv[0][1])
    if good:
        ctx.ok("C06.R6", "terminal", sample="tmap[int(tty_nr)] | None")
    else:
        ctx.fail("C06.R6", "terminal", "psutil/_pslinux.py", 0, "Process.terminal",
                 f"terminal() = `{pretty(tt)[:140]}`")
    # each device-map entry is built from ITS device node only: what is stored for
    # a name may not still hold the stat record of the previous name (a node that
    # vanished between glob() and stat() must add nothing)
    from ..core.analysis import stale_in_loop
    gm = repo.func("_psposix", "get_terminal_map")
    gcfg_ = A.cfg(gm)
    nst = 0
    for lp in [x_ for x_ in ast.walk(gm.node) if isinstance(x_, ast.For)]:
        for st_ in [y_ for b_ in lp.body for y_ in ast.walk(b_)
                    if isinstance(y_, ast.Assign) and any(isinstance(t_, ast.Subscript)
                                                          for t_ in y_.targets)]:
            nst += 1
            stale = stale_in_loop(gcfg_, lp, st_, gm.node)
            if stale:
                ctx.fail("C06.R6", "terminal-map:per-entry-state", gm.file, st_.lineno, gm.qual,
                         f"the entry stored for a device node can carry {stale} over from the "
                         f"PREVIOUS node: on some path of the iteration they are not assigned "
                         f"before the store (a node that cannot be stat()ed takes its "
                         f"neighbour's device number)")
            else:
                ctx.ok("C06.R6", "terminal-map:per-entry-state",
                       sample="every name stored is assigned on every path of the iteration")
    ctx.require(nst >= 1, "get_terminal_map: no per-node store found")
    # ------------------------------------------------------------------- R9
    ctx.rule("C06.R9", "status-file slots: uids/gids are (real, effective, saved) = "
             "groups 1..3 of the Uid:/Gid: line in that order; num_ctx_switches is "
             "(voluntary, nonvoluntary) = first and second `*ctxt_switches:` line; "
             "num_threads is the Threads: line", floor=9)
    _r9(ctx, repo, I, pm)

    # ------------------------------------------------------------------- R8
    ctx.rule("C06.R8", "old-kernel records: a read of a stat column that old kernels "
             "do not print (index >= %d after comm) tolerates its absence - it sits in a "
             "try body whose handler catches IndexError, or under a length guard that "
             "is false for every record too short to hold it" % O.STAT_OPTIONAL_FROM,
             floor=1)
    _r8(ctx, repo, A, pm)

    ctx.stat("functions_interpreted", sorted(set(I.trace_calls))[:40])
    ctx.stat("unsupported_constructs", I.unsupported[:10])
    ctx.assume("byte-level decoding of non-UTF-8 names is value-level and not decided")
    ctx.assume("kernel record layouts are those of proc(5) (oracle tables in "
               "sa/oracles/linux.py)")
    return ("Abstract interpretation of the Linux parsers into provenance terms "
            "(file template, cut position, split, column), compared field by field "
            "with proc(5); unit analysis of tick arithmetic; regex literals analysed "
            "with re._parser for anchoring and minimum width; table comparison of "
            "state letters.",
            "abstract interpretation (provenance + units), regex static analysis, "
            "table agreement")


def _r9(ctx, repo, I, pm):
    cache = {}
    for (q, field), (keytxt, match_i, group_i) in sorted(O.STATUS_SLOTS.items(),
                                                        key=lambda kv: (kv[0][0], str(kv[0][1]))):
        fi = repo.func(pm, q)
        if q not in cache:
            cache[q] = evaluate(I, fi)
        t = cache[q]
        v = t
        key = f"{q}.{field}" if field else q
        if field is not None:
            nts = [a for a in alternatives(t) if a[0] == "nt"]
            if not nts or field not in nts[0][2]:
                ctx.fail("C06.R9", key, fi.file, fi.node.lineno, fi.qual,
                         f"{q}() no longer returns a record with field {field}")
                continue
            v = nts[0][3][nts[0][2].index(field)]
        fa = collect(v, lambda x: x and x[0] == "findall")
        if not fa:
            ctx.advisory(f"C06.R9 {key}: value `{pretty(v)[:70]}` is not a findall()-based "
                         f"extraction; slot not decided")
            ctx.ok("C06.R9", key, sample="not decided", nontrivial=False)
            continue
        pat = fa[0][1][1] if fa[0][1][0] == "const" else b""
        ptxt = pat.decode("latin1") if isinstance(pat, bytes) else str(pat)
        ngroups = re.compile(pat).groups if pat else 0
        # index path from the findall result down to the value
        path = []
        cur = v
        while isinstance(cur, tuple) and cur and cur is not fa[0] and cur != fa[0]:
            if cur[0] == "idx" and isinstance(cur[2], int):
                path.append(cur[2])
                cur = cur[1]
            elif cur[0] == "call" and len(cur) == 3:
                cur = cur[2]
            else:
                break
        path.reverse()
        want_path = [match_i] + ([group_i] if ngroups > 1 else [])
        probs = []
        if keytxt not in ptxt.replace("\\t", "").replace("^", ""):
            probs.append(f"the pattern {ptxt!r} does not select the `{keytxt}` line")
        if path != want_path:
            probs.append(f"it is match/group {path} of the pattern; proc(5) puts it at {want_path}")
        if "/status" not in pretty(fa[0][2]):
            probs.append("the subject is not <pid>/status")
        if probs:
            ctx.fail("C06.R9", key, fi.file, fi.node.lineno, fi.qual,
                     f"{key}: " + "; ".join(probs))
        else:
            ctx.ok("C06.R9", key, sample={key: f"{keytxt} match {match_i} group {group_i}"})


class _LenSubst(ast.NodeTransformer):
    def __init__(self, name):
        self.name = name

    def visit_Call(self, n):
        if isinstance(n.func, ast.Name) and n.func.id == "len" and len(n.args) == 1 \
                and isinstance(n.args[0], ast.Name) and n.args[0].id == self.name:
            return ast.copy_location(ast.Name("__len__", ast.Load()), n)
        return self.generic_visit(n)


def _r8(ctx, repo, A, pm):
    import copy
    from .c15 import eval_pred
    fi = repo.func(pm, "Process._parse_stat_file")
    cfg = A.cfg(fi)
    parents = {}
    for n in ast.walk(fi.node):
        for c in ast.iter_child_nodes(n):
            parents[id(c)] = n
    found = 0
    for sub in ast.walk(fi.node):
        if not (isinstance(sub, ast.Subscript) and isinstance(sub.ctx, ast.Load)
                and isinstance(sub.value, ast.Name) and isinstance(sub.slice, ast.Constant)
                and isinstance(sub.slice.value, int)
                and sub.slice.value >= O.STAT_OPTIONAL_FROM):
            continue
        k, lst = sub.slice.value, sub.value.id
        found += 1
        key = f"{fi.qual}:{lst}[{k}]"
        # (a) try body with an IndexError-compatible handler
        tolerant = None
        cur, child = parents.get(id(sub)), sub
        while cur is not None and cur is not fi.node:
            if isinstance(cur, ast.Try) and any(child is b or any(child is x for x in ast.walk(b))
                                                for b in cur.body):
                for h in cur.handlers:
                    names = handler_names(h)
                    if names is None or names & {"IndexError", "LookupError", "Exception",
                                                 "BaseException"}:
                        tolerant = f"try/except {sorted(names) if names else 'bare'}"
            child, cur = cur, parents.get(id(cur))
        # (b) dominating length guards, evaluated on every too-short length
        if tolerant is None:
            owners = cfg.owners(sub)
            gs = [g for o in owners for g in cfg.guards(o)]
            bad = None
            for L in range(0, k + 1):
                sat = True
                for test, pol, _ in gs:
                    t2 = _LenSubst(lst).visit(copy.deepcopy(test))
                    v = eval_pred(t2, {"__len__": L})
                    if v is (not pol) and v in (True, False):
                        sat = False
                        break
                if sat:
                    bad = L
                    break
            if bad is None and gs:
                tolerant = "length guard excludes every len <= %d" % k
            else:
                ctx.fail("C06.R8", key, fi.file, sub.lineno, fi.qual,
                         f"`{lst}[{k}]` is read although a stat record with only "
                         f"{bad if bad is not None else k} fields after comm reaches it "
                         f"(no IndexError handler, and the guards "
                         f"{[norm_stmt(g[0]) for g in gs]} admit that length): "
                         f"old-kernel records lacking the trailing fields raise "
                         f"IndexError instead of reporting the field as 0")
                continue
        ctx.ok("C06.R8", key, sample=tolerant)
    ctx.require(found >= 1, "no optional stat column is read any more "
                            "(delayacct_blkio_ticks vanished)")


def _check_ticks(ctx, fi, key, vt):
    """vt must be <tick atom> / CLOCK_TICKS."""
    probs = []
    for a in alternatives(vt):
        if a == ("const", None):
            continue
        try:
            r = to_rat(a)
        except Exception as e:  # noqa: BLE001
            probs.append(f"not arithmetic: {e}")
            continue
        atoms = r.num.atoms() | r.den.atoms()
        src = [x for x in atoms if "stat" in x and "CLOCK" not in x]
        if len(src) == 0 and r.num.is_zero():
            continue
        want = None
        if len(src) == 1:
            want = Rat(Poly.atom(src[0])) / Rat(Poly.atom("CLOCK_TICKS"))
        if want is None or not r.same(want):
            # float(phi(0, col)) / CLOCK_TICKS : the phi is one atom
            if len(atoms - {"CLOCK_TICKS"}) == 1:
                only = list(atoms - {"CLOCK_TICKS"})[0]
                want = Rat(Poly.atom(only)) / Rat(Poly.atom("CLOCK_TICKS"))
                if r.same(want):
                    continue
            probs.append(f"value is `{r}`; ticks must be divided by CLOCK_TICKS exactly once")
    if probs:
        ctx.fail("C06.R3", key, fi.file, fi.node.lineno, fi.qual,
                 f"{key}: " + "; ".join(sorted(set(probs))))
    else:
        ctx.ok("C06.R3", key, sample=f"{key} = ticks / CLOCK_TICKS [s]")


def _check_create_time(ctx, fi, t, I, repo):
    def atom_unit(x):
        d = srcinfo(x) if x and x[0] in ("idx", "call") else None
        if d is not None and d["file"] == "pid/stat":
            return U(tick=1)
        if d is not None and d["file"] == "stat":
            return U(s=1)        # btime line: seconds since the epoch
        if x[0] == "glob" and x[1].endswith(".BOOT_TIME"):
            return U(s=1)
        if x[0] == "or":
            return _same_units([atom_unit_rec(y) for y in x[1:]])
        if x[0] == "when":
            return atom_unit_rec(x[2])
        return None

    def atom_unit_rec(y):
        try:
            return unit_of(y, atom_unit)
        except UnitError:
            return None

    def _same_units(us):
        us = [u for u in us if u not in (None, "lit")]
        return us[0] if us and all(u == us[0] for u in us) else None

    probs = []
    for a in alternatives(t):
        try:
            u = unit_of(a, atom_unit)
        except UnitError as e:
            probs.append(str(e))
            continue
        if u != U(s=1):
            probs.append(f"unit is {ustr(u) if u != 'lit' else 'literal'}, expected s")
        if "BOOT_TIME" not in pretty(a) and "'{procfs}/stat'" not in pretty(a):
            probs.append("boot time is not added")
    if probs:
        ctx.fail("C06.R3", "Process.create_time", fi.file, fi.node.lineno, fi.qual,
                 "create_time(): " + "; ".join(sorted(set(probs))))
    else:
        ctx.ok("C06.R3", "Process.create_time",
               sample="starttime[tick] / CLOCK_TICKS[tick/s] + boot[s] = s")
    # boot_time reads the btime line
    bt = repo.func("_pslinux", "boot_time")
    tt = canon(I.call_function(bt, []))
    good = "b'btime'" in pretty(tt) and ".1" not in "" and any(
        d["file"] == "stat" and d["col"] == 1 for _, d in stat_atoms(tt))
    if good:
        ctx.ok("C06.R3", "boot_time", sample="float(<btime line>.split()[1])")
    else:
        ctx.fail("C06.R3", "boot_time", bt.file, bt.node.lineno, bt.qual,
                 f"boot_time() = `{pretty(tt)[:120]}`: not column 1 of the btime line")


RE_METHODS = ("search", "findall", "finditer", "match", "fullmatch", "split", "sub", "subn")


def _status_regex_uses(fi, repo=None, module=None):
    """(pattern literal, flags, method, call node) for every regex applied, in
    this function, to the content of <pid>/status - whatever re method is used.
    The subject is status content if it is (a name assigned from) a call of
    _read_status_file()."""
    fn = fi.node
    pats = {}

    def compiled(d):
        if isinstance(d, ast.Call) and dotted(d.func) == "re.compile" and d.args \
                and isinstance(d.args[0], ast.Constant):
            fl = d.args[1] if len(d.args) > 1 else next(
                (k.value for k in d.keywords if k.arg == "flags"), None)
            return d.args[0].value, fl
        return None

    a = fn.args
    pos = a.posonlyargs + a.args
    for p_, d in list(zip(pos[len(pos) - len(a.defaults):], a.defaults)) + \
            [(p_, d) for p_, d in zip(a.kwonlyargs, a.kw_defaults) if d is not None]:
        c = compiled(d)
        if c:
            pats[p_.arg] = c
    status_names = set()
    for n in ast.walk(fn):
        if isinstance(n, ast.Assign) and compiled(n.value):
            for t in n.targets:
                if isinstance(t, ast.Name):
                    pats[t.id] = compiled(n.value)
        if isinstance(n, (ast.Assign, ast.AnnAssign, ast.NamedExpr)) and n.value is not None \
                and _is_status_read(n.value):
            tg = n.targets if isinstance(n, ast.Assign) else [n.target]
            for t in tg:
                if isinstance(t, ast.Name):
                    status_names.add(t.id)

    def is_status(e):
        return _is_status_read(e) or any(isinstance(x, ast.Name) and x.id in status_names
                                         for x in ast.walk(e))

    out = []
    for n in ast.walk(fn):
        if not isinstance(n, ast.Call) or not isinstance(n.func, ast.Attribute) \
                or n.func.attr not in RE_METHODS:
            continue
        recv = n.func.value
        if isinstance(recv, ast.Name) and recv.id in pats and n.args:
            subj = n.args[1] if n.func.attr in ("sub", "subn") and len(n.args) > 1 else n.args[0]
            if is_status(subj):
                pat, fl = pats[recv.id]
                out.append((pat, _flag_ast(fl), n.func.attr, n))
        elif dotted(recv) == "re" and len(n.args) >= 2 and isinstance(n.args[0], ast.Constant):
            subj = n.args[2] if n.func.attr in ("sub", "subn") and len(n.args) > 2 else n.args[1]
            if is_status(subj):
                fl = next((k.value for k in n.keywords if k.arg == "flags"), None)
                if fl is None and n.func.attr not in ("sub", "subn", "split") and len(n.args) > 2:
                    fl = n.args[2]
                out.append((n.args[0].value, _flag_ast(fl), n.func.attr, n))
        elif compiled(recv) and n.args and is_status(n.args[0]):
            pat, fl = compiled(recv)
            out.append((pat, _flag_ast(fl), n.func.attr, n))
        elif isinstance(recv, ast.Name) and recv.id in {p_.arg for p_ in pos} and n.args \
                and repo is not None:
            # the pattern is a PARAMETER of this helper: every compiled pattern its
            # callers in the module pass for it (their default-argument regexes,
            # locals, or module-level patterns)
            subj = n.args[1] if n.func.attr in ("sub", "subn") and len(n.args) > 1 else n.args[0]
            if not is_status(subj):
                continue
            pidx = [p_.arg for p_ in pos].index(recv.id)
            is_meth = bool(pos) and pos[0].arg in ("self", "cls")
            for g in repo.all_funcs(module):
                gpats = {}
                ga = g.node.args
                gpos = ga.posonlyargs + ga.args
                for p_, d in list(zip(gpos[len(gpos) - len(ga.defaults):], ga.defaults)):
                    if compiled(d):
                        gpats[p_.arg] = compiled(d)
                for st_ in ast.walk(g.node):
                    if isinstance(st_, ast.Assign) and compiled(st_.value):
                        for t_ in st_.targets:
                            if isinstance(t_, ast.Name):
                                gpats[t_.id] = compiled(st_.value)
                for nm_, vs_ in repo.mod(module).assigns.items():
                    if len(vs_) == 1 and compiled(vs_[0]):
                        gpats.setdefault(nm_, compiled(vs_[0]))
                for c_ in ast.walk(g.node):
                    if isinstance(c_, ast.Call) and (dotted(c_.func) or "").split(".")[-1] == fi.name:
                        ai = pidx - (1 if is_meth and "." in (dotted(c_.func) or "") else 0)
                        arg = c_.args[ai] if 0 <= ai < len(c_.args) else next(
                            (k.value for k in c_.keywords if k.arg == recv.id), None)
                        got = compiled(arg) if arg is not None else None
                        if got is None and isinstance(arg, ast.Name) and arg.id in gpats:
                            got = gpats[arg.id]
                        if got:
                            out.append((got[0], _flag_ast(got[1]), n.func.attr, n))
    return out


def _is_status_read(e):
    return any(isinstance(x, ast.Call) and (dotted(x.func) or "").endswith("_read_status_file")
               for x in ast.walk(e))


def _flag_ast(e):
    """re flag expression (ast) -> the term form _flag_value understands."""
    if e is None:
        return None
    if isinstance(e, ast.Constant) and isinstance(e.value, int):
        return ("const", e.value)
    if isinstance(e, ast.BinOp) and isinstance(e.op, ast.BitOr):
        return ("bin", "|", _flag_ast(e.left), _flag_ast(e.right))
    d = dotted(e)
    return ("ext", d) if d else None


def _flag_value(t):
    if not isinstance(t, tuple) or not t:
        return 0
    if t[0] == "const" and isinstance(t[1], int):
        return t[1]
    if t[0] == "ext":
        n = t[1].split(".")[-1]
        return int(getattr(re, n, 0)) if n.isupper() else 0
    if t[0] == "bin" and t[1] == "|":
        return _flag_value(t[2]) | _flag_value(t[3])
    return 0


def _regex_facts(pat, flags_term=None):
    """(anchored at line start?, minimum match width) of a regex literal."""
    import re._parser as sp
    p = sp.parse(pat, _flag_value(flags_term))
    width = p.getwidth()[0]
    anchored = False
    items = list(p)
    flags = p.state.flags
    if items:
        op, av = items[0]
        if str(op) == "AT" and str(av) in ("AT_BEGINNING",) and (flags & re.MULTILINE):
            anchored = True
        if str(op) == "AT" and str(av) == "AT_BEGINNING_LINE":
            anchored = True
        if str(op) == "LITERAL" and av == 10:
            anchored = True
    return anchored, width


def _spoof(pat):
    s = pat.decode() if isinstance(pat, bytes) else pat
    s = s.replace("(\\d+)", "7").replace("\\t", "\t")
    return s[:15]
