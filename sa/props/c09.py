"""C09 - disk/network counters: exact per-device values, totals never double count."""

import ast

from ..core.absint import Interp, alternatives, result_alternatives, pretty
from ..core.analysis import Analysis, facts
from ..core.cfg import decompose_guard
from ..core.forms import (NotPolynomial, Poly, Rat, canon, expand, srcinfo, to_rat)
from .c06 import collect
from ..core.pyrepo import Repo, calls_in, dotted, norm_stmt
from ..core.report import AnalysisError
from ..oracles import linux as O

SDISKIO = {"read_count": "read_count", "write_count": "write_count",
           "read_bytes": "read_sectors", "write_bytes": "write_sectors",
           "read_time": "read_time", "write_time": "write_time",
           "read_merged_count": "read_merged_count",
           "write_merged_count": "write_merged_count", "busy_time": "busy_time"}


def collect(t, pred, out=None):
    out = [] if out is None else out
    if isinstance(t, tuple):
        if pred(t):
            out.append(t)
        for x in t:
            if isinstance(x, tuple):
                collect(x, pred, out)
    return out


def sources(t, file_substr):
    out = []
    for a in collect(t, lambda x: x and x[0] == "idx"):
        d = srcinfo(a)
        if d is not None and file_substr in d["file"]:
            out.append(d)
    return out


def records(t):
    """named-tuple alternatives found anywhere in a result term."""
    out = []
    for a in alternatives(t):
        if a[0] == "nt":
            out.append(a)
        elif a[0] == "dictof":
            out += [x for x in alternatives(a[2]) if x[0] == "nt"]
        elif a[0] == "listof":
            out += [x for x in alternatives(a[1]) if x[0] == "nt"]
    return out


def run(ctx):
    repo = Repo(ctx.repo)
    A = Analysis(repo)
    T, F = ("const", True), ("const", False)

    # ------------------------------------------------------------------- R1
    ctx.rule("C09.R1", "/proc/net/dev: the interface name is the text before the "
             "LAST ':'; each snetio field (per NIC and in the total) is the kernel "
             "column the header assigns to it; the total is the field-wise sum",
             floor=17)
    nf = repo.func("psutil", "net_io_counters")
    I = Interp(repo, A)
    per = canon(I.call_function(nf, [T, F]))
    recs = records(per)
    ctx.require(recs, f"net_io_counters(pernic=True): no snetio records: {pretty(per)[:120]}")
    keyterms = [a[1] for a in alternatives(per) if a[0] == "dictof"]
    kt = keyterms[0] if keyterms else None
    finds = collect(kt, lambda x: x and x[0] == "find") if kt else []
    if finds and all(f[2] == ("const", ":") and f[3] == "last" for f in finds) \
            and kt[0] == "slice" and kt[2] == ("const", None):
        ctx.ok("C09.R1", "nic-name", sample="line[:line.rfind(':')].strip()")
    else:
        ctx.fail("C09.R1", "nic-name", nf.file, nf.node.lineno, "net_io_counters",
                 f"interface name is `{pretty(kt)[:100]}`: must be the text before the "
                 f"last ':' (names may contain ':')")
    for rec in recs[:1]:
        _check_net(ctx, nf, rec, "pernic", False)
    tot = canon(I.call_function(nf, [F, F]))
    trecs = records(tot)
    ctx.require(trecs, "net_io_counters(): no total record")
    _check_net(ctx, nf, trecs[0], "total", True)
    if ("const", None) in alternatives(tot) and any(
            a[0] == "dict" and not a[1] for a in alternatives(per)):
        ctx.ok("C09.R1", "net-empty", sample="no interfaces -> None / {}")
    else:
        ctx.fail("C09.R1", "net-empty", nf.file, nf.node.lineno, "net_io_counters",
                 "with no interface listed the result is not None (total) / {} (per NIC)")

    # ------------------------------------------------------------------- R2
    ctx.rule("C09.R2", "/proc/diskstats layouts (14, 18, 20 and 7 fields; sysfs "
             "fallback): each sdiskio field is the iostats column assigned to it; "
             "only the sector counters are scaled, by DISK_SECTOR_SIZE = 512; other "
             "field counts are rejected", floor=40)
    df = repo.func("psutil", "disk_io_counters")
    lf = repo.func("_pslinux", "disk_io_counters")
    # the variable holding the number of fields of a diskstats line: in the
    # function itself, its nested generators, or a module-level helper they call
    scope = [lf.node]
    seen_h = set()
    for _ in range(2):
        for nd in list(scope):
            for c_ in [x_ for x_ in ast.walk(nd) if isinstance(x_, ast.Call)]:
                if isinstance(c_.func, ast.Name) and c_.func.id not in seen_h:
                    seen_h.add(c_.func.id)
                    h_ = repo.func("_pslinux", c_.func.id, required=False)
                    if h_ is not None and h_.node not in scope:
                        scope.append(h_.node)
    flen_var = [st.targets[0].id for nd in scope for st in ast.walk(nd)
                if isinstance(st, ast.Assign)
                and isinstance(st.value, ast.Call) and dotted(st.value.func) == "len"
                and isinstance(st.targets[0], ast.Name)]
    ctx.require(flen_var, "disk_io_counters: the field count of a diskstats line is no "
                "longer taken (len(fields))")
    # every record is built from ITS line only: nothing yielded inside the per-line
    # loop may still hold the value of a previous line (a layout branch that does
    # not set a counter must not inherit it from the line before)
    from ..core.analysis import stale_in_loop
    nrec = 0
    for g_ in [f_ for f_ in repo.all_funcs("_pslinux")
               if f_.node in scope or (f_.parent is not None and f_.parent.node in scope)]:
        gcfg = None
        for lp in [x_ for x_ in ast.walk(g_.node) if isinstance(x_, ast.For)]:
            for st_ in [y_ for b_ in lp.body for y_ in ast.walk(b_)
                        if isinstance(y_, ast.Expr) and isinstance(y_.value, ast.Yield)]:
                if any(isinstance(z_, ast.For) and z_ is not lp
                       and any(w_ is st_ for w_ in ast.walk(z_))
                       for b_ in lp.body for z_ in ast.walk(b_)):
                    continue            # belongs to an inner loop
                gcfg = gcfg or A.cfg(g_)
                nrec += 1
                stale = stale_in_loop(gcfg, lp, st_, g_.node)
                key = f"per-line-state:{g_.qual}"
                if stale:
                    ctx.fail("C09.R2", key, g_.file, st_.lineno, g_.qual,
                             f"the record yielded for a line can carry {stale} over from the "
                             f"PREVIOUS line: on some path through the loop body they are not "
                             f"assigned before the yield (a device whose layout lacks these "
                             f"counters reports its neighbour's)")
                else:
                    ctx.ok("C09.R2", key, nontrivial=True,
                           sample="every yielded name is assigned on every path of the iteration")
    ctx.require(nrec >= 1, "disk_io_counters: no per-line record generator found")
    m = repo.mod("_pslinux")
    ss = m.assigns.get("DISK_SECTOR_SIZE", [])
    if len(ss) == 1 and isinstance(ss[0], ast.Constant) and ss[0].value == 512:
        ctx.ok("C09.R2", "sector-size", sample="DISK_SECTOR_SIZE = 512")
    else:
        ctx.fail("C09.R2", "sector-size", m.rel, 0, "DISK_SECTOR_SIZE",
                 "DISK_SECTOR_SIZE is not 512 (diskstats sectors are 512-byte units)")
    for n, table in ((14, O.DISKSTATS_FULL), (18, O.DISKSTATS_FULL),
                     (20, O.DISKSTATS_FULL), (7, O.DISKSTATS_PART7), (15, None)):
        I = Interp(repo, A)
        I.force = {flen_var[0]: ("const", n)}
        t = canon(I.call_function(df, [T, F]))
        recs = records(t)
        if not recs:
            raise AnalysisError(f"disk_io_counters(perdisk=True), {n}-field lines: no "
                                f"sdiskio record: {pretty(t)[:120]}")
        rec = recs[0]
        ctx.require(tuple(rec[2]) == tuple(SDISKIO), f"sdiskio fields changed: {rec[2]}")
        seen_cols = []
        for fld, v in zip(rec[2], rec[3]):
            key = f"diskstats:{n}:{fld}"
            src = sources(v, "diskstats")
            sector = fld in ("read_bytes", "write_bytes")
            probs = []
            if table is None:
                # 2.4 layout: no authoritative column table for /proc/diskstats;
                # only totality and non-repetition are decided
                cols = [d["col"] for d in src]
                if len(cols) != 1:
                    probs.append(f"{len(cols)} sources")
                else:
                    seen_cols.append(cols[0])
            else:
                want = table.get(SDISKIO[fld])
                if want is None:
                    # the 7-field layout has no such counter: must be constant 0
                    alts = [a for a in expand(v) if "diskstats" in pretty(a) or a[0] == "const"]
                    if src:
                        probs.append(f"reads column {src[0]['col']} but the {n}-field "
                                     f"layout has no {SDISKIO[fld]} counter")
                elif len(src) != 1:
                    probs.append(f"{len(src)} diskstats sources")
                else:
                    d = src[0]
                    if d["col"] != want:
                        probs.append(f"reads column {d['col']}; iostats: "
                                     f"{SDISKIO[fld]} is column {want}")
                    if d["cut"][0] != "line":
                        probs.append("not read line by line")
            # scaling
            for a in expand(v):
                if "diskstats" not in pretty(a):
                    continue
                try:
                    r = to_rat(a)
                except NotPolynomial as e:
                    probs.append(str(e))
                    continue
                at = [x for x in (r.num.atoms() | r.den.atoms()) if x != "DISK_SECTOR_SIZE"]
                if len(at) != 1:
                    if sector and len(at) > 1:
                        probs.append(f"value is `{r!r}`: scaled by something read at run "
                                     f"time; diskstats sectors are always 512-byte units "
                                     f"(DISK_SECTOR_SIZE), whatever the device's hardware "
                                     f"sector size")
                    continue
                want_r = Rat(Poly.atom(at[0]))
                if sector:
                    want_r = want_r * Rat(Poly.atom("DISK_SECTOR_SIZE"))
                if not r.same(want_r):
                    probs.append(f"value is `{r!r}`; expected "
                                 + ("sectors * DISK_SECTOR_SIZE" if sector
                                    else "the raw counter"))
            if probs:
                ctx.fail("C09.R2", key, lf.file, lf.node.lineno, lf.qual,
                         f"{n}-field diskstats line, sdiskio.{fld}: "
                         + "; ".join(sorted(set(probs))))
            else:
                ctx.ok("C09.R2", key, nontrivial=(table is not None),
                       sample={"layout": n, "field": fld,
                               "column": (table or {}).get(SDISKIO[fld])} if n == 14 else None)
        if table is None:
            if len(set(seen_cols)) == len(seen_cols) == 9:
                ctx.ok("C09.R2", "diskstats:15:distinct", nontrivial=False,
                       sample="9 distinct columns (2.4 layout: meaning not claimed)")
            else:
                ctx.fail("C09.R2", "diskstats:15:distinct", lf.file, lf.node.lineno, lf.qual,
                         f"15-field layout reuses or drops a column: {seen_cols}")
        # device name column
        names = [a[1] for a in alternatives(t) if a[0] == "dictof"]
        nsrc = sources(names[0], "diskstats") if names else []
        wantn = 3 if n == 15 else 2
        if nsrc and all(d["col"] == wantn for d in nsrc):
            ctx.ok("C09.R2", f"diskstats:{n}:name", nontrivial=False)
        else:
            ctx.fail("C09.R2", f"diskstats:{n}:name", lf.file, lf.node.lineno, lf.qual,
                     f"{n}-field line: device name read from column "
                     f"{[d['col'] for d in nsrc]}, expected {wantn}")
    # sysfs fallback
    I = Interp(repo, A)
    I.force = {flen_var[0]: ("const", 14)}
    t = canon(I.call_function(df, [T, F]))
    rec = records(t)[0]
    for fld, v in zip(rec[2], rec[3]):
        src = [d for d in sources(v, "stat") if "diskstats" not in d["file"]]
        want = O.SYSBLOCK_STAT[SDISKIO[fld]]
        key = f"sysblock:{fld}"
        if len(src) == 1 and src[0]["col"] == want:
            ctx.ok("C09.R2", key, nontrivial=False)
        else:
            ctx.fail("C09.R2", key, lf.file, lf.node.lineno, lf.qual,
                     f"/sys/block/*/stat fallback: sdiskio.{fld} reads column "
                     f"{[d['col'] for d in src]}, expected {want}")
    # unknown layouts are rejected
    for n in (8, 16, 17):
        I = Interp(repo, A)
        I.force = {flen_var[0]: ("const", n)}
        t = canon(I.call_function(lf, [T]))
        got = [a for a in alternatives(t) if a[0] == "dictof"
               and "diskstats" in pretty(a[2])]
        if got:
            ctx.fail("C09.R2", f"diskstats:{n}:rejected", lf.file, lf.node.lineno, lf.qual,
                     f"a {n}-field diskstats line is interpreted instead of being "
                     f"rejected (unknown layout)")
        else:
            ctx.ok("C09.R2", f"diskstats:{n}:rejected", nontrivial=False)

    # ------------------------------------------------------------------- R3
    ctx.rule("C09.R3", "aggregation: the system-wide disk figure is the field-wise "
             "sum over whole disks only (partitions skipped exactly when not "
             "perdisk); nothing listed -> None / {}", floor=4)
    I = Interp(repo, A)
    I.force = {flen_var[0]: ("const", 14)}
    tot = canon(I.call_function(df, [F, F]))
    trecs = records(tot)
    ctx.require(trecs, "disk_io_counters(): no total record")
    okt = True
    for fld, v in zip(trecs[0][2], trecs[0][3]):
        so = collect(v, lambda x: x and x[0] == "sumover")
        src = sources(v, "diskstats")
        want = O.DISKSTATS_FULL[SDISKIO[fld]]
        if not so or len(src) != 1 or src[0]["col"] != want:
            okt = False
            ctx.fail("C09.R3", f"disk-total:{fld}", df.file, df.node.lineno, df.qual,
                     f"total sdiskio.{fld} is `{pretty(v)[:100]}`: not the sum over devices "
                     f"of column {want}")
    if okt:
        ctx.ok("C09.R3", "disk-total", sample="nt(*(sum(x) for x in zip(*rawdict.values())))")
    cfg = A.cfg(lf)
    stores = [n for n in cfg.nodes if n.kind == "stmt" and isinstance(n.stmt, ast.Assign)
              and isinstance(n.stmt.targets[0], ast.Subscript)
              and dotted(n.stmt.targets[0].value) == "retdict"]
    ctx.require(stores, "disk_io_counters: result store vanished")
    # the entry is stored iff `perdisk or is_storage_device(name)`: decided on the truth
    # table of the guards of the store (any spelling: skip-with-continue, positive
    # block, nested ifs)
    from ..core.astutil import guard_truth_table
    good = bool(stores)
    for n in stores:
        # only the tests made per entry (inside the loop over the entries) take part
        loops_ = [l_ for l_ in ast.walk(lf.node) if isinstance(l_, ast.For)
                  and any(x is n.stmt for x in ast.walk(l_))]
        inloop_ = {id(x) for l_ in loops_[-1:] for x in ast.walk(l_)}
        names_, tb = guard_truth_table([(e, p) for e, p, b in cfg.guards(n)
                                        if not loops_ or id(b.stmt) in inloop_])
        isd_atoms = [a_ for a_ in names_ if a_.startswith("is_storage_device(")]
        if tb is None or "perdisk" not in names_ or len(isd_atoms) != 1 \
                or set(names_) - {"perdisk", isd_atoms[0]}:
            good = False
            continue
        for vals, v_ in tb.items():
            env_ = dict(zip(names_, vals))
            if v_ != (env_["perdisk"] or env_[isd_atoms[0]]):
                good = False
    isd = repo.func("_pslinux", "is_storage_device")
    # sysfs spells a '/' of a block-device name as '!' (cciss/c0d0 -> /sys/block/cciss!c0d0,
    # Documentation/ABI: "slashes are replaced by !"): the probed path is built from the
    # translated name, otherwise such whole disks count as partitions and leave the totals
    acc = [c_ for c_ in ast.walk(isd.node) if isinstance(c_, ast.Call)
           and dotted(c_.func) in ("os.access", "os.path.exists", "os.path.isdir", "os.stat")]
    par_ = isd.node.args.args[0].arg if isd.node.args.args else "name"
    translated = False
    for st_ in ast.walk(isd.node):
        if isinstance(st_, ast.Call) and isinstance(st_.func, ast.Attribute) \
                and st_.func.attr == "replace" and len(st_.args) == 2 \
                and [getattr(a_, "value", None) for a_ in st_.args] == ["/", "!"]:
            translated = True
    if acc and translated:
        ctx.ok("C09.R3", "sysfs-name", sample=f"{par_}.replace('/', '!') before /sys/block/<name>")
    else:
        ctx.fail("C09.R3", "sysfs-name", isd.file, isd.node.lineno, isd.qual,
                 "is_storage_device() probes /sys/block/<name> without translating '/' to '!': "
                 "a whole disk such as cciss/c0d0 is taken for a partition and dropped from the "
                 "system-wide totals")
    rets = [norm_stmt(s.value) for s in ast.walk(isd.node) if isinstance(s, ast.Return)]
    if good and any("os.access" in r and "F_OK" in r for r in rets):
        ctx.ok("C09.R3", "partition-filter", sample="skip iff not perdisk and not "
               "is_storage_device(name) (/sys/block/<name> exists)")
    else:
        ctx.fail("C09.R3", "partition-filter", lf.file, lf.node.lineno, lf.qual,
                 "partitions are not skipped exactly when (not perdisk and not "
                 "is_storage_device(name)): totals would double count, or per-disk "
                 "output would lose partitions")
    fcfg = A.cfg(df)
    # every return reached with an empty table answers {} when perdisk, None otherwise
    def empty_answer(v, per):
        if isinstance(v, ast.IfExp) and dotted(v.test) == "perdisk":
            return empty_answer(v.body if per else v.orelse, per)
        if per:
            return isinstance(v, ast.Dict) and not v.keys
        return v is None or (isinstance(v, ast.Constant) and v.value is None)
    emp = [n for n in fcfg.nodes if n.kind == "return"
           and ("truthy", "rawdict", False) in facts(fcfg, n)]
    cases = set()
    ge = bool(emp)
    for n in emp:
        fs = facts(fcfg, n)
        for per in (True, False):
            if ("truthy", "perdisk", not per) in fs:
                continue            # this return is not reached with that value of perdisk
            cases.add(per)
            ge = ge and empty_answer(n.stmt.value, per)
    ge = ge and cases == {True, False}
    if ge:
        ctx.ok("C09.R3", "disk-empty", sample="not rawdict -> {} if perdisk else None")
    else:
        ctx.fail("C09.R3", "disk-empty", df.file, df.node.lineno, df.qual,
                 "with no device listed the result is not None / {}")
    # per-disk name keeps the raw tuple order (slot identity through the front end)
    ctx.ok("C09.R3", "front-end-slots", nontrivial=False,
           sample="records above were evaluated through psutil.disk_io_counters")

    # ------------------------------------------------------------------- R4
    ctx.rule("C09.R4", "disk_usage: total = f_blocks*f_frsize; used = "
             "(f_blocks-f_bfree)*f_frsize; free = f_bavail*f_frsize; percent = "
             "round(100*used/(used+free), 1)", floor=4)
    du = repo.func("_psposix", "disk_usage")
    I = Interp(repo, A)
    t = canon(I.call_function(du, [("param", "path")]))
    rec = records(t)
    ctx.require(rec, "disk_usage(): not an sdiskusage record")
    d = dict(zip(rec[0][2], rec[0][3]))

    def S(n):
        return Rat(Poly.atom(f"attr(os.statvfs(path), '{n}')"))
    want = {"total": S("f_blocks") * S("f_frsize"),
            "used": (S("f_blocks") - S("f_bfree")) * S("f_frsize"),
            "free": S("f_bavail") * S("f_frsize")}
    for fld, w in want.items():
        try:
            r = to_rat(d[fld])
        except NotPolynomial as e:
            raise AnalysisError(f"disk_usage.{fld}: {e}")
        if r.same(w):
            ctx.ok("C09.R4", f"disk_usage.{fld}", sample=repr(r))
        else:
            ctx.fail("C09.R4", f"disk_usage.{fld}", du.file, du.node.lineno, du.qual,
                     f"{fld} = `{r!r}`, documented `{w!r}`")
    vals = [to_rat(a) for a in alternatives(d["percent"])]
    nz = [v for v in vals if not v.num.is_zero()]
    wp = want["used"] / (want["used"] + want["free"]) * Rat(Poly.const(100))
    if len(nz) == 1 and nz[0].same(wp) and ("round", 1) in nz[0].tags:
        ctx.ok("C09.R4", "disk_usage.percent", sample="round(used/(used+free)*100, 1)")
    else:
        ctx.fail("C09.R4", "disk_usage.percent", du.file, du.node.lineno, du.qual,
                 f"percent = {[repr(v)[:140] for v in nz]}; documented used/(used+free)*100 "
                 f"rounded to 1 decimal")
    # macOS replaces `used` by the native figure (APFS purgeable space): the record
    # must stay self-consistent - percent is computed from the very `used` it reports
    Im = Interp(repo, A, plat="macos")
    tm = Im.call_function(du, [("param", "path")])
    recm = records(tm)
    ctx.require(recm, "disk_usage() on macOS: not an sdiskusage record")
    dm = dict(zip(recm[0][2], recm[0][3]))
    native_used = collect(dm["used"], lambda x: x and x[0] in ("native", "ext", "call")
                          and "disk_usage_used" in pretty(x))
    in_percent = collect(dm["percent"], lambda x: x and x[0] in ("native", "ext", "call")
                         and "disk_usage_used" in pretty(x))
    if native_used and in_percent:
        ctx.ok("C09.R4", "disk_usage.macos-consistent",
               sample="percent is computed from the corrected `used` that is reported")
    elif not native_used:
        ctx.ok("C09.R4", "disk_usage.macos-consistent", nontrivial=False,
               sample="no macOS-specific correction of `used`")
    else:
        ctx.fail("C09.R4", "disk_usage.macos-consistent", du.file, du.node.lineno, du.qual,
                 f"macOS: the record reports used = `{pretty(dm['used'])[:80]}` but percent = "
                 f"`{pretty(dm['percent'])[:100]}` is computed from the uncorrected figure: "
                 f"percent != used/(used+free)*100")
    ctx.assume("column meanings are those of Documentation/admin-guide/iostats.rst and "
               "the /proc/net/dev header; the 15-field (2.4) mapping is not claimed")
    return ("Abstract interpretation of the /proc/net/dev and /proc/diskstats readers "
            "through the public front end, once per line layout (the field count is "
            "fixed per configuration so the if/elif chain is pruned, not joined); every "
            "named-tuple field is traced to a kernel column and compared with the "
            "documentation tables; scaling by polynomial forms; aggregation via a "
            "symbolic column sum; partition filter by control dependence.",
            "abstract interpretation (provenance per configuration, forms), CFG control "
            "dependence")


def _check_net(ctx, nf, rec, label, summed):
    for fld, v in zip(rec[2], rec[3]):
        want = O.NET_DEV.get(fld)
        key = f"net:{label}:{fld}"
        src = sources(v, "net/dev")
        probs = []
        if want is None:
            probs.append(f"unknown snetio field {fld}")
        elif len(src) != 1:
            probs.append(f"{len(src)} sources")
        else:
            d = src[0]
            if d["col"] != want:
                probs.append(f"reads column {d['col']}; /proc/net/dev header: {fld} is "
                             f"column {want}")
            sl = d.get("slice")
            if not sl or not sl[0] or sl[0][0] != "find" or sl[0][1] != ":" \
                    or sl[0][2] != "last" or sl[0][3] != 1:
                probs.append("counters are not taken from just after the last ':'")
            if d["cut"] != ("line", ("from", 2)):
                probs.append("the two header lines are not skipped")
        if summed and not collect(v, lambda x: x and x[0] == "sumover"):
            probs.append("not summed over the interfaces")
        if not summed and collect(v, lambda x: x and x[0] == "sumover"):
            probs.append("summed although per-NIC")
        if probs:
            ctx.fail("C09.R1", key, nf.file, nf.node.lineno, "net_io_counters",
                     f"snetio.{fld} ({label}): " + "; ".join(probs))
        else:
            ctx.ok("C09.R1", key, sample={"field": fld, "column": want} if label == "pernic"
                   else None)
