"""C15 - wait() and wait_procs(): right exit status, never early, timeouts."""

import ast

from ..core.analysis import Analysis, assigned_names, facts, facts_deref
from ..core.astutil import deref, const_value, method_calls
from ..core.cfg import decompose_guard
from ..core.pyrepo import Repo, calls_in, dotted, norm_stmt
from ..core.report import AnalysisError


def eval_pred(expr, env):
    """Evaluate a side-effect-free guard predicate over sample values of its
    variables (sign-domain partition: None / negative / zero / positive).
    Returns True/False, or None when the expression is outside the subset."""
    try:
        return bool(_ev(expr, env))
    except _Unknown:
        return None
    except TypeError:
        return "TypeError"


class _Unknown(Exception):
    pass


def _ev(e, env):
    if isinstance(e, ast.Constant):
        return e.value
    if isinstance(e, ast.Name):
        if e.id in env:
            return env[e.id]
        raise _Unknown
    if isinstance(e, ast.UnaryOp):
        v = _ev(e.operand, env)
        if isinstance(e.op, ast.Not):
            return not v
        if isinstance(e.op, ast.USub):
            return -v
        raise _Unknown
    if isinstance(e, ast.BoolOp):
        if isinstance(e.op, ast.And):
            r = True
            for v in e.values:
                r = _ev(v, env)
                if not r:
                    return r
            return r
        r = False
        for v in e.values:
            r = _ev(v, env)
            if r:
                return r
        return r
    if isinstance(e, ast.Compare):
        l = _ev(e.left, env)
        for op, c in zip(e.ops, e.comparators):
            r = _ev(c, env)
            t = type(op)
            if t is ast.Is:
                ok = l is r
            elif t is ast.IsNot:
                ok = l is not r
            elif t is ast.Eq:
                ok = l == r
            elif t is ast.NotEq:
                ok = l != r
            elif t is ast.Lt:
                ok = l < r
            elif t is ast.LtE:
                ok = l <= r
            elif t is ast.Gt:
                ok = l > r
            elif t is ast.GtE:
                ok = l >= r
            else:
                raise _Unknown
            if not ok:
                return False
            l = r
        return True
    raise _Unknown


def run(ctx):
    repo = Repo(ctx.repo)
    A = Analysis(repo)
    ctx.stat("functions_analysed", 5)
    _r1(ctx, repo, A)
    wp = repo.func("_psposix", "wait_pid")
    sl = repo.func("_psposix", "wait_pid.sleep", required=False)
    _r2(ctx, repo, A, wp)
    _r3(ctx, repo, A, wp, sl)
    _r4(ctx, repo, A, wp, sl)
    _r5(ctx, repo, A, wp)
    _r6(ctx, repo, A)
    ctx.assume("how late a poll actually fires and wall-clock bounds are timing "
               "facts and are not decided; monotonic _timer() is assumed")
    return ("CFG dominance and control dependence in Process.wait, _psposix.wait_pid "
            "(+ its sleep() closure) and wait_procs: validation before waiting, exit "
            "status returned only after waitpid reported the child, None only after "
            "pid_exists turned false, deadline test before every sleep, interval "
            "bounds of the back-off, status decoding table, gone/alive bookkeeping.",
            "CFG dominance / control dependence, sign-domain evaluation of guard "
            "predicates, interval reasoning on the back-off")


# ------------------------------------------------------------------------- R1
def _r1(ctx, repo, A):
    ctx.rule("C15.R1", "Process.wait: a negative timeout raises ValueError before "
             "anything is waited for; the cached exit code is returned when set and "
             "is written only from _proc.wait's result", floor=3)
    w = repo.func("psutil", "Process.wait")
    cfg = A.cfg(w)
    inner = method_calls(w.node, "wait", "self._proc")
    ctx.require(inner, "Process.wait no longer calls self._proc.wait")
    pname = [p.arg for p in w.node.args.args if p.arg != "self"][0]
    raises = [n for n in cfg.nodes if n.kind == "raise"
              and isinstance(n.stmt.exc, (ast.Call, ast.Name))
              and "ValueError" in norm_stmt(n.stmt.exc)]
    good = False
    why = "no `raise ValueError` for a negative timeout"
    for r in raises:
        gs = cfg.guards(r)
        if len(gs) != 1 or gs[0][1] is not True:
            continue
        test, _, br = gs[0]
        samples = {None: False, -1: True, -0.001: True, 0: False, 0.0: False, 3: False}
        res = {k: eval_pred(test, {pname: k}) for k in samples}
        if res != samples:
            why = (f"the test `{norm_stmt(test)}` does not reject exactly the negative "
                   f"timeouts: {res}")
            continue
        tnode = [n for n in cfg.nodes if n.kind == "test" and n.expr is test][0]
        if all(cfg.dominates(tnode, n) for c in inner for n in cfg.owners(c)):
            good = True
        else:
            why = "the validation does not dominate self._proc.wait()"
    if good:
        ctx.ok("C15.R1", "wait:negative-timeout", sample="timeout<0 -> ValueError "
               "dominates self._proc.wait(timeout)")
    else:
        ctx.fail("C15.R1", "wait:negative-timeout", w.file, w.node.lineno, w.qual, why)
    # the timeout reaches the platform wait unchanged
    c = inner[0]
    if c.args and dotted(c.args[0]) == pname and not assigned_names(w.node).get(pname):
        ctx.ok("C15.R1", "wait:timeout-forwarded", sample=norm_stmt(c))
    else:
        ctx.fail("C15.R1", "wait:timeout-forwarded", w.file, c.lineno, w.qual,
                 f"`{norm_stmt(c)}` does not pass the caller's timeout")
    # memo
    writes = []
    for fi in repo.all_funcs("psutil"):
        if fi.cls not in ("Process", "Popen"):
            continue
        for st in ast.walk(fi.node):
            if isinstance(st, ast.Assign) and any(dotted(t) == "self._exitcode"
                                                  for t in st.targets):
                writes.append((fi, st))
    bad = [f"{fi.qual}: {norm_stmt(st)}" for fi, st in writes
           if not (fi.qual == "Process._init" and dotted(st.value) == "_SENTINEL")
           and not (fi.qual == "Process.wait" and (
               st.value in inner or norm_stmt(deref(fi.node, st.value)) in
               {norm_stmt(x) for x in inner}))]
    # a later call answers from the cache: the platform wait is reached only while
    # the cache still holds the sentinel, and what is returned is the cache (or the
    # value stored in it by this call) - whichever way the test is spelled
    unset = ("is", "self._exitcode", "_SENTINEL", True)
    guarded = all(unset in facts_deref(cfg, n, w.node) for c_ in inner for n in cfg.owners(c_))
    allrets = [n for n in cfg.nodes if n.kind == "return"]
    from_cache = bool(allrets) and all(
        n.stmt.value is not None and (
            norm_stmt(deref(w.node, n.stmt.value)) == "self._exitcode"
            or any(norm_stmt(deref(w.node, n.stmt.value)) == norm_stmt(deref(w.node, st.value))
                   for fi, st in writes if fi.qual == "Process.wait"))
        for n in allrets)
    cached = guarded and from_cache
    # psutil.Popen keeps TWO records of the exit status (its own and the wrapped
    # subprocess.Popen's returncode, which subprocess's poll()/__exit__ fill in by
    # themselves - with 0 when the child was already reaped): wait() answers from the
    # subprocess record when it is set, so it must also WRITE what it learned there
    pw = repo.func("psutil", "Popen.wait", required=False)
    if pw is not None:
        def is_rc(e):
            d_ = dotted(e) or ""
            return d_.endswith("subproc.returncode")
        reads_rc = any(isinstance(r_, ast.Return) and r_.value is not None
                       and is_rc(deref(pw.node, r_.value)) for r_ in ast.walk(pw.node))
        sup = [c_ for c_ in ast.walk(pw.node) if isinstance(c_, ast.Call)
               and isinstance(c_.func, ast.Attribute) and c_.func.attr == "wait"
               and isinstance(c_.func.value, ast.Call) and dotted(c_.func.value.func) == "super"]
        stores_rc = [st_ for st_ in ast.walk(pw.node) if isinstance(st_, ast.Assign)
                     and any(is_rc(t_) for t_ in st_.targets)
                     and any(norm_stmt(deref(pw.node, st_.value)) == norm_stmt(c_) for c_ in sup)]
        if not reads_rc or (sup and stores_rc):
            ctx.ok("C15.R1", "popen:wait-writes-back", sample="subproc.returncode = super().wait(timeout)")
        else:
            ctx.fail("C15.R1", "popen:wait-writes-back", pw.file, pw.node.lineno, pw.qual,
                     "Popen.wait() answers from subprocess's returncode when it is set but no "
                     "longer stores the status it obtained there: subprocess's own poll()/"
                     "__exit__ then records 0 for the already-reaped child and every later "
                     "wait() returns 0 instead of the real exit status")
    if bad or not cached:
        ctx.fail("C15.R1", "wait:exitcode-memo", w.file, w.node.lineno, w.qual,
                 ("the cached exit code is written elsewhere: " + "; ".join(bad)) if bad
                 else "wait() no longer returns the cached exit code on later calls")
    else:
        ctx.ok("C15.R1", "wait:exitcode-memo",
               sample={"writers": [f"{fi.qual}: {norm_stmt(st)}" for fi, st in writes]})


# ------------------------------------------------------------------------- R2
def _r2(ctx, repo, A, wp):
    ctx.rule("C15.R2", "wait_pid never answers early: an exit status is returned "
             "only where waitpid returned a non-zero pid; None only after "
             "pid_exists() turned false under ChildProcessError; EINTR re-polls",
             floor=4)
    cfg = A.cfg(wp)
    wcalls = [c for c in calls_in(wp.node) if dotted(c.func) in ("os.waitpid", "_waitpid")]
    ctx.require(wcalls, "wait_pid: os.waitpid call vanished")
    # names bound from waitpid
    bound = None
    for st in ast.walk(wp.node):
        if isinstance(st, ast.Assign) and st.value in wcalls \
                and isinstance(st.targets[0], ast.Tuple):
            bound = [dotted(e) for e in st.targets[0].elts]
            wtry = st
    ctx.require(bound and len(bound) == 2, "wait_pid: `retpid, status = os.waitpid(...)` vanished")
    retpid, status = bound
    for n in cfg.nodes:
        if n.kind != "return":
            continue
        v = n.stmt.value
        isnone = v is None or (isinstance(v, ast.Constant) and v.value is None)
        fs = facts(cfg, n)
        key = f"wait_pid:return:{norm_stmt(n.stmt)}"
        if not isnone:
            if ("cmp", retpid, "==", 0, False) in fs or ("cmp", retpid, "!=", 0, True) in fs \
                    or ("truthy", retpid, True) in fs:
                # and it is in the else: of the try around waitpid (no exception)
                ctx.ok("C15.R2", key, sample=f"under {retpid} != 0")
            else:
                ctx.fail("C15.R2", key, wp.file, n.line, wp.qual,
                         f"`{norm_stmt(n.stmt)}` can execute while waitpid reported the "
                         f"child still running ({retpid} == 0 not excluded)")
        else:
            # None only after `while _pid_exists(pid)` became false
            good = False
            for e, pol, b in cfg.guards(n):
                if pol is False and isinstance(e, ast.Call) \
                        and dotted(e.func) in ("_pid_exists", "pid_exists") \
                        and e.args and dotted(e.args[0]) == "pid":
                    good = True
            # and inside the ChildProcessError handler
            inh = False
            for t in ast.walk(wp.node):
                if isinstance(t, ast.Try):
                    for h in t.handlers:
                        if "ChildProcessError" in norm_stmt(h.type or ast.Constant(None)) \
                                and any(s is n.stmt for st in h.body for s in ast.walk(st)):
                            inh = True
            if good and inh:
                ctx.ok("C15.R2", key, sample="None after `while _pid_exists(pid)` exits, "
                       "in the ChildProcessError handler")
            else:
                ctx.fail("C15.R2", key, wp.file, n.line, wp.qual,
                         "`return None` is reachable while the non-child process "
                         "still exists" if not good else
                         "`return None` outside the ChildProcessError handler")
    # EINTR handler re-polls: InterruptedError handler has no return/raise
    found = False
    for t in ast.walk(wp.node):
        if isinstance(t, ast.Try) and any(wc in list(ast.walk(b)) for b in t.body for wc in wcalls):
            for h in t.handlers:
                if "InterruptedError" in norm_stmt(h.type or ast.Constant(None)):
                    found = True
                    esc = [s for st in h.body for s in ast.walk(st)
                           if isinstance(s, (ast.Return, ast.Raise, ast.Break))]
                    if esc:
                        ctx.fail("C15.R2", "wait_pid:eintr", wp.file, h.lineno, wp.qual,
                                 "EINTR ends the wait instead of polling again")
                    else:
                        ctx.ok("C15.R2", "wait_pid:eintr", sample="InterruptedError -> "
                               "sleep and poll again")
    ctx.require(found, "wait_pid: InterruptedError handler vanished")
    # pid <= 0 rejected (waitpid would wait for a process group)
    pidarg = dotted(wcalls[0].args[0])
    ok = False
    for n in cfg.owners(wcalls[0]):
        for f in facts(cfg, n):
            if f[0] == "cmp" and f[1] == pidarg and (
                    (f[2] == "<=" and f[3] == 0 and f[4] is False)
                    or (f[2] == ">" and f[3] == 0 and f[4] is True)
                    or (f[2] == "<" and f[3] == 1 and f[4] is False)):
                ok = True
    if ok:
        ctx.ok("C15.R2", "wait_pid:pid-positive", sample="pid <= 0 -> ValueError before waitpid")
    else:
        ctx.fail("C15.R2", "wait_pid:pid-positive", wp.file, wcalls[0].lineno, wp.qual,
                 "os.waitpid can be called with pid <= 0 (would wait for any child / "
                 "a process group)")


# ------------------------------------------------------------------------- R3
def _deadline_var(wp, tparam):
    """(D, X): the variable assigned `X() + <timeout>` and the text of the
    clock call X()."""
    for st in ast.walk(wp.node):
        if isinstance(st, ast.Assign) and len(st.targets) == 1 \
                and isinstance(st.targets[0], ast.Name) \
                and isinstance(st.value, ast.BinOp) and isinstance(st.value.op, ast.Add):
            l, r = st.value.left, st.value.right
            for a, b in ((l, r), (r, l)):
                if isinstance(a, ast.Call) and not a.args and dotted(b) == tparam:
                    return st.targets[0].id, norm_stmt(a).replace(" ", ""), st
    return None, None, None


def _is_deadline_test(expr, truth, D, X):
    """Is (expr == truth) the fact `X() >= D`?"""
    if not (isinstance(expr, ast.Compare) and len(expr.ops) == 1):
        return False
    l = norm_stmt(expr.left).replace(" ", "")
    r = norm_stmt(expr.comparators[0]).replace(" ", "")
    op = type(expr.ops[0])
    if (l, r) == (X, D):
        return (op is ast.GtE and truth) or (op is ast.Lt and not truth)
    if (l, r) == (D, X):
        return (op is ast.LtE and truth) or (op is ast.Gt and not truth)
    return False


def _r3(ctx, repo, A, wp, sl):
    ctx.rule("C15.R3", "deadline honoured: TimeoutExpired(timeout, pid, name) is "
             "raised only where clock() >= deadline holds; with a timeout every "
             "sleep is preceded by that test (timeout=0 never sleeps); deadline = "
             "clock() + timeout", floor=3)
    funcs = [f for f in (wp, sl) if f is not None]
    pnames = [a.arg for a in wp.node.args.args]
    ctx.require(len(pnames) >= 2, "wait_pid signature changed")
    pidp, tparam = pnames[0], pnames[1]
    D, X, dst = _deadline_var(wp, tparam)
    if D is None:
        ctx.fail("C15.R3", "stop_at", wp.file, wp.node.lineno, wp.qual,
                 f"no deadline of the form `clock() + {tparam}` is computed")
        return
    ctx.ok("C15.R3", "stop_at", sample=norm_stmt(dst))
    sleeps = []
    for f in funcs:
        for c in calls_in(f.node):
            tg = repo.resolve_call(c, f, "linux")
            if ("ext", "time.sleep") in tg:
                sleeps.append((f, c))
    ctx.require(sleeps, "wait_pid: no sleep call found (busy loop?)")
    raises = []
    for f in funcs:
        cfg = A.cfg(f)
        for n in cfg.nodes:
            if n.kind == "raise" and isinstance(n.stmt.exc, ast.Call) \
                    and dotted(n.stmt.exc.func) == "TimeoutExpired":
                raises.append((f, cfg, n))
    ctx.require(raises, "wait_pid: `raise TimeoutExpired` vanished")
    import copy as _copy

    class _Past(ast.NodeTransformer):
        """deadline comparisons -> the boolean `__past__` (deadline reached)"""
        def visit_Compare(self, c):
            if _is_deadline_test(c, True, D, X):
                return ast.copy_location(ast.Name("__past__", ast.Load()), c)
            if _is_deadline_test(c, False, D, X):
                return ast.copy_location(ast.UnaryOp(ast.Not(), ast.Name("__past__", ast.Load())), c)
            return self.generic_visit(c)

    def taken(expr, pol, tv, past):
        """is the branch (expr, pol) taken for timeout=tv, deadline reached=past?
        None when the test does not depend on them / cannot be evaluated."""
        e2 = _Past().visit(_copy.deepcopy(expr))
        names_ = {x.id for x in ast.walk(e2) if isinstance(x, ast.Name)}
        if not ({"__past__", tparam} & names_):
            return None
        v = eval_pred(e2, {tparam: tv, "__past__": past})
        if v not in (True, False):
            return None
        return v is pol
    for f, cfg, n in raises:
        # the raise is reachable only with a timeout whose deadline has been reached
        dl = True
        decided = False
        for tv, past in ((None, False), (None, True), (5, False), (5, True)):
            r_ = True
            for e, pol, _ in cfg.guards(n):
                tk = taken(e, pol, tv, past)
                if tk is None:
                    continue
                decided = True
                if not tk:
                    r_ = False
            if r_ and not (tv is not None and past):
                dl = False
        dl = dl and decided
        call = n.stmt.exc
        a0 = dotted(call.args[0]) if call.args else None
        kws = {k.arg: dotted(k.value) for k in call.keywords}
        pos = [dotted(a) for a in call.args]
        pid_ok = kws.get("pid") == pidp or (len(pos) > 1 and pos[1] == pidp)
        if dl and (a0 == tparam or kws.get("seconds") == tparam) and pid_ok:
            ctx.ok("C15.R3", "timeout-raise",
                   sample=norm_stmt(n.stmt) + f" under {X} >= {D}")
        else:
            ctx.fail("C15.R3", "timeout-raise", f.file, n.line, f.qual,
                     "TimeoutExpired is raised without the deadline having passed"
                     if not dl else "TimeoutExpired does not carry (timeout, pid)")
    for f, c in sleeps:
        cfg = A.cfg(f)
        for n in cfg.owners(c):
            # branches that can only be taken when there is no timeout or the
            # deadline has not been reached
            safe = []
            for b in cfg.nodes:
                if b.kind != "branch" or b.polarity not in (True, False):
                    continue
                t_past = taken(b.expr, b.polarity, 5, True)
                t_ok = [taken(b.expr, b.polarity, tv, past)
                        for tv, past in ((None, False), (None, True), (5, False))]
                if t_past is False and any(x for x in t_ok):
                    safe.append(b)
            good = bool(safe) and not cfg.path_exists(cfg.entry, n, avoid=set(safe))
            if good:
                ctx.ok("C15.R3", f"sleep:{f.qual}", sample="every path with a timeout "
                       f"passes `{X} >= {D}` (false) before sleeping")
            else:
                ctx.fail("C15.R3", f"sleep:{f.qual}", f.file, c.lineno, f.qual,
                         f"`{norm_stmt(c)}` can run without the deadline having been "
                         f"tested first (timeout=0 would sleep; the deadline could be "
                         f"overshot by more than one poll)")
    if sl is not None:
        direct = [c for f, c in sleeps if f is wp]
        for c in direct:
            ctx.fail("C15.R3", "sleep:direct", wp.file, c.lineno, wp.qual,
                     "wait_pid sleeps without going through the deadline-checking "
                     "helper")
    # Windows: the timeout is spent in the native wait first and then in the
    # PID-lingering poll; ONE deadline covers both, so it is taken before the
    # native wait blocks (a deadline taken afterwards restarts the timeout)
    ww = repo.func("_pswindows", "Process.wait", required=False)
    if ww is not None:
        wcfg = A.cfg(ww)
        nat = [n for c in calls_in(ww.node) if (dotted(c.func) or "").endswith("proc_wait")
               for n in wcfg.owners(c)]
        dvars = set()
        for n in wcfg.nodes:
            if n.kind == "raise" and isinstance(n.stmt.exc, ast.Call) \
                    and (dotted(n.stmt.exc.func) or "").endswith("TimeoutExpired"):
                for e, p_, _ in wcfg.guards(n):
                    for cmp_ in [x for x in ast.walk(e) if isinstance(x, ast.Compare)]:
                        for side in [cmp_.left] + list(cmp_.comparators):
                            if isinstance(side, ast.Name):
                                dvars.add(side.id)
        dstores = [n for st_ in ast.walk(ww.node) if isinstance(st_, ast.Assign)
                   and any(isinstance(t_, ast.Name) and t_.id in dvars for t_ in st_.targets)
                   and any(isinstance(c_, ast.Call) for c_ in ast.walk(st_.value))
                   for n in wcfg.nodes_of(st_)]
        if nat and dstores and not any(wcfg.path_exists(n_, d_) for n_ in nat for d_ in dstores):
            ctx.ok("C15.R3", "windows:one-deadline", sample="deadline taken before cext.proc_wait()")
        elif nat and dstores:
            ctx.fail("C15.R3", "windows:one-deadline", ww.file, ww.node.lineno, ww.qual,
                     "the deadline of the PID-lingering poll is taken after the native wait "
                     "returned: wait(timeout) can block for up to twice the timeout before "
                     "raising TimeoutExpired")
        else:
            raise AnalysisError("_pswindows.Process.wait: native wait or deadline not found")


# ------------------------------------------------------------------------- R4
def _r4(ctx, repo, A, wp, sl):
    ctx.rule("C15.R4", "poll interval stays within [0.0001, 0.04]: it starts at "
             "0.0001 and is only ever replaced by min(2*interval, 0.04)", floor=1)
    # the polling interval: the variable re-bound from the back-off helper's result
    ivar = "interval"
    if sl is not None:
        got_ = [dotted(s_.targets[0]) for s_ in ast.walk(wp.node) if isinstance(s_, ast.Assign)
                and isinstance(s_.value, ast.Call) and dotted(s_.value.func) == sl.name
                and not any(x is s_ for x in ast.walk(sl.node))]
        if got_ and len(set(got_)) == 1 and got_[0]:
            ivar = got_[0]
    asg = [s for s in ast.walk(wp.node) if isinstance(s, (ast.Assign, ast.AugAssign))
           and any(dotted(t) == ivar for t in
                   (s.targets if isinstance(s, ast.Assign) else [s.target]))
           and not (sl is not None and any(x is s for x in ast.walk(sl.node)))]
    ctx.require(asg, "wait_pid: `interval` vanished")

    def cv(e):
        # a literal, or a module-level constant of _psposix
        if isinstance(e, ast.Constant):
            return e.value
        if isinstance(e, ast.Name):
            vs_ = repo.mod("_psposix").assigns.get(e.id, [])
            if len(vs_) == 1 and isinstance(vs_[0], ast.Constant):
                return vs_[0].value
        return None
    init = [s for s in asg if isinstance(s, ast.Assign) and cv(s.value) is not None]
    probs = []
    if len(init) != 1 or cv(init[0].value) != 0.0001:
        probs.append("polling does not start at 0.0001 s: "
                     + ", ".join(norm_stmt(s) for s in init))
    for s in asg:
        if s in init:
            continue
        v = getattr(s, "value", None)
        if isinstance(s, ast.Assign) and isinstance(v, ast.Call) \
                and dotted(v.func) == (sl.name if sl is not None else "sleep") \
                and len(v.args) == 1 and dotted(v.args[0]) == ivar:
            continue
        probs.append(f"`{norm_stmt(s)}` updates the interval outside the back-off helper")
    if sl is None:
        probs.append("back-off helper sleep() vanished")
    else:
        rets = [s for s in ast.walk(sl.node) if isinstance(s, ast.Return)]
        p = [a.arg for a in sl.node.args.args][0]
        for r in rets:
            v = r.value
            okr = False
            if isinstance(v, ast.Call) and dotted(v.func) in ("_min", "min") and len(v.args) == 2:
                txt = {norm_stmt(a).replace(" ", "") for a in v.args}
                caps = [cv(a) for a in v.args if cv(a) is not None]
                if caps and caps[0] == 0.04 and (f"{p}*2" in txt or f"2*{p}" in txt):
                    okr = True
            if not okr:
                probs.append(f"back-off is `{norm_stmt(v)}`, not min(2*interval, 0.04)")
        # the sleep itself uses the interval it was given
        for c in calls_in(sl.node):
            if ("ext", "time.sleep") in repo.resolve_call(c, sl, "linux"):
                if not (c.args and dotted(c.args[0]) == p):
                    probs.append(f"`{norm_stmt(c)}` does not sleep for the interval")
        mn = wp.node.args
        # _min default must be the builtin min
        names = [a.arg for a in mn.args]
        defaults = dict(zip(names[len(names) - len(mn.defaults):], mn.defaults))
        if "_min" in defaults and dotted(defaults["_min"]) != "min":
            probs.append("_min no longer defaults to min")
    if probs:
        ctx.fail("C15.R4", "interval-bounds", wp.file, asg[0].lineno, wp.qual,
                 "; ".join(probs))
    else:
        ctx.ok("C15.R4", "interval-bounds",
               sample="interval0=0.0001; interval' = min(2*interval, 0.04) => "
                      "interval in [1e-4, 0.04] by induction")
        ctx.ok("C15.R4", "interval-used", sample="_sleep(interval)")


# ------------------------------------------------------------------------- R5
def _r5(ctx, repo, A, wp):
    ctx.rule("C15.R5", "status decoding: WIFEXITED -> WEXITSTATUS(status); "
             "WIFSIGNALED -> negated WTERMSIG(status)", floor=2)
    cfg = A.cfg(wp)
    seen = set()
    for n in cfg.nodes:
        if n.kind != "return" or n.stmt.value is None:
            continue
        if isinstance(n.stmt.value, ast.Constant) and n.stmt.value.value is None:
            continue
        txt = norm_stmt(deref(wp.node, n.stmt.value)).replace(" ", "")
        g = [norm_stmt(e).replace(" ", "") for e, pol, _ in cfg.guards(n) if pol is True]
        if "os.WIFEXITED(status)" in g:
            seen.add("exit")
            if txt == "os.WEXITSTATUS(status)":
                ctx.ok("C15.R5", "exit-code", sample="WIFEXITED -> " + txt)
            else:
                ctx.fail("C15.R5", "exit-code", wp.file, n.line, wp.qual,
                         f"a normally exited child yields `{txt}`, not "
                         f"os.WEXITSTATUS(status)")
        elif "os.WIFSIGNALED(status)" in g:
            seen.add("sig")
            if txt in ("negsig_to_enum(-os.WTERMSIG(status))", "-os.WTERMSIG(status)",
                       "Negsignal(-os.WTERMSIG(status))"):
                ctx.ok("C15.R5", "term-signal", sample="WIFSIGNALED -> " + txt)
            else:
                ctx.fail("C15.R5", "term-signal", wp.file, n.line, wp.qual,
                         f"a signalled child yields `{txt}`, not the negated "
                         f"os.WTERMSIG(status)")
        else:
            ctx.fail("C15.R5", f"undecoded:{txt}", wp.file, n.line, wp.qual,
                     f"`return {txt}` is not under os.WIFEXITED / os.WIFSIGNALED: "
                     f"an undecoded wait status would be reported")
    ctx.require(seen == {"exit", "sig"}, "wait_pid: status decoding returns vanished")
    # the enum conversion is total: Negsignal(x) raises ValueError for a signal
    # that has no name (real-time signals 34..64), so every such call sits in a
    # try whose ValueError handler falls back to the plain number
    from ..core.astutil import enclosing_trys, handler_catches
    nconv = 0
    for fx in repo.all_funcs("_psposix"):
        for c in calls_in(fx.node):
            if dotted(c.func) not in ("Negsignal", "signal.Signals"):
                continue
            nconv += 1
            trys = enclosing_trys(fx.node, c)
            okv = any(handler_catches(h, ["ValueError"]) and any(
                isinstance(r_, ast.Return) and c.args and norm_stmt(r_.value) == norm_stmt(c.args[0])
                for b_ in h.body for r_ in ast.walk(b_)) for t_ in trys for h in t_.handlers)
            key = f"enum-total:{fx.qual}:{norm_stmt(c)}"
            if okv:
                ctx.ok("C15.R5", key, sample="Negsignal(n) | n on ValueError")
            else:
                ctx.fail("C15.R5", key, fx.file, c.lineno, fx.qual,
                         f"`{norm_stmt(c)}` raises ValueError for a signal number without a "
                         f"name (real-time signals): wait() on a child killed by such a "
                         f"signal fails, the exit status is lost")
    ng = repo.func("_psposix", "negsig_to_enum", required=False)
    if ng is not None:
        rets = [s for s in ast.walk(ng.node) if isinstance(s, ast.Return)]
        txts = {norm_stmt(r.value) for r in rets}
        if txts <= {"Negsignal(num)", "num"} and "Negsignal(num)" in txts:
            ctx.ok("C15.R5", "negsig", sample=sorted(txts), nontrivial=False)
        else:
            ctx.fail("C15.R5", "negsig", ng.file, ng.node.lineno, ng.qual,
                     f"negsig_to_enum returns {sorted(txts)}: the numeric value changes")


# ------------------------------------------------------------------------- R6
def _r6(ctx, repo, A):
    ctx.rule("C15.R6", "wait_procs bookkeeping: negative timeout rejected; every "
             "sweep iterates `alive` and is followed by alive = alive - gone; "
             "returncode / gone.add / callback happen together, only when wait() "
             "did not time out; result is (list(gone), list(alive)); the time slice is "
             "recomputed from the deadline before every timed wait", floor=6)
    wpf = repo.func("psutil", "wait_procs")
    cg = repo.func("psutil", "wait_procs.check_gone", required=False)
    if cg is None:
        # the closure lifted to module level and bound with functools.partial:
        # check_gone = partial(F, gone=gone, callback=callback); F is analysed with its
        # bound parameters renamed to what they are bound to
        import copy as _copy
        from ..core.pyrepo import FuncInfo
        for st_ in ast.walk(wpf.node):
            if isinstance(st_, ast.Assign) and dotted(st_.targets[0]) == "check_gone" \
                    and isinstance(st_.value, ast.Call) \
                    and (dotted(st_.value.func) or "").split(".")[-1] == "partial" \
                    and st_.value.args and isinstance(st_.value.args[0], ast.Name):
                F = repo.func("psutil", st_.value.args[0].id, required=False)
                if F is None:
                    continue
                ren = {k.arg: dotted(k.value) for k in st_.value.keywords
                       if k.arg and dotted(k.value)}
                fparams = [a.arg for a in F.node.args.args]
                for i_, a_ in enumerate(st_.value.args[1:]):
                    if i_ < len(fparams) and dotted(a_):
                        ren[fparams[i_]] = dotted(a_)
                node = _copy.deepcopy(F.node)
                for n_ in ast.walk(node):
                    if isinstance(n_, ast.Name) and n_.id in ren:
                        n_.id = ren[n_.id]
                    elif isinstance(n_, ast.arg) and n_.arg in ren:
                        n_.arg = ren[n_.arg]
                node.args.args = [a for a in node.args.args if a.arg not in ren.values()
                                  or a.arg in ("proc", "timeout")]
                cg = FuncInfo("psutil", F.qual, node)
    if cg is None:
        raise AnalysisError("anchor vanished: wait_procs' check_gone helper not found (neither a "
                            "closure nor a functools.partial of a module function)")
    cfg = A.cfg(wpf)
    # validation
    raises = [n for n in cfg.nodes if n.kind == "raise" and "ValueError" in norm_stmt(n.stmt)]
    good = False
    for r in raises:
        gs = cfg.guards(r)
        if len(gs) == 1 and gs[0][1] is True:
            samples = {None: False, -1: True, 0: False, 2.5: False}
            if {k: eval_pred(gs[0][0], {"timeout": k}) for k in samples} == samples:
                good = True
    if good:
        ctx.ok("C15.R6", "wait_procs:negative-timeout", sample="timeout<0 -> ValueError")
    else:
        ctx.fail("C15.R6", "wait_procs:negative-timeout", wpf.file, wpf.node.lineno,
                 wpf.qual, "a negative timeout is no longer rejected")
    # sweeps
    calls = [c for c in calls_in(wpf.node) if dotted(c.func) == "check_gone"]
    ctx.require(len(calls) >= 2, "wait_procs: check_gone calls vanished")
    fors = [f for f in ast.walk(wpf.node) if isinstance(f, ast.For)
            and any(c in list(ast.walk(f)) for c in calls)]
    for c in calls:
        f = [x for x in fors if c in list(ast.walk(x))]
        if not f or dotted(f[0].iter) != "alive" or not c.args \
                or dotted(c.args[0]) != dotted(f[0].target):
            ctx.fail("C15.R6", f"sweep-iterates-alive:{norm_stmt(c)}", wpf.file, c.lineno,
                     wpf.qual, f"`{norm_stmt(c)}` is not applied to each process still "
                     f"in `alive`")
        else:
            ctx.ok("C15.R6", f"sweep-iterates-alive:{norm_stmt(c)}",
                   sample=f"for {dotted(f[0].target)} in alive: {norm_stmt(c)}")
    upd = [n for n in cfg.nodes if n.kind == "stmt"
           and norm_stmt(n.stmt).replace(" ", "") in
           ("alive=alive-gone", "alive-=gone", "alive.difference_update(gone)",
            "alive=alive.difference(gone)")]
    for c in calls:
        f = [x for x in fors if c in list(ast.walk(x))]
        own_header = set(cfg.nodes_of(f[0])) if f else set()
        inloop = {id(x) for x in ast.walk(f[0])} if f else set()
        readers = []
        for n in cfg.nodes:
            if n in upd or n in own_header or n.kind in ("branch", "def"):
                continue
            if n.stmt is not None and id(n.stmt) in inloop:
                continue    # same sweep (e.g. the per-process time slice)
            exprs = [n.expr] if n.kind in ("test", "for") else [n.stmt]
            for e in exprs:
                if e is not None and any(isinstance(x, ast.Name) and x.id == "alive"
                                         and isinstance(x.ctx, ast.Load)
                                         for x in ast.walk(e)):
                    readers.append(n)
        bad = None
        for cn in cfg.owners(c):
            for r in readers:
                if r is cn:
                    continue
                if cfg.path_exists(cn, r, avoid=set(upd), skip_labels=("exc", "raise")):
                    bad = r
        key = f"sweep-update:{norm_stmt(c)}"
        if bad is None and upd:
            ctx.ok("C15.R6", key, sample="every path from the sweep to the next reader "
                   "of `alive` passes alive = alive - gone")
        else:
            ctx.fail("C15.R6", key, wpf.file, c.lineno, wpf.qual,
                     "after a sweep `alive` can be read again (line "
                     f"{bad.line if bad is not None else '?'}) before gone processes "
                     "are removed from it: a gone process would be waited on and "
                     "reported again")
    # check_gone body
    ccfg = A.cfg(cg)
    setrc = [n for n in ccfg.nodes if n.kind == "stmt" and isinstance(n.stmt, ast.Assign)
             and any(dotted(t) == "proc.returncode" for t in n.stmt.targets)]
    adds = [n for c in method_calls(cg.node, "add", "gone") for n in ccfg.owners(c)]
    cbs = [n for c in calls_in(cg.node) if dotted(c.func) == "callback" for n in ccfg.owners(c)]
    waits = method_calls(cg.node, "wait", "proc")
    probs = []
    if not (setrc and adds and cbs and waits):
        probs.append("returncode assignment / gone.add / callback / proc.wait vanished")
    else:
        # decided on what each bookkeeping statement's guards evaluate to, not on
        # how they are spelled: with rc = wait()'s result and R = proc.is_running(),
        # all three happen iff (rc is not None or not R) [callback: and callback
        # is not None]; none of them is reachable from the TimeoutExpired handler
        rcname = None
        for st in ast.walk(cg.node):
            if isinstance(st, ast.Assign) and st.value in waits:
                rcname = dotted(st.targets[0])
        cbname = "callback"

        class _Sub(ast.NodeTransformer):
            def visit_Call(self, n):
                if isinstance(n.func, ast.Attribute) and n.func.attr == "is_running":
                    return ast.copy_location(ast.Name("__running__", ast.Load()), n)
                return self.generic_visit(n)

        def reach(node, rc, running, cb):
            import copy
            ok_ = True
            for e, pol, _ in ccfg.guards(node):
                v = eval_pred(_Sub().visit(copy.deepcopy(e)),
                              {rcname or "returncode": rc, "__running__": running, cbname: cb})
                if v in (True, False):
                    if v is not pol:
                        ok_ = False
                else:
                    return None
            return ok_
        if rcname is None or dotted(setrc[0].stmt.value) != rcname:
            probs.append("proc.returncode is not wait()'s result")
        else:
            for nm_, nd in (("proc.returncode = rc", setrc[0]), ("gone.add(proc)", adds[0]),
                            ("callback(proc)", cbs[0])):
                for rc in (None, 0, 1, -9):
                    for running in (True, False):
                        for cb in (None, "f"):
                            want = (rc is not None or not running) and \
                                (cb is not None or nd is not cbs[0])
                            got = reach(nd, rc, running, cb)
                            if got is None:
                                probs.append(f"the guard of `{nm_}` is outside the evaluated subset")
                            elif got is not want:
                                probs.append(
                                    f"`{nm_}` {'happens' if got else 'does not happen'} for "
                                    f"wait() -> {rc!r}, is_running() -> {running}"
                                    + (", callback given" if cb else "")
                                    + ": a process is gone iff wait() gave an exit status or "
                                      "it is no longer running")
            # TimeoutExpired from wait() is absorbed and leads to no bookkeeping
            t = [x for x in ast.walk(cg.node) if isinstance(x, ast.Try)
                 and any(waits[0] in list(ast.walk(b)) for b in x.body)]
            hs = [h for x in t for h in x.handlers
                  if "TimeoutExpired" in norm_stmt(h.type or ast.Constant(0))]
            if not hs:
                probs.append("TimeoutExpired from proc.wait() is no longer absorbed")
            else:
                for h in hs:
                    hnodes = [n for b in h.body for n in ccfg.nodes_of(b)]
                    for nd in (setrc[0], adds[0], cbs[0]):
                        if any(ccfg.path_exists(hn, nd) or hn is nd for hn in hnodes):
                            probs.append("gone bookkeeping is reachable after a TimeoutExpired "
                                         "(the process did not end)")
        probs = sorted(set(probs))[:4]
        # the per-process timeout reaches wait()
        if not (waits[0].keywords and dotted(waits[0].keywords[0].value) == "timeout") \
                and not (waits[0].args and dotted(waits[0].args[0]) == "timeout"):
            probs.append("proc.wait() does not receive the sliced timeout")
    if probs:
        ctx.fail("C15.R6", "check_gone", cg.file, cg.node.lineno, cg.qual, "; ".join(probs))
    else:
        ctx.ok("C15.R6", "check_gone", sample="else: if rc is not None or not "
               "is_running(): returncode=rc; gone.add; callback")
    # result
    last = wpf.node.body[-1]
    txt = norm_stmt(last).replace(" ", "")
    if txt in ("return(list(gone),list(alive))", "returnlist(gone),list(alive)"):
        ctx.ok("C15.R6", "result", sample=norm_stmt(last))
    else:
        ctx.fail("C15.R6", "result", wpf.file, last.lineno, wpf.qual,
                 f"wait_procs returns `{norm_stmt(last)}`")
    # alive starts as set(procs), gone as empty set
    a0 = [s for s in wpf.node.body if isinstance(s, ast.Assign)
          and dotted(s.targets[0]) in ("alive", "gone")]
    vals = {}
    for s in a0:
        vals.setdefault(dotted(s.targets[0]), norm_stmt(s.value))      # the FIRST binding
    if vals.get("alive") == "set(procs)" and vals.get("gone") == "set()":
        ctx.ok("C15.R6", "init", sample=vals)
    else:
        ctx.fail("C15.R6", "init", wpf.file, wpf.node.lineno, wpf.qual,
                 f"initial partition is {vals}, expected alive=set(procs), gone=set()")
    # deadline slicing: <slice> = min(<deadline> - _timer(), <1.0 / len(alive)>) where
    # <deadline> = _timer() + <the timeout parameter>; names are free, temporaries followed
    wparams = [a.arg for a in wpf.node.args.args]
    tpar = wparams[1] if len(wparams) > 1 else "timeout"

    def is_timer(e):
        return isinstance(e, ast.Call) and dotted(e.func) in ("_timer", "time.monotonic",
                                                              "time.time") and not e.args
    dl = [s_ for s_ in ast.walk(wpf.node) if isinstance(s_, ast.Assign)
          and isinstance(s_.targets[0], ast.Name) and isinstance(s_.value, ast.BinOp)
          and isinstance(s_.value.op, ast.Add)
          and any(is_timer(x) for x in (s_.value.left, s_.value.right))
          and any(dotted(x) == tpar for x in (s_.value.left, s_.value.right))]
    dnames = {s_.targets[0].id for s_ in dl}
    sl = []
    for s_ in ast.walk(wpf.node):
        if isinstance(s_, ast.Assign) and isinstance(s_.targets[0], ast.Name) \
                and isinstance(s_.value, ast.Call) and dotted(s_.value.func) == "min" \
                and len(s_.value.args) == 2:
            rem = [a for a in s_.value.args if isinstance(a, ast.BinOp) and isinstance(a.op, ast.Sub)
                   and dotted(a.left) in dnames and is_timer(a.right)]
            oth = [a for a in s_.value.args if a not in rem]
            if len(rem) == 1 and len(oth) == 1 and norm_stmt(deref(wpf.node, oth[0])).replace(
                    " ", "") in ("1.0/len(alive)", "1/len(alive)"):
                sl.append(s_)
    good = len(sl) == 1 and len(dl) == 1
    if good:
        ctx.ok("C15.R6", "deadline-slicing", sample=norm_stmt(sl[0]))
    else:
        ctx.fail("C15.R6", "deadline-slicing", wpf.file, wpf.node.lineno, wpf.qual,
                 "the per-process wait is no longer min(deadline - now, max_timeout)")


    # the time slice handed to each wait is recomputed from the deadline before
    # EVERY timed wait: no path from one timed check_gone() to the next (or from
    # the entry to the first) avoids the `min(deadline - now, ...)` assignment
    if len(sl) == 1:
        svar = dotted(sl[0].targets[0])
        slnodes = set(cfg.nodes_of(sl[0]))
        timed = [c for c in calls if len(c.args) > 1 and any(
            isinstance(x, ast.Name) and x.id == svar for x in ast.walk(c.args[1]))]
        bad = None
        from ..core.analysis import contradicts, norm_fact
        # the slice is the only statement that re-binds the variable, so on a path that
        # avoids it the variable keeps its None-ness: a branch that needs the opposite of
        # what holds at the timed call cannot lie on such a path
        other_writers = [st_ for st_ in ast.walk(wpf.node)
                         if isinstance(st_, (ast.Assign, ast.AugAssign)) and st_ is not sl[0]
                         and any(dotted(t_) == svar for t_ in
                                 (st_.targets if isinstance(st_, ast.Assign) else [st_.target]))]
        for c2 in timed:
            for n2 in cfg.owners(c2):
                f2 = [f_ for f_ in facts(cfg, n2) if f_[0] in ("isnone", "truthy") and f_[1] == svar]
                infeasible = set()
                if f2 and not other_writers:
                    for t_ in cfg.nodes:
                        if t_.kind != "test" or t_.expr is None:
                            continue
                        for pol_, lab_ in ((True, "T"), (False, "F")):
                            fs_ = [norm_fact(a_, tt_) for a_, tt_ in decompose_guard(t_.expr, pol_)]
                            if any(contradicts(x_, y_) for x_ in fs_ for y_ in f2):
                                infeasible.add((t_, lab_))
                if cfg.path_exists(cfg.entry, n2, avoid=slnodes, skip_labels=("exc", "raise"),
                                   skip_edges=infeasible):
                    bad = (None, c2)
                for c1 in timed:
                    for n1 in cfg.owners(c1):
                        if cfg.path_exists(n1, n2, avoid=slnodes, skip_labels=("exc", "raise"),
                                           skip_edges=infeasible):
                            bad = (c1, c2)
        if timed and bad is None:
            ctx.ok("C15.R6", "slice-per-wait", sample="every timed check_gone() is preceded, on "
                   "every path from the previous one, by min(deadline - now, max_timeout)")
        elif timed:
            ctx.fail("C15.R6", "slice-per-wait", wpf.file, bad[1].lineno, wpf.qual,
                     f"`{norm_stmt(bad[1])}` can run "
                     + (f"after `{norm_stmt(bad[0])}`" if bad[0] is not None else "first")
                     + " without the remaining time being recomputed from the deadline: with n "
                     "live processes a sweep waits n slices computed once, so wait_procs "
                     "returns up to (n-1) slices after the timeout")
        else:
            ctx.fail("C15.R6", "slice-per-wait", wpf.file, wpf.node.lineno, wpf.qual,
                     "no wait receives the deadline-derived time slice")


def _parent_body(fnode, target):
    for n in ast.walk(fnode):
        for f in ("body", "orelse", "finalbody"):
            b = getattr(n, f, None)
            if isinstance(b, list) and target in b:
                return b
    return []
