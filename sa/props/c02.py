"""C02 - Process ==, hash() and is_running() follow the process, not the PID."""

import ast

from ..core.astutil import deref
from ..core.analysis import Analysis, facts
from ..core.effects import Reads, written_globals
from ..core.pyrepo import Repo, calls_in, dotted, norm_stmt

# sources whose value moves with the wall clock (oracle: proc(5) btime,
# time(2)); an identity built from them changes when the clock is stepped
WALL_CLOCK_FUNCS = {"_pslinux:boot_time"}
WALL_CLOCK_EXT = {"time.time", "cext.boot_time", "datetime.datetime.now"}


def _walk_terms(t):
    if isinstance(t, tuple) and t:
        yield t
        for x in t:
            if isinstance(x, tuple):
                yield from _walk_terms(x)


def _constructor_only(repo):
    """Qualified names of the Process methods that run only during
    construction: __init__, _init and every private method all of whose call
    sites are inside such a method (an extracted part of the constructor)."""
    s = {"Process.__init__", "Process._init"}
    meths = {f.name: f for f in repo.all_funcs("psutil") if f.cls == "Process" and f.parent is None}
    changed = True
    while changed:
        changed = False
        for name, f in meths.items():
            q = f"Process.{name}"
            if q in s or not name.startswith("_") or name.startswith("__"):
                continue
            sites = [g for g in repo.all_funcs("psutil")
                     for c in calls_in(g.node)
                     if isinstance(c.func, ast.Attribute) and c.func.attr == name
                     and dotted(c.func.value) == "self"]
            other = any(isinstance(n, ast.Attribute) and n.attr == name
                        and not isinstance(n.ctx, ast.Store)
                        for m in repo.modules.values() for n in ast.walk(m.tree)) and not sites
            if sites and not other and all(f"{g.cls}.{g.name}" in s for g in sites):
                s.add(q)
                changed = True
    return s


def _writes(repo, attr, classes=("Process", "Popen")):
    out = []
    for fi in repo.all_funcs("psutil"):
        if fi.cls not in classes:
            continue
        for st in ast.walk(fi.node):
            tg = []
            if isinstance(st, ast.Assign):
                tg = st.targets
            elif isinstance(st, (ast.AugAssign, ast.AnnAssign)):
                tg = [st.target]
            elif isinstance(st, ast.Delete):
                tg = st.targets
            for t in tg:
                if dotted(t) == attr:
                    out.append((fi, st))
    return out


def publish_conditions(repo, A):
    """Conditions, beyond the recycled verdict itself, under which is_running()
    publishes the PID to process_iter()'s refresh set: facts that hold at
    `_pids_reused.add(self.pid)` but not already where the verdict is stored.
    Must be empty: whether some iteration has cached the object is not knowable
    there (the cache is published when the generator ends)."""
    ir = repo.func("psutil", "Process.is_running")
    cfg = A.cfg(ir)
    adds = [c for c in calls_in(ir.node) if isinstance(c.func, ast.Attribute)
            and c.func.attr == "add" and dotted(c.func.value) == "_pids_reused"]
    stores = [n for st in ast.walk(ir.node) if isinstance(st, ast.Assign)
              and any(dotted(t) == "self._pid_reused" for t in st.targets)
              for n in cfg.nodes_of(st)]
    base = set()
    for n in stores:
        base |= set(facts(cfg, n))
    out = []
    for c in adds:
        for n in cfg.owners(c):
            for f in facts(cfg, n):
                if f in base or f == ("truthy", "self._pid_reused", True):
                    continue
                out.append(f)
    return sorted(set(map(str, out)))


def run(ctx):
    repo = Repo(ctx.repo)
    A = Analysis(repo)

    # ------------------------------------------------------------------- R1
    ctx.rule("C02.R1", "__eq__ and __hash__ are functions of the same identity "
             "tuple; __ne__ is the negation of __eq__; the hash memo is written "
             "only from hash(self._ident)", floor=4)
    eq = repo.func("psutil", "Process.__eq__")
    last = eq.node.body[-1]
    final = last.value if isinstance(last, ast.Return) else None
    if isinstance(final, ast.Compare) and isinstance(final.ops[0], ast.Eq) and \
            {dotted(final.left), dotted(final.comparators[0])} == {"self._ident", "other._ident"}:
        ctx.ok("C02.R1", "__eq__", sample=norm_stmt(last))
    else:
        ctx.fail("C02.R1", "__eq__", eq.file, eq.node.lineno, eq.qual,
                 f"__eq__ ends with `{norm_stmt(last)}`: equality is no longer "
                 f"(pid, start) identity")
    # non-Process operands
    first = [s for s in eq.node.body if isinstance(s, ast.If)]
    ni = first and "isinstance(other, Process)" in norm_stmt(first[0].test) \
        and "NotImplemented" in norm_stmt(first[0].body[0])
    if ni:
        ctx.ok("C02.R1", "__eq__:type", nontrivial=False)
    else:
        ctx.fail("C02.R1", "__eq__:type", eq.file, eq.node.lineno, eq.qual,
                 "__eq__ no longer answers NotImplemented for non-Process operands")
    # every other return in __eq__ (platform special cases) must be platform-dead on Linux
    cfg = A.cfg(eq)
    for n in cfg.nodes:
        if n.kind == "return" and n.stmt is not last and not \
                (isinstance(n.stmt.value, ast.Name) and n.stmt.value.id == "NotImplemented"):
            conds = [norm_stmt(e) for e, p, _ in cfg.guards(n) if p is True]
            if any(c.replace(" ", "") in ("OPENBSDorNETBSD", "NETBSDorOPENBSD") for c in conds):
                ctx.advisory("C02.R1: on OpenBSD/NetBSD __eq__ additionally consults "
                             "status() while __hash__ does not (not exercised here)")
            else:
                ctx.fail("C02.R1", f"__eq__:extra-return:{norm_stmt(n.stmt)}", eq.file,
                         n.line, eq.qual, f"`{norm_stmt(n.stmt)}` decides equality "
                         f"without the identity tuple")
    hs = repo.func("psutil", "Process.__hash__")
    wr = _writes(repo, "self._hash")
    bad = [f"{fi.qual}: {norm_stmt(st)}" for fi, st in wr
           if not (fi.qual == "Process._init" and norm_stmt(st.value) == "None")
           and not (fi.qual == "Process.__hash__"
                    and norm_stmt(st.value).replace(" ", "") == "hash(self._ident)")]
    rets = [s for s in ast.walk(hs.node) if isinstance(s, ast.Return)]
    rok = all(dotted(r.value) == "self._hash"
              or norm_stmt(r.value).replace(" ", "") == "hash(self._ident)" for r in rets)
    if not bad and rok and rets:
        ctx.ok("C02.R1", "__hash__", sample="self._hash = hash(self._ident)")
    else:
        ctx.fail("C02.R1", "__hash__", hs.file, hs.node.lineno, hs.qual,
                 "hash() is not a function of the identity tuple: "
                 + ("; ".join(bad) or "return value changed"))
    ne = repo.func("psutil", "Process.__ne__", required=False)
    if ne is not None:
        r = [s for s in ast.walk(ne.node) if isinstance(s, ast.Return)]
        txt = norm_stmt(r[0].value).replace(" ", "") if r else ""
        oth = [a.arg for a in ne.node.args.args if a.arg != "self"]
        o = oth[0] if oth else "other"
        if txt in (f"notself=={o}", f"not(self=={o})", f"notself.__eq__({o})",
                   f"not{o}==self", f"not({o}==self)"):
            ctx.ok("C02.R1", "__ne__", sample=txt)
        else:
            ctx.fail("C02.R1", "__ne__", ne.file, ne.node.lineno, ne.qual,
                     f"__ne__ is `{txt}`, not the negation of __eq__")
    else:
        ctx.ok("C02.R1", "__ne__", sample="default (negation of __eq__)", nontrivial=False)

    # ------------------------------------------------------------------- R2
    ctx.rule("C02.R2", "identity is immutable: _ident is written only in _init; "
             "_create_time only where it is still None (create_time) or during "
             "construction (_get_ident)", floor=3)
    ctor_only = _constructor_only(repo)
    wr = _writes(repo, "self._ident")
    bad = [f"{fi.qual}: {norm_stmt(st)}" for fi, st in wr if fi.qual not in ctor_only]
    if bad or not wr:
        ctx.fail("C02.R2", "_ident-writers", "psutil/__init__.py", 0, "Process",
                 "the identity tuple is re-bound after construction: " + "; ".join(bad))
    else:
        ctx.ok("C02.R2", "_ident-writers", sample=[f"{fi.qual}: {norm_stmt(st)}" for fi, st in wr])
    gi_callers = [fi.qual for fi in repo.all_funcs("psutil")
                  if any(isinstance(c.func, ast.Attribute) and c.func.attr == "_get_ident"
                         for c in calls_in(fi.node))]
    if set(gi_callers) <= ctor_only and gi_callers:
        ctx.ok("C02.R2", "_get_ident-callers", sample=gi_callers)
    else:
        ctx.fail("C02.R2", "_get_ident-callers", "psutil/__init__.py", 0, "Process",
                 f"_get_ident is evaluated outside construction: {gi_callers}")
    for fi, st in _writes(repo, "self._create_time"):
        key = f"_create_time:{fi.qual}:{norm_stmt(st)}"
        if fi.qual in ctor_only | {"Process._get_ident"}:
            ctx.ok("C02.R2", key, nontrivial=False)
            continue
        cfg = A.cfg(fi)
        good = all(("isnone", "self._create_time", True) in facts(cfg, n)
                   for n in cfg.nodes_of(st))
        if good:
            ctx.ok("C02.R2", key, sample=f"{norm_stmt(st)} under `self._create_time is None`")
        else:
            ctx.fail("C02.R2", key, fi.file, st.lineno, fi.qual,
                     f"`{norm_stmt(st)}` can overwrite a creation time already taken")

    # ------------------------------------------------------------------- R3
    ctx.rule("C02.R3", "identity is a function of the process alone: the value "
             "_get_ident() returns (Linux) has no data dependence on a module global "
             "that is re-assigned after import, on a system-wide file (boot time) or "
             "on a wall-clock call, and it is an injective function of (pid, kernel start time)", floor=2)
    gi = repo.func("psutil", "Process._get_ident")
    from ..core.absint import Interp, pretty
    from ..core.forms import canon
    I = Interp(repo, A)
    ident = canon(I.call_function(gi, []))
    unstable = written_globals(repo)
    used_globs, used_files, used_clock = set(), set(), set()

    def walk(t):
        if isinstance(t, tuple) and t:
            if t[0] == "glob":
                used_globs.add(tuple(t[1].split(".", 1)))
            elif t[0] in ("file", "line", "lines", "fobj", "rec") and len(t) > 1:
                used_files.add(pretty(t[1]))
            elif t[0] == "sample" and str(t[1]).startswith("time."):
                used_clock.add(t[1])
            for x in t:
                if isinstance(x, tuple):
                    walk(x)
    walk(ident)
    ctx.stat("ident_value", pretty(ident)[:300])
    ctx.stat("ident_globals_read", sorted(f"{m}.{n}" for m, n in used_globs))
    ctx.stat("ident_files_read", sorted(used_files))
    ctx.require(any("{pid}/stat" in f for f in used_files),
                f"_get_ident no longer derives the identity from <pid>/stat: "
                f"{pretty(ident)[:160]}")
    n_bad = 0
    for g in sorted(used_globs):
        if g in unstable:
            n_bad += 1
            writers = sorted({w.fq for w in unstable[g]})
            ctx.fail("C02.R3", f"unstable-global:{g[0]}.{g[1]}", gi.file, gi.node.lineno,
                     gi.qual, f"the identity value depends on global {g[0]}.{g[1]}, which "
                     f"{writers} re-assign(s) after import: the identity of a live "
                     f"process depends on which psutil calls ran in between")
    for f in sorted(used_files):
        if "{pid}" not in f:
            n_bad += 1
            ctx.fail("C02.R3", f"wall-clock:{f}", gi.file, gi.node.lineno, gi.qual,
                     f"the identity value depends on the system-wide file {f} (boot time "
                     f"/ wall clock): after a clock step a fresh Process(pid) of the same "
                     f"live process gets a different identity, so is_running() turns "
                     f"False and == / hash() disagree")
    for e in sorted(used_clock):
        n_bad += 1
        ctx.fail("C02.R3", f"wall-clock:{e}", gi.file, gi.node.lineno, gi.qual,
                 f"the identity value depends on {e}()")
    # ... and an INJECTIVE function of (pid, kernel start time): a lossy step
    # (round / int / floor division) makes distinct processes that reuse a PID
    # within the lost resolution compare equal
    from ..core.absint import alternatives
    from ..core.forms import NotPolynomial, to_rat
    from ..oracles import linux as OL
    from .c06 import stat_atoms
    inj_why = None
    tup = [a for a in alternatives(ident) if a and a[0] == "tuple" and len(a) == 3]
    if not tup:
        inj_why = f"the identity is not a (pid, start) pair: {pretty(ident)[:100]}"
    else:
        start = tup[0][2]
        lossy = [x for x in _walk_terms(start) if x[0] == "call" and x[1] in (
            "round", "int", "math.floor", "math.ceil", "math.trunc", "divmod")]
        lossy += [x for x in _walk_terms(start) if x[0] == "bin" and x[1] in ("//", "%", ">>")]
        atoms = stat_atoms(start)
        cols = {d["col"] for _, d in atoms if d.get("file") == "pid/stat"}
        if lossy:
            inj_why = (f"the start-time component goes through a lossy step "
                       f"`{pretty(lossy[0])[:60]}`")
        elif cols != {OL.STAT["starttime"]}:
            inj_why = f"the start-time component reads stat column(s) {sorted(cols)}"
        else:
            try:
                to_rat(start)
            except NotPolynomial as e:
                inj_why = f"the start-time component is not an affine function of starttime ({e})"
    if inj_why:
        n_bad += 1
        ctx.fail("C02.R3", "ident-injective", gi.file, gi.node.lineno, gi.qual,
                 f"{inj_why}: two different processes that get the same PID within the "
                 f"lost resolution would compare equal and is_running() would stay True")
    else:
        ctx.ok("C02.R3", "ident-injective", sample="(pid, starttime / CLOCK_TICKS)")
    if n_bad == 0:
        ctx.ok("C02.R3", "ident-dependences",
               sample={"identity": pretty(ident)[:200],
                       "globals": sorted(f"{m}.{n}" for m, n in used_globs),
                       "files": sorted(used_files)})

    # ------------------------------------------------------------------- R4
    ctx.rule("C02.R4", "is_running(): early False once gone/recycled; a recycled "
             "verdict is published to _pids_reused; compares against a freshly "
             "built Process(self.pid); the recycled verdict comes only from that "
             "comparison; the probe is never cached", floor=5)
    ir = repo.func("psutil", "Process.is_running")
    cfg = A.cfg(ir)
    adds = [c for c in calls_in(ir.node) if isinstance(c.func, ast.Attribute)
            and c.func.attr == "add" and dotted(c.func.value) == "_pids_reused"]
    good = bool(adds) and all(
        ("truthy", "self._pid_reused", True) in facts(cfg, n)
        and dotted(c.args[0]) in ("self.pid", "self._pid")
        for c in adds for n in cfg.owners(c))
    extra = publish_conditions(repo, A)
    if good and extra:
        good = False
    if good:
        ctx.ok("C02.R4", "publish-reused", sample="_pids_reused.add(self.pid) under self._pid_reused")
    else:
        ctx.fail("C02.R4", "publish-reused", ir.file, ir.node.lineno, ir.qual,
                 "a recycled PID is no longer published to process_iter()'s refresh set"
                 + (f": the publication also depends on {extra}" if extra else ""))
    early = False
    for n in cfg.nodes:
        if n.kind == "return" and isinstance(n.stmt.value, ast.Constant) \
                and n.stmt.value.value is False:
            for e, pol, _ in cfg.guards(n):
                if pol is True and isinstance(e, ast.BoolOp) and isinstance(e.op, ast.Or) \
                        and {dotted(v) for v in e.values} == {"self._gone", "self._pid_reused"}:
                    early = True
    if early:
        ctx.ok("C02.R4", "sticky-false", sample="if self._gone or self._pid_reused: return False")
    else:
        ctx.fail("C02.R4", "sticky-false", ir.file, ir.node.lineno, ir.qual,
                 "is_running() can answer True again after it answered False")
    # the "recycled" verdict is sticky too and concerns THIS object's process, not
    # the PID number: it may only come from comparing identities
    from .c01 import _is_identity_compare, uncached_probes
    nst = 0
    for fi in repo.all_funcs("psutil"):
        if fi.qual == "Process._init":
            continue
        for st in ast.walk(fi.node):
            if isinstance(st, ast.Assign) and any(
                    isinstance(t, ast.Attribute) and t.attr == "_pid_reused" for t in st.targets):
                nst += 1
                key = f"reused-on-evidence:{fi.qual}:{norm_stmt(st)}"
                if _is_identity_compare(deref(fi.node, st.value)):
                    ctx.ok("C02.R4", key, sample=norm_stmt(st))
                else:
                    ctx.fail("C02.R4", key, fi.file, st.lineno, fi.qual,
                             f"`{norm_stmt(st)}` declares the object's PID recycled without "
                             f"comparing identities (self != Process(self.pid)): a fresh "
                             f"object of the PID's current owner would be reported as not "
                             f"running for ever")
    ctx.require(nst >= 1, "no store to _pid_reused found outside _init")
    for q, why in uncached_probes(repo):
        if why:
            f_ = repo.func("psutil", q)
            ctx.fail("C02.R4", f"uncached:{q}", f_.file, f_.node.lineno, f_.qual, why)
        else:
            ctx.ok("C02.R4", f"uncached:{q}", nontrivial=False)
    # the "gone" verdict is sticky (is_running() answers False for ever), so it may
    # only be pronounced on evidence: in a handler of NoSuchProcess /
    # ProcessLookupError raised by a query on that very object
    from ..core.astutil import handler_catches
    for fi in repo.all_funcs("psutil"):
        for st in ast.walk(fi.node):
            if not isinstance(st, ast.Assign):
                continue
            for t in st.targets:
                if isinstance(t, ast.Attribute) and t.attr == "_gone" and not (
                        isinstance(st.value, ast.Constant) and st.value.value is False):
                    inh = False
                    for tr in ast.walk(fi.node):
                        if isinstance(tr, ast.Try):
                            for h in tr.handlers:
                                if any(s is st for b in h.body for s in ast.walk(b)) and \
                                        (handler_catches(h, ["NoSuchProcess"]) or
                                         handler_catches(h, ["ProcessLookupError"])) and \
                                        not handler_catches(h, ["AccessDenied"]):
                                    inh = True
                    key = f"gone-on-evidence:{fi.qual}:{norm_stmt(st)}"
                    # a wait() on the object's own process that returned is
                    # evidence as well (the process has terminated)
                    if not inh and dotted(t.value) == "self":
                        cfgw = A.cfg(fi)
                        waits = [n for c in calls_in(fi.node)
                                 if isinstance(c.func, ast.Attribute) and c.func.attr == "wait"
                                 and dotted(c.func.value) == "self._proc"
                                 for n in cfgw.owners(c)]
                        if waits and all(any(cfgw.dominates(w, n) for w in waits)
                                         for n in cfgw.nodes_of(st)):
                            inh = True
                    # ... and so is a positive identity verdict: the PID belongs to
                    # another process now, so this object's process has ended
                    if not inh and dotted(t.value) == "self":
                        cfgr = A.cfg(fi)
                        if all(("truthy", "self._pid_reused", True) in facts(cfgr, n)
                               for n in cfgr.nodes_of(st)):
                            inh = True
                    # a zombie is still in the process table: is_running() stays True
                    # for it, so the latch may not be set on a path that goes on to
                    # report ZombieProcess
                    zcfg = A.cfg(fi)
                    zr = [n for n in zcfg.nodes if n.kind == "raise"
                          and isinstance(n.stmt.exc, ast.Call)
                          and dotted(n.stmt.exc.func) == "ZombieProcess"]
                    if inh and any(zcfg.path_exists(a, b) for a in zcfg.nodes_of(st) for b in zr):
                        ctx.fail("C02.R4", key + ":zombie", fi.file, st.lineno, fi.qual,
                                 f"`{norm_stmt(st)}` is followed, on some path, by `raise "
                                 f"ZombieProcess`: the object is latched as gone although its "
                                 f"process is a zombie, still listed - is_running() answers "
                                 f"False for ever while equal objects answer True")
                        continue
                    if inh and dotted(t.value) == "self":
                        ctx.ok("C02.R4", key, sample=f"{fi.qual}: {norm_stmt(st)} in "
                               f"except NoSuchProcess/ProcessLookupError")
                    else:
                        ctx.fail("C02.R4", key, fi.file, st.lineno, fi.qual,
                                 f"`{norm_stmt(st)}` declares a process gone without "
                                 f"having seen NoSuchProcess/ESRCH for that object: "
                                 f"is_running() would answer False for ever, even if the "
                                 f"process is alive")
    ctx.assume("equality 'exactly when' holds up to the kernel's start-time "
               "resolution (0.01 s); real PID recycling is not exercised")
    return ("Attribute single-writer checks, AST shape of __eq__/__hash__/__ne__, "
            "and a transitive global-read/call effect analysis of the identity "
            "function with constant-argument context (so an identity taken from the "
            "boot-relative start time is recognised as clock-independent).",
            "effect analysis (transitive global reads), single-writer, AST shape")
