"""C07 - CPU times and CPU percentages are exact shares of elapsed time."""

import ast

from ..core.absint import Interp, alternatives, result_alternatives, pretty
from ..core.analysis import Analysis, facts
from ..core.forms import (NotPolynomial, Poly, Rat, canon, expand, srcinfo, to_rat)
from ..core.pyrepo import Repo, calls_in, dotted, norm_stmt
from ..core.report import AnalysisError
from ..oracles import linux as O
from .c15 import eval_pred


def nt_of(fields, prefix):
    return ("nt", "_pslinux.scputimes", tuple(fields),
            tuple(("param", f"{prefix}.{f}") for f in fields))


def A_(name):
    return Rat(Poly.atom(name))


def run(ctx):
    repo = Repo(ctx.repo)
    An = Analysis(repo)
    pm = "_pslinux"

    # ------------------------------------------------------------------- R1
    ctx.rule("C07.R1", "/proc/stat table: for 7..10 kernel CPU fields the tuple "
             "fields are the kernel's column names in kernel order, field i reads "
             "column i+1 of the cpu line, divided by CLOCK_TICKS; per-CPU rows come "
             "from the `cpuN` lines after the aggregate line", floor=40)
    # the number that selects the tuple layout is the number of VALUE columns of
    # the aggregate cpu line: the label ("cpu") is not counted
    f0 = repo.func(pm, "set_scputimes_ntuple")
    # decided by EVALUATING the function on a first line of /proc/stat with n value
    # columns, n = 4..13 (the spelling of the thresholds does not matter); if it uses
    # constructs outside the evaluated subset, by the symbolic route below
    from ..core import minieval as ME

    def layout(n):
        line = b"cpu  " + b" ".join(b"%d" % (100 + i) for i in range(n)) + b"\n"
        nat = {"open_binary": lambda p_, **k: ME.TextFile([line, b"cpu0 1 2 3\n"]),
               "open_text": lambda p_, **k: ME.TextFile([line.decode(), "cpu0 1 2 3\n"]),
               "namedtuple": lambda a, b: ("nt", a, tuple(b.split() if isinstance(b, str) else b)),
               "collections.namedtuple": lambda a, b: ("nt", a, tuple(b)),
               "debug": lambda *a: None}
        _, env_ = ME.run_function(f0.node, ["/proc"], natives=nat)
        v_ = env_.get("scputimes")
        return list(v_[2]) if isinstance(v_, tuple) and v_ and v_[0] == "nt" else None
    evaluated = {}
    # the function can depend on n only through comparisons/slices with the integer
    # constants it contains: evaluating up to 3 past the largest of them covers every n
    kmax = max([c_.value for c_ in ast.walk(f0.node) if isinstance(c_, ast.Constant)
                and isinstance(c_.value, int) and not isinstance(c_.value, bool)] + [10])
    try:
        for n_ in range(4, max(14, kmax + 4)):
            evaluated[n_] = layout(n_)
    except (ME.Outside, ME.Raised):
        evaluated = None
    if evaluated is not None and all(v is not None for v in evaluated.values()):
        wrong = {n_: v for n_, v in evaluated.items()
                 if v != O.CPU_FIELDS[:min(max(n_, 7), 10)]}
        if not wrong:
            ctx.ok("C07.R1", "column-count", sample="evaluated for 4..13 value columns: the tuple "
                   "has min(max(n, 7), 10) fields in kernel order")
        else:
            n_, v = sorted(wrong.items())[0]
            ctx.fail("C07.R1", "column-count", f0.file, f0.node.lineno, f0.qual,
                     f"the tuple layout is not selected by the number of value columns of the "
                     f"aggregate cpu line: with {n_} columns (`cpu v1 .. v{n_}`) the fields are "
                     f"{v}, expected {O.CPU_FIELDS[:min(max(n_, 7), 10)]}")
    else:
        evaluated = None
        vl0 = [st.targets[0].id for st in ast.walk(f0.node) if isinstance(st, ast.Assign)
               and isinstance(st.value, ast.Call) and dotted(st.value.func) == "len"
               and isinstance(st.targets[0], ast.Name)]
        ctx.require(vl0, "set_scputimes_ntuple: length of the cpu line no longer taken")
        I0 = Interp(repo, An)
        I0.call_function(f0, [("param", "procfs_path")])
        lt = I0.last_env.get(vl0[0])
        okc, whyc = False, f"the count is `{pretty(lt)[:90]}`"
        if lt and lt[0] == "call" and lt[1] == "len":
            a = lt[2]
            off = 0
            while a and a[0] == "slice":
                lo, hi, st_ = a[2], a[3], a[4]
                if lo[0] == "const" and hi == ("const", None) and st_ in (("const", None), ("const", 1)):
                    off += lo[1] or 0
                    a = a[1]
                else:
                    break
            if a and a[0] == "split" and a[2] == ("const", None) and a[1][0] == "line" \
                    and "stat" in pretty(a[1][1]) and a[1][2] == 0:
                if off == 1:
                    okc = True
                else:
                    whyc = (f"{off} leading token(s) are dropped before counting; the line is "
                            f"`cpu v1 v2 ...` so exactly the label must be dropped")
        if okc:
            ctx.ok("C07.R1", "column-count", sample="len(first line .split()[1:])")
        else:
            ctx.fail("C07.R1", "column-count", f0.file, f0.node.lineno, f0.qual,
                     "the tuple layout is not selected by the number of value columns of the "
                     "aggregate cpu line: " + whyc)
    for n in (7, 8, 9, 10):
        want = O.CPU_FIELDS[:n]
        f = f0
        if evaluated is not None:
            got = evaluated[n]
        else:
            I = Interp(repo, An)
            vl = [st.targets[0].id for st in ast.walk(f.node) if isinstance(st, ast.Assign)
                  and isinstance(st.value, ast.Call) and dotted(st.value.func) == "len"
                  and isinstance(st.targets[0], ast.Name)]
            ctx.require(vl, "set_scputimes_ntuple: length of the cpu line no longer taken")
            I.force = {vl[0]: ("const", n)}
            I.call_function(f, [("param", "procfs_path")])
            env = I.last_env
            ntc = [c for c in calls_in(f.node) if dotted(c.func) in ("namedtuple",
                                                                      "collections.namedtuple")]
            ctx.require(ntc and len(ntc[0].args) == 2,
                        "set_scputimes_ntuple: namedtuple() call vanished")
            lst = env.get(dotted(ntc[0].args[1]))
            got = [x[1] for x in lst[1:]] if lst and lst[0] == "list" else None
        key = f"fields:n={n}"
        if got == want:
            ctx.ok("C07.R1", key, sample={"kernel_fields": n, "tuple": got})
        else:
            ctx.fail("C07.R1", key, f.file, f.node.lineno, f.qual,
                     f"with {n} kernel CPU columns the tuple fields are {got}; kernel "
                     f"order is {want}")
        I2 = Interp(repo, An)
        I2.namedtuples[(pm, "scputimes")] = tuple(want)
        for q in ("cpu_times", "per_cpu_times"):
            fi = repo.func(pm, q)
            t = canon(I2.call_function(fi, []))
            nts = []
            for a in result_alternatives(t):
                if a[0] == "nt":
                    nts.append(a)
                elif a[0] == "listof":
                    nts += [e for e in alternatives(a[1]) if e[0] == "nt"]
            if not nts:
                raise AnalysisError(f"{q}: no scputimes record in {pretty(t)[:100]}")
            for rec in nts:
                for i, fld in enumerate(rec[2]):
                    v = rec[3][i]
                    key = f"{q}:n={n}:{fld}"
                    probs = []
                    try:
                        r = to_rat(v)
                    except NotPolynomial as e:
                        probs.append(str(e))
                        r = None
                    infos = [srcinfo(x) for x in _idx_terms(v)]
                    infos = [d for d in infos if d]
                    if len(infos) != 1:
                        probs.append(f"{len(infos)} sources")
                    else:
                        d = infos[0]
                        if d["file"] != "stat" or d["col"] != i + 1:
                            probs.append(f"reads {d['file']} column {d['col']}; kernel "
                                         f"column of {fld} is {i + 1}")
                        if q == "cpu_times" and d["cut"] != ("line", 0):
                            probs.append("not the aggregate (first) line")
                        if q == "per_cpu_times" and d["cut"] != ("line", ("from", 1)):
                            probs.append("per-CPU rows must come from the lines after "
                                         "the aggregate line")
                    if r is not None:
                        at = [a for a in r.num.atoms() if a != "CLOCK_TICKS"]
                        if len(at) != 1 or not r.same(A_(at[0]) / A_("CLOCK_TICKS")):
                            probs.append(f"value is `{r}`, not ticks / CLOCK_TICKS")
                    if probs:
                        ctx.fail("C07.R1", key, fi.file, fi.node.lineno, fi.qual,
                                 f"{q}().{fld} ({n} kernel fields): " + "; ".join(probs))
                    else:
                        ctx.ok("C07.R1", key, nontrivial=(n == 10),
                               sample={"field": fld, "column": i + 1} if n == 10 and i < 3 else None)
        if n == 10:
            fi = repo.func(pm, "per_cpu_times")
            t = I2.call_function(fi, [])
            if "startswith" in pretty(t) and "b'cpu'" in pretty(t):
                ctx.ok("C07.R1", "per_cpu:cpu-lines", sample="line.startswith(b'cpu')")
            else:
                ctx.fail("C07.R1", "per_cpu:cpu-lines", fi.file, fi.node.lineno, fi.qual,
                         "per-CPU rows are no longer restricted to the `cpuN` lines")

    # ------------------------------------------------------------------- R2
    ctx.rule("C07.R2", "formulas: total = sum(fields) - guest - guest_nice; busy = "
             "total - idle - iowait; deltas are clipped at 0; cpu_percent = "
             "round(100*busy/total, 1), 0.0 on a zero total; with clipped deltas "
             "0 <= busy <= total (sign analysis)", floor=16)
    for n in (7, 8, 9, 10):
        fields = O.CPU_FIELDS[:n]
        I = Interp(repo, An)
        I.namedtuples[(pm, "scputimes")] = tuple(fields)
        tt = nt_of(fields, "t")
        tot_w = Rat(Poly.const(0))
        for f in fields:
            if f not in ("guest", "guest_nice"):
                tot_w = tot_w + A_(f"t.{f}")
        busy_w = tot_w - A_("t.idle") - A_("t.iowait")
        for q, want in (("_cpu_tot_time", tot_w), ("_cpu_busy_time", busy_w)):
            fi = repo.func("psutil", q)
            t = I.call_function(fi, [tt])
            alts = expand(t)
            forms = []
            for a in alts:
                try:
                    forms.append(to_rat(a))
                except NotPolynomial as e:
                    raise AnalysisError(f"{q}: {e}")
            key = f"{q}:n={n}"
            if forms and all(fm.same(want) for fm in forms):
                ctx.ok("C07.R2", key, sample={q: repr(forms[0]), "fields": n})
            else:
                ctx.fail("C07.R2", key, fi.file, fi.node.lineno, fi.qual,
                         f"{q}() with {n} kernel fields = {[repr(x) for x in forms]}; "
                         f"documented: {want!r}")
        # deltas
        fi = repo.func("psutil", "_cpu_times_deltas")
        t = I.call_function(fi, [nt_of(fields, "a"), nt_of(fields, "b")])
        recs = [a for a in alternatives(t) if a[0] == "nt"]
        good = bool(recs)
        why = ""
        if recs:
            for f, v in zip(recs[0][2], recs[0][3]):
                clips = {}
                try:
                    r = to_rat(v, clip_atoms=clips)
                except NotPolynomial as e:
                    good, why = False, str(e)
                    break
                if len(clips) != 1 or not list(clips.values())[0].same(A_(f"b.{f}") - A_(f"a.{f}")) \
                        or not r.same(A_(list(clips)[0])):
                    good = False
                    why = f"delta of {f} is `{pretty(v)}`, expected max(0, t2.{f} - t1.{f})"
        if good:
            ctx.ok("C07.R2", f"deltas:n={n}", sample="field_i = max(0, t2_i - t1_i)")
        else:
            ctx.fail("C07.R2", f"deltas:n={n}", fi.file, fi.node.lineno, fi.qual,
                     f"_cpu_times_deltas: {why or 'result is not an scputimes record'}: a "
                     f"counter that went backwards must contribute zero")
        # cpu_percent.calculate
        fi = repo.func("psutil", "cpu_percent.calculate")
        t = I.call_function(fi, [nt_of(fields, "a"), nt_of(fields, "b")])
        alts = expand(t)
        clips = {}
        vals = []
        for a in alts:
            try:
                vals.append(to_rat(a, clip_atoms=clips))
            except NotPolynomial as e:
                raise AnalysisError(f"cpu_percent.calculate: {e}")
        d = {f: None for f in fields}
        for name, inner in clips.items():
            for f in fields:
                if inner.same(A_(f"b.{f}") - A_(f"a.{f}")):
                    d[f] = A_(name)
        key = f"cpu_percent:n={n}"
        if any(v is None for v in d.values()):
            ctx.fail("C07.R2", key, fi.file, fi.node.lineno, fi.qual,
                     "cpu_percent does not work on clipped per-field deltas")
            continue
        tot = Rat(Poly.const(0))
        for f in fields:
            if f not in ("guest", "guest_nice"):
                tot = tot + d[f]
        busy = tot - d["idle"] - d["iowait"]
        want = (busy / tot) * Rat(Poly.const(100))
        nz = [v for v in vals if not v.num.is_zero()]
        zero = [v for v in vals if v.num.is_zero()]
        tags_ok = nz and all(("round", 1) in v.tags for v in nz)
        if len(nz) == 1 and nz[0].same(want) and zero and tags_ok:
            nonneg = set(clips)
            s1 = busy.num.nonneg(nonneg) and tot.num.nonneg(nonneg) \
                and (tot - busy).num.nonneg(nonneg)
            if s1:
                ctx.ok("C07.R2", key, sample={"value": "round(100*busy/total, 1) | 0.0",
                                              "0<=busy<=total": "all coefficients >= 0 "
                                              "over clipped deltas"})
            else:
                ctx.fail("C07.R2", key, fi.file, fi.node.lineno, fi.qual,
                         "busy or total-busy has a negative coefficient over the "
                         "clipped deltas: cpu_percent can leave [0, 100]")
        else:
            ctx.fail("C07.R2", key, fi.file, fi.node.lineno, fi.qual,
                     f"cpu_percent value is {[repr(v) for v in nz][:2]}; documented "
                     f"100*busy/total rounded to 1 decimal (0.0 when total is 0)")

    # ------------------------------------------------------------------- R3
    ctx.rule("C07.R3", "cpu_times_percent: every field is delta_i * 100 / total "
             "(zero total -> 0), rounded to 1 decimal and clamped to [0, 100]; the "
             "divisor is the total itself", floor=10)
    fields = O.CPU_FIELDS
    I = Interp(repo, An)
    I.namedtuples[(pm, "scputimes")] = tuple(fields)
    fi = repo.func("psutil", "cpu_times_percent.calculate")
    t = I.call_function(fi, [nt_of(fields, "a"), nt_of(fields, "b")])
    recs = [a for a in alternatives(t) if a[0] == "nt"]
    ctx.require(recs, "cpu_times_percent.calculate no longer returns an scputimes record")
    rec = recs[0]
    for f, v in zip(rec[2], rec[3]):
        key = f"cpu_times_percent:{f}"
        probs = {}
        core, clamp = _strip_clamp(v)
        if clamp != (0.0, 100.0):
            probs["clamp"] = f"not clamped to [0, 100] (clamp={clamp})"
        clips = {}
        alts = []
        for a in expand(core):
            try:
                alts.append(to_rat(a, clip_atoms=clips))
            except NotPolynomial as e:
                probs["form"] = str(e)
        d = {g: A_(f"clip0({(A_(f'b.{g}') - A_(f'a.{g}'))!r})") for g in fields}
        used = set()
        for x in alts:
            used |= x.num.atoms() | x.den.atoms()
        if not any("clip0(" in a for a in used):
            probs["form"] = "not computed from clipped per-field deltas"
        else:
            tot = Rat(Poly.const(0))
            for g in fields:
                if g not in ("guest", "guest_nice"):
                    tot = tot + d[g]
            want = d[f] * Rat(Poly.const(100)) / tot
            nz = [x for x in alts if not x.num.is_zero()]
            if not nz or not all(x.same(want) for x in nz):
                # is it exactly "the divisor is max(1, total)"?
                m1 = [a for a in used if a == f"max(1, {tot!r})"]
                if len(m1) == 1 and nz and all(
                        x.same(d[f] * Rat(Poly.const(100)) / A_(m1[0])) for x in nz):
                    probs["divisor-max1"] = (
                        "the divisor is max(1, total) instead of the total: the total is "
                        "in seconds, so for less than one second of CPU time (short "
                        "interval, one CPU) the shares do not add up to 100")
                else:
                    shown = repr(nz[0])[:160] if nz else "0"
                    probs["form"] = f"share is `{shown}`, documented delta*100/total"
            if nz and not all(("round", 1) in x.tags for x in nz):
                probs["round"] = "not rounded to 1 decimal"
        if probs:
            for kind, msg in sorted(probs.items()):
                ctx.fail("C07.R3", f"{key}:{kind}", fi.file, fi.node.lineno, fi.qual,
                         f"cpu_times_percent().{f}: {msg}")
        else:
            ctx.ok("C07.R3", key, sample=f"{f} = clamp(round(d_{f}*100/total, 1))")

    # ------------------------------------------------------------------- R4
    ctx.rule("C07.R4", "Process.cpu_percent = 100*(delta process CPU seconds)/(delta "
             "wall seconds): the num_cpus factors cancel; first call 0.0; negative "
             "interval -> ValueError before anything; both samples are stored on every "
             "non-raising path", floor=4)
    _r4(ctx, repo, An)

    # ------------------------------------------------------------------- R5
    ctx.rule("C07.R5", "per-thread history: every read/write of the four last-"
             "sample tables is keyed by the calling thread's ident", floor=8)
    m = repo.mod("psutil")
    tables = [k for k in m.assigns if k.startswith("_last_") and "cpu_times" in k]
    ctx.require(len(tables) == 4, f"expected 4 last-sample tables, found {tables}")
    for q in ("cpu_percent", "cpu_times_percent"):
        fi = repo.func("psutil", q)
        tid = [st.targets[0].id for st in fi.node.body if isinstance(st, ast.Assign)
               and norm_stmt(st.value).replace(" ", "") == "threading.current_thread().ident"
               and isinstance(st.targets[0], ast.Name)]
        for n in ast.walk(fi.node):
            use = None
            if isinstance(n, ast.Subscript) and dotted(n.value) in tables:
                use = (dotted(n.value), dotted(n.slice))
            elif isinstance(n, ast.Call) and isinstance(n.func, ast.Attribute) \
                    and dotted(n.func.value) in tables:
                if n.func.attr == "get" and n.args:
                    use = (dotted(n.func.value), dotted(n.args[0]))
                else:
                    use = (dotted(n.func.value), f"<{n.func.attr}>")
            elif isinstance(n, ast.Name) and n.id in tables and isinstance(n.ctx, ast.Store):
                use = (n.id, "<rebound>")
            if use is None:
                continue
            key = f"{q}:{use[0]}@{n.lineno - fi.node.lineno}"
            if tid and use[1] == tid[0]:
                ctx.ok("C07.R5", key, sample=f"{use[0]}[{use[1]}]", nontrivial=True)
            else:
                ctx.fail("C07.R5", f"{q}:{use[0]}:{use[1]}", fi.file, n.lineno, fi.qual,
                         f"{use[0]} is accessed with `{use[1]}` instead of the calling "
                         f"thread's ident: threads would be measured against each "
                         f"other's previous sample")
    ctx.assume("wall-clock behaviour of the blocking forms is not decided")
    ctx.assume("kernel counters are non-negative and clipped deltas are >= 0")
    return ("Abstract interpretation of the /proc/stat readers per kernel "
            "configuration (7-10 fields) and of the percentage formulas over symbolic "
            "samples; results are normalised to rational polynomial forms and compared "
            "with the documented formulas by cross-multiplication; [0,100] follows "
            "from sign analysis over clipped deltas; per-thread keys by AST inventory.",
            "abstract interpretation (provenance, polynomial forms, sign analysis)")


def _idx_terms(t, out=None):
    out = [] if out is None else out
    if isinstance(t, tuple):
        if t and t[0] == "idx":
            out.append(t)
            return out
        for x in t:
            if isinstance(x, tuple):
                _idx_terms(x, out)
    return out


def _strip_clamp(v):
    """min(max(lo, x), hi) -> (x, (lo, hi))"""
    lo = hi = None
    cur = v
    for _ in range(2):
        if isinstance(cur, tuple) and cur[0] == "call" and cur[1] in ("min", "max") \
                and len(cur) == 4:
            consts = [x for x in cur[2:] if x[0] == "const"]
            others = [x for x in cur[2:] if x[0] != "const"]
            if len(consts) == 1 and len(others) == 1:
                if cur[1] == "min":
                    hi = consts[0][1]
                else:
                    lo = consts[0][1]
                cur = others[0]
                continue
        break
    return cur, (lo, hi)


def _r4(ctx, repo, An):
    fi = repo.func("psutil", "Process.cpu_percent")
    I = Interp(repo, An)
    I.opaque = {"_pslinux:Process.cpu_times", "psutil:cpu_count"}
    t = I.call_function(fi, [("const", 1.0)])
    alts = expand(t)
    vals = []
    for a in alts:
        try:
            vals.append(to_rat(a))
        except NotPolynomial as e:
            raise AnalysisError(f"Process.cpu_percent: {e}")
    nz = [v for v in vals if not v.num.is_zero()]
    zero = [v for v in vals if v.num.is_zero()]
    probs = []
    if not zero:
        probs.append("no 0.0 result for the first call / zero interval")
    if not nz:
        probs.append("no computed value")
    for v in nz:
        atoms = sorted(v.num.atoms() | v.den.atoms())
        ncpu = [a for a in atoms if "cpu_count" in a]
        clk = [a for a in atoms if a.startswith("sample(") and
               ("timer" in a or "monotonic" in a or "time.time" in a)]
        import re as _re

        def inst(a):
            m = _re.findall(r", (\d+)\)", a)
            return int(m[0]) if m else 0
        user = sorted((a for a in atoms if a.endswith("'user')")), key=inst)
        sys_ = sorted((a for a in atoms if a.endswith("'system')")), key=inst)
        clk = sorted(clk, key=inst)
        if len(clk) != 2 or len(user) != 2 or len(sys_) != 2:
            probs.append(f"unexpected operands {atoms[:6]}")
            continue
        # blocking form: both samples are taken in this call (sample ids grow)
        dproc = (A_(user[1]) - A_(user[0])) + (A_(sys_[1]) - A_(sys_[0]))
        want = Rat(Poly.const(100)) * dproc / (A_(clk[1]) - A_(clk[0]))
        ok = v.same(want)
        if not ok:
            probs.append(f"value `{v!r}`"[:200] + " is not 100 * (delta user+system) / "
                         "(delta wall time): the CPU-count factors must cancel")
        if ("round", 1) not in v.tags:
            probs.append("not rounded to 1 decimal")
    if probs:
        ctx.fail("C07.R4", "Process.cpu_percent:form", fi.file, fi.node.lineno, fi.qual,
                 "; ".join(sorted(set(probs))))
    else:
        ctx.ok("C07.R4", "Process.cpu_percent:form",
               sample="round(((dproc / (T*N - T0*N)) * 100) * N, 1) == 100*dproc/dwall")
    # negative interval
    cfg = An.cfg(fi)
    raises = [n for n in cfg.nodes if n.kind == "raise" and "ValueError" in norm_stmt(n.stmt)]
    good = False
    for r in raises:
        gs = cfg.guards(r)
        if len(gs) == 1 and gs[0][1] is True:
            samples = {None: False, -1: True, -0.5: True, 0: False, 0.0: False, 2: False}
            if {k: eval_pred(gs[0][0], {"interval": k}) for k in samples} == samples:
                tn = [x for x in cfg.nodes if x.kind == "test" and x.expr is gs[0][0]][0]
                inner = [c for c in calls_in(fi.node) if isinstance(c.func, ast.Attribute)
                         and c.func.attr in ("cpu_times", "sleep")]
                if all(cfg.dominates(tn, n) for c in inner for n in cfg.owners(c)):
                    good = True
    if good:
        ctx.ok("C07.R4", "Process.cpu_percent:negative", sample="interval<0 -> ValueError first")
    else:
        ctx.fail("C07.R4", "Process.cpu_percent:negative", fi.file, fi.node.lineno, fi.qual,
                 "a negative interval is not rejected before sampling")
    # the two system-wide entry points validate the interval the same way
    for q in ("cpu_percent", "cpu_times_percent"):
        f2 = repo.func("psutil", q)
        c2 = An.cfg(f2)
        p0 = f2.node.args.args[0].arg if f2.node.args.args else "interval"
        good2 = False
        for r in [n for n in c2.nodes if n.kind == "raise" and "ValueError" in norm_stmt(n.stmt)]:
            gs = c2.guards(r)
            if len(gs) == 1 and gs[0][1] is True:
                samples = {None: False, -1: True, -0.5: True, 0: False, 0.0: False, 2: False}
                if {k: eval_pred(gs[0][0], {p0: k}) for k in samples} == samples:
                    tn = [x for x in c2.nodes if x.kind == "test" and x.expr is gs[0][0]][0]
                    inner = [c for c in calls_in(f2.node)
                             if (dotted(c.func) or "").split(".")[-1] in ("cpu_times", "sleep")]
                    if all(c2.dominates(tn, n) for c in inner for n in c2.owners(c)
                           if not any(n.stmt is not None and any(x is n.stmt for x in ast.walk(d))
                                      for d in ast.walk(f2.node)
                                      if isinstance(d, ast.FunctionDef) and d is not f2.node)):
                        good2 = True
        if good2:
            ctx.ok("C07.R4", f"{q}:negative", sample="interval<0 (only) -> ValueError first")
        else:
            ctx.fail("C07.R4", f"{q}:negative", f2.file, f2.node.lineno, f2.qual,
                     f"{q}(): ValueError is not raised exactly for a negative interval, "
                     f"before sampling (interval=0 and None are valid, non-blocking calls)")
    # both samples stored on every non-raising path that computed something
    w1 = [n for n in cfg.nodes if n.kind == "stmt" and isinstance(n.stmt, ast.Assign)
          and dotted(n.stmt.targets[0]) == "self._last_sys_cpu_times"]
    w2 = [n for n in cfg.nodes if n.kind == "stmt" and isinstance(n.stmt, ast.Assign)
          and dotted(n.stmt.targets[0]) == "self._last_proc_cpu_times"]
    leak1 = cfg.path_exists(cfg.entry, cfg.exit, avoid=set(w1), skip_labels=("exc", "raise"))
    leak2 = cfg.path_exists(cfg.entry, cfg.exit, avoid=set(w2), skip_labels=("exc", "raise"))
    srcs_ok = all(dotted(n.stmt.value) in ("st2",) for n in w1) and \
        all(dotted(n.stmt.value) in ("pt2",) for n in w2)
    if not leak1 and not leak2 and w1 and w2 and srcs_ok:
        ctx.ok("C07.R4", "Process.cpu_percent:samples-stored",
               sample="every normal return passes the two _last_* stores")
    else:
        ctx.fail("C07.R4", "Process.cpu_percent:samples-stored", fi.file, fi.node.lineno,
                 fi.qual, "some returning path does not store the new samples (the next "
                 "call would measure against a stale sample)")
    # first call -> 0.0
    first = False
    for n in cfg.nodes:
        if n.kind == "return" and isinstance(n.stmt.value, ast.Constant) \
                and n.stmt.value.value == 0.0:
            g = [norm_stmt(e).replace(" ", "") for e, p, _ in cfg.guards(n) if p is True]
            if any("st1isNone" in x and "pt1isNone" in x for x in g):
                first = True
    if first:
        ctx.ok("C07.R4", "Process.cpu_percent:first-call", sample="st1 is None or pt1 is None -> 0.0")
    else:
        ctx.fail("C07.R4", "Process.cpu_percent:first-call", fi.file, fi.node.lineno, fi.qual,
                 "the first call no longer returns 0.0")


def _all_atoms(alts):
    out = set()
    for a in alts:
        try:
            r = to_rat(a)
            out |= r.num.atoms() | r.den.atoms()
        except NotPolynomial:
            pass
    return out
