"""C04 - pids(), pid_exists() and process_iter(): one coherent, cached list."""

import ast

from ..core.analysis import Analysis, assigned_names, facts
from ..core.astutil import deref, enclosing_trys, handler_catches
from ..core.escape import Escape
from ..core.pyrepo import Repo, calls_in, dotted, norm_stmt

MUTATORS = {"pop", "popitem", "clear", "update", "setdefault", "__setitem__",
            "__delitem__"}


# where kill(pid, 0) is known to disagree with the process listing (the code's own
# comments, confirmed on the pinned tree): the direction in which the listing must
# have the final say
KILL_LIES = {
    "netbsd": (False, "kill() reports ESRCH for zombies, which pids() lists"),
    "openbsd": (True, "kill() succeeds for thread IDs, which pids() does not list"),
}


def _bsd_pid_exists(ctx, repo, A):
    from ..core.pyrepo import eval_cond, platform_flags
    for plat, (lies_when, why) in sorted(KILL_LIES.items()):
        flags = platform_flags(plat)
        cands = [f for f in repo.funcs("_psbsd", "pid_exists")
                 if all(eval_cond(t, flags) is pol for t, pol in f.conds)]
        key = f"{plat}-pid_exists:listing-decides"
        if not cands:
            # no own definition: the plain kill() probe is used on this platform
            m = repo.mod("_psbsd")
            ctx.fail("C04.R2", key, m.rel, 0, "pid_exists",
                     f"{plat} uses the bare kill() probe, but {why}: pid_exists() would "
                     f"disagree with pids()")
            continue
        f = cands[0]
        cfg = A.cfg(f)
        probes = [c for c in calls_in(f.node) if dotted(c.func) == "_psposix.pid_exists"]
        subj = {norm_stmt(c) for c in probes}
        for nm, sts in assigned_names(f.node).items():
            if any(isinstance(st, ast.Assign) and st.value in probes for st in sts):
                subj.add(nm)
        bad = None
        nret = 0
        for n in cfg.nodes:
            if n.kind != "return":
                continue
            nret += 1
            pol = None
            for ft in facts(cfg, n):
                if ft[0] in ("truthy", "expr") and ft[1] in subj:
                    pol = ft[2]
            v = n.stmt.value
            if isinstance(v, ast.Call) and dotted(v.func) == "_psposix.pid_exists":
                bad = "returns the bare kill() probe"
            elif pol is lies_when or pol is None:
                listing = isinstance(v, ast.Compare) and len(v.ops) == 1 \
                    and isinstance(v.ops[0], ast.In) \
                    and isinstance(v.comparators[0], ast.Call) \
                    and dotted(v.comparators[0].func) == "pids"
                if not listing:
                    bad = (f"answers `{norm_stmt(v) if v is not None else None}` when the kill() "
                           f"probe says {lies_when}")
        if bad or not nret:
            ctx.fail("C04.R2", key, f.file, f.node.lineno, f.qual,
                     f"{plat}: {why}, yet pid_exists() {bad or 'has no return'}: it no longer "
                     f"answers True exactly for the PIDs pids() lists")
        else:
            ctx.ok("C04.R2", key, sample=f"{plat}: probe says {lies_when} -> `pid in pids()` decides")


def run(ctx):
    repo = Repo(ctx.repo)
    A = Analysis(repo)

    # ------------------------------------------------------------------- R1
    ctx.rule("C04.R1", "ordering: pids() returns sorted(platform pids); "
             "process_iter() yields from a sorted sequence; Linux pids() keeps "
             "exactly the all-digit entries of the procfs root", floor=3)
    pf = repo.func("psutil", "pids")
    last = pf.node.body[-1]
    asg = assigned_names(pf.node)
    rname = dotted(last.value) if isinstance(last, ast.Return) else None
    src = None
    if rname and len(asg.get(rname, [])) == 1:
        src = asg[rname][0].value
    elif isinstance(last, ast.Return):
        src = last.value
    if src is not None:
        src = deref(pf.node, src)
    good = isinstance(src, ast.Call) and dotted(src.func) == "sorted" and src.args \
        and isinstance(src.args[0], ast.Call) and dotted(src.args[0].func) == "_psplatform.pids" \
        and not src.keywords
    if good:
        ctx.ok("C04.R1", "pids:sorted", sample=norm_stmt(src))
    else:
        ctx.fail("C04.R1", "pids:sorted", pf.file, pf.node.lineno, pf.qual,
                 "pids() no longer returns sorted(_psplatform.pids()) (ascending order "
                 "is part of the contract; parent() also relies on pids()[0])")
    pi = repo.func("psutil", "process_iter")
    loops = [s for s in ast.walk(pi.node) if isinstance(s, ast.For)
             and any(isinstance(y, ast.Yield) for y in ast.walk(s))]
    ctx.require(loops, "process_iter: yielding loop vanished")
    lp = loops[0]
    asg = assigned_names(pi.node)
    it = lp.iter
    if isinstance(it, ast.Name) and len(asg.get(it.id, [])) == 1:
        it = asg[it.id][0].value
    inplace = False
    if isinstance(lp.iter, ast.Name):
        # L.sort() (default order) dominating the loop, L not rebuilt in between
        pcfg = A.cfg(pi)
        sorts = [n for c in calls_in(pi.node) if isinstance(c.func, ast.Attribute)
                 and c.func.attr == "sort" and dotted(c.func.value) == lp.iter.id
                 and not c.args and not c.keywords for n in pcfg.owners(c)]
        heads = pcfg.nodes_of(lp)
        writers = [n for st_ in asg.get(lp.iter.id, []) for n in pcfg.nodes_of(st_)]
        muts = [n for c in calls_in(pi.node) if isinstance(c.func, ast.Attribute)
                and c.func.attr in ("append", "extend", "insert", "reverse")
                and dotted(c.func.value) == lp.iter.id for n in pcfg.owners(c)]
        for sn in sorts:
            if all(pcfg.dominates(sn, h) for h in heads) and not any(
                    pcfg.path_exists(sn, w) and any(pcfg.path_exists(w, h) for h in heads)
                    and w is not sn for w in writers + muts if not pcfg.dominates(w, sn)):
                inplace = True
    if inplace or (isinstance(it, ast.Call) and dotted(it.func) == "sorted" and not it.keywords):
        ctx.ok("C04.R1", "process_iter:sorted", sample=norm_stmt(it)[:70])
    else:
        ctx.fail("C04.R1", "process_iter:sorted", pi.file, lp.lineno, pi.qual,
                 "process_iter() no longer iterates a sorted (pid, proc) sequence")
    lpf = repo.func("_pslinux", "pids")
    r = [s for s in ast.walk(lpf.node) if isinstance(s, ast.Return)]
    v = r[0].value if r else None
    good = isinstance(v, ast.ListComp) and len(v.generators) == 1 \
        and norm_stmt(v.elt) == f"int({norm_stmt(v.generators[0].target)})" \
        and [norm_stmt(i) for i in v.generators[0].ifs] == \
        [f"{norm_stmt(v.generators[0].target)}.isdigit()"] \
        and isinstance(v.generators[0].iter, ast.Call) \
        and dotted(v.generators[0].iter.func) == "os.listdir"
    if good:
        ctx.ok("C04.R1", "linux-pids:digits", sample=norm_stmt(v))
    else:
        ctx.fail("C04.R1", "linux-pids:digits", lpf.file, lpf.node.lineno, lpf.qual,
                 "Linux pids() is no longer [int(x) for x in os.listdir(procfs) if "
                 "x.isdigit()]")

    # ------------------------------------------------------------------- R2
    ctx.rule("C04.R2", "pid_exists(n) is total for ints: no errno failure of a "
             "per-process access and no argument-conversion error escapes it; "
             "negative -> False first; 0 -> membership in pids() on POSIX", floor=3)
    pe = repo.func("psutil", "pid_exists")
    E = Escape(repo, A, "linux")
    es = E.escapes(pe)
    armed = sorted({(x.cls, x.site) for x in es
                    if (x.cls in ("FileNotFoundError", "ProcessLookupError",
                                  "PermissionError") and x.origin in ("process", "param"))
                    or (x.cls == "OverflowError" and x.origin == "arg")})
    if armed:
        for cls, site in armed:
            ctx.fail("C04.R2", f"pid_exists:escape:{cls}@{site.split(':', 2)[2]}", pe.file,
                     pe.node.lineno, pe.qual,
                     f"{cls} raised at {site} escapes pid_exists(): for a non-negative "
                     f"int the answer must be True/False"
                     + (" (pid >= 2**31 overflows the C pid conversion; Process() guards "
                        "the same conversion with check_pid_range)" if cls == "OverflowError"
                        else ""))
    else:
        ctx.ok("C04.R2", "pid_exists:escape",
               sample={"escapes": sorted({(x.cls, x.origin) for x in es})})
    cfg = A.cfg(pe)
    plat_calls = [c for c in calls_in(pe.node) if dotted(c.func) == "_psplatform.pid_exists"]
    ctx.require(plat_calls, "pid_exists no longer calls the platform implementation")
    ok = True
    for c in plat_calls:
        for n in cfg.owners(c):
            fs = facts(cfg, n)
            if ("cmp", "pid", "<", 0, False) not in fs and ("cmp", "pid", ">=", 0, True) not in fs:
                ok = False
    neg = [n for n in cfg.nodes if n.kind == "return" and isinstance(n.stmt.value, ast.Constant)
           and n.stmt.value.value is False
           and ("cmp", "pid", "<", 0, True) in facts(cfg, n)]
    if ok and neg:
        ctx.ok("C04.R2", "pid_exists:negative", sample="pid < 0 -> False before the platform call")
    else:
        ctx.fail("C04.R2", "pid_exists:negative", pe.file, pe.node.lineno, pe.qual,
                 "negative numbers are no longer answered False before the platform "
                 "probe (kill(-n, 0) addresses a process group)")
    zero = [n for n in cfg.nodes if n.kind == "return"
            and norm_stmt(n.stmt.value).replace(" ", "") == "pidinpids()"]
    zok = False
    for n in zero:
        g = [norm_stmt(e).replace(" ", "") for e, p, _ in cfg.guards(n) if p is True]
        if any(x in ("pid==0andPOSIX", "POSIXandpid==0", "pid==0") for x in g):
            zok = True
    if zok:
        ctx.ok("C04.R2", "pid_exists:zero", sample="pid == 0 and POSIX -> pid in pids()")
    else:
        ctx.fail("C04.R2", "pid_exists:zero", pe.file, pe.node.lineno, pe.qual,
                 "PID 0 is no longer answered from the process list on POSIX")
    # Linux: Tgid == pid distinguishes processes from threads
    lpe = repo.func("_pslinux", "pid_exists")
    from ..core.absint import Interp, alternatives, pretty
    from ..core.forms import canon
    from .c06 import collect
    It = Interp(repo, A)
    lp0 = lpe.node.args.args[0].arg if lpe.node.args.args else "pid"
    tt = canon(It.call_function(lpe, [("param", lp0)]))
    alts = alternatives(tt)
    has_false = ("const", False) in alts
    has_list = any(a[0] == "cmp" and a[1] == "in" and a[2] == ("param", lp0)
                   and "listdir" in pretty(a[3]) for a in alts)
    tg = False
    for w in collect(tt, lambda x: x and x[0] == "when"):
        keyok = any(pol is True and c and c[0] == "call" and c[1] == "startswith"
                    and c[-1] == ("const", b"Tgid:") for c, pol in w[1])
        v = w[2]
        if keyok and v[0] == "cmp" and v[1] == "==" and ("param", lp0) in (v[2], v[3]):
            other = v[3] if v[2] == ("param", lp0) else v[2]
            cols = [x for x in collect(other, lambda y: y and y[0] == "idx" and y[2] == 1)
                    if "/status" in pretty(x)]
            if cols and other[0] == "call" and other[1] == "int":
                tg = True
    if tg and has_list and has_false:
        ctx.ok("C04.R2", "linux-pid_exists:tgid", sample="Tgid == pid; fallback pid in pids()")
    else:
        ctx.fail("C04.R2", "linux-pid_exists:tgid", lpe.file, lpe.node.lineno, lpe.qual,
                 f"Linux pid_exists answers `{pretty(tt)[:160]}`: thread IDs must answer False "
                 f"(int(Tgid column) == pid) and the fallback is the listing")

    _bsd_pid_exists(ctx, repo, A)

    # ------------------------------------------------------------------- R3
    ctx.rule("C04.R3", "cache discipline of process_iter(): works on a copy; PIDs "
             "that went away are dropped before iterating; _pids_reused is drained "
             "into removals; new PIDs get Process(pid); NoSuchProcess while visiting "
             "removes the entry; the global is re-bound in a finally that encloses "
             "every yield; attrs/ad_value reach as_dict unchanged -> .info; "
             "cache_clear clears the map", floor=8)
    cfg = A.cfg(pi)
    asg = assigned_names(pi.node)
    gname = None
    for st in ast.walk(pi.node):
        if isinstance(st, ast.Global):
            gname = st.names[0]
    ctx.require(gname, "process_iter: `global <cache>` vanished")
    # (a) copy
    work = [k for k, v in asg.items() if len(v) == 1 and isinstance(v[0], ast.Assign)
            and norm_stmt(v[0].value).replace(" ", "") in (f"{gname}.copy()", f"dict({gname})")]
    if work:
        ctx.ok("C04.R3", "copy", sample=f"{work[0]} = {gname}.copy()")
    else:
        ctx.fail("C04.R3", "copy", pi.file, pi.node.lineno, pi.qual,
                 f"process_iter() no longer works on a copy of {gname}")
        return _finish(ctx)
    wname = work[0]
    # effects on the working map, written inline or through a local closure
    closures = {f.name: f for f in repo.all_funcs("psutil") if f.parent is pi}

    def _direct_evict(c, names):
        """pid expression evicted by call c from the map called one of `names`."""
        if isinstance(c.func, ast.Attribute) and c.func.attr == "pop" \
                and dotted(c.func.value) in names and c.args:
            return c.args[0]
        return None

    def evictions(node):
        """[(node, evicted-pid expression)] inside `node`."""
        out = []
        for c in calls_in(node):
            e = _direct_evict(c, {wname})
            if e is not None:
                out.append((c, e))
            elif isinstance(c.func, ast.Name) and c.func.id in closures and c.args:
                cl = closures[c.func.id]
                ps = [a.arg for a in cl.node.args.args]
                for c2 in calls_in(cl.node):
                    e2 = _direct_evict(c2, {wname})
                    if e2 is not None and dotted(e2) in ps:
                        out.append((c, c.args[ps.index(dotted(e2))]))
        for d in ast.walk(node):
            if isinstance(d, ast.Delete):
                for t in d.targets:
                    if isinstance(t, ast.Subscript) and dotted(t.value) == wname:
                        out.append((d, t.slice))
        return out

    def insertions(node):
        """[(node, variable receiving the new Process)] for `W[k] = Process(pid)`
        effects inside `node` (inline or through a closure)."""
        out = []
        stores = [st for st in ast.walk(node) if isinstance(st, ast.Assign)
                  and isinstance(st.targets[0], ast.Subscript)
                  and dotted(st.targets[0].value) == wname]
        for st in stores:
            v = deref(pi.node if node is not None else node, st.value)
            src = [a for a in ast.walk(node) if isinstance(a, ast.Assign)
                   and dotted(a.targets[0]) == dotted(st.value)
                   and isinstance(a.value, ast.Call) and dotted(a.value.func) == "Process"]
            if (isinstance(v, ast.Call) and dotted(v.func) == "Process") or src:
                out.append((st, dotted(st.value)))
        for st in ast.walk(node):
            if isinstance(st, ast.Assign) and isinstance(st.value, ast.Call) \
                    and isinstance(st.value.func, ast.Name) and st.value.func.id in closures:
                cl = closures[st.value.func.id]
                inner = insertions(cl.node)
                rets = [r for r in ast.walk(cl.node) if isinstance(r, ast.Return)]
                if inner and rets and all(dotted(r.value) == inner[0][1] for r in rets):
                    out.append((st, dotted(st.targets[0])))
        return out
    yn = [n for n in cfg.nodes if n.kind == "stmt" and isinstance(n.stmt, ast.Expr)
          and isinstance(n.stmt.value, ast.Yield)]
    ctx.require(yn, "process_iter: yield vanished")
    # (b) gone pids removed: for X in (cached keys - listed pids): evict X
    gl = []
    for lp in [s_ for s_ in ast.walk(pi.node) if isinstance(s_, ast.For)]:
        it = deref(pi.node, lp.iter)
        if not (isinstance(it, ast.BinOp) and isinstance(it.op, ast.Sub)):
            continue
        lt = norm_stmt(it.left).replace(" ", "")
        rt = norm_stmt(it.right).replace(" ", "")
        if wname in lt and "pids()" in rt and wname not in rt \
                and any(dotted(e) == dotted(lp.target) for _, e in evictions(lp)):
            gl.append(lp)
    if gl and all(cfg.dominates(h, y) for s_ in gl for h in cfg.nodes_of(s_) for y in yn):
        ctx.ok("C04.R3", "drop-gone", sample="for pid in (cached - listed): evict pid")
    else:
        ctx.fail("C04.R3", "drop-gone", pi.file, pi.node.lineno, pi.qual,
                 "entries of PIDs that are no longer listed are not dropped before "
                 "iterating (a dead process would be yielded again)")
    # (c) reused drained: while _pids_reused: evict(_pids_reused.pop())
    dr = [s_ for s_ in ast.walk(pi.node) if isinstance(s_, ast.While)
          and dotted(s_.test) == "_pids_reused"]
    dok = False
    for s_ in dr:
        for c, e in evictions(s_):
            ed = deref(pi.node, e)
            popped = isinstance(ed, ast.Call) and isinstance(ed.func, ast.Attribute) \
                and ed.func.attr == "pop" and dotted(ed.func.value) == "_pids_reused"
            if not popped and dotted(e):
                # multi-use temporary: pid = _pids_reused.pop(); ...; evict(pid)
                popped = any(isinstance(a, ast.Assign) and dotted(a.targets[0]) == dotted(e)
                             and isinstance(a.value, ast.Call)
                             and isinstance(a.value.func, ast.Attribute)
                             and a.value.func.attr == "pop"
                             and dotted(a.value.func.value) == "_pids_reused"
                             for a in ast.walk(s_))
            if popped and all(cfg.dominates(h, y) for h in cfg.nodes_of(s_) for y in yn):
                dok = True
    if dok:
        ctx.ok("C04.R3", "drain-reused", sample="while _pids_reused: evict(_pids_reused.pop())")
    else:
        ctx.fail("C04.R3", "drain-reused", pi.file, pi.node.lineno, pi.qual,
                 "PIDs found recycled by is_running() are no longer evicted: the stale "
                 "object would keep being yielded for the new process")
    # ... nothing but that drain takes a flag away: a cache_clear() (or anything else)
    # that empties _pids_reused loses the flags of objects a still-running iteration
    # is about to publish again
    takers = []
    for g_ in repo.all_funcs("psutil"):
        for x_ in ast.walk(g_.node):
            if isinstance(x_, ast.Call) and isinstance(x_.func, ast.Attribute) \
                    and dotted(x_.func.value) == "_pids_reused" \
                    and x_.func.attr in ("clear", "pop", "discard", "remove", "difference_update",
                                         "intersection_update"):
                takers.append((g_, x_))
            elif isinstance(x_, ast.Assign) and any(dotted(t_) == "_pids_reused" for t_ in x_.targets):
                takers.append((g_, x_))
    m_ = repo.mod("psutil")
    for x_ in ast.walk(m_.tree):
        if isinstance(x_, ast.Lambda) and any(
                isinstance(y_, ast.Call) and isinstance(y_.func, ast.Attribute)
                and dotted(y_.func.value) == "_pids_reused" and y_.func.attr == "clear"
                for y_ in ast.walk(x_)):
            takers.append((None, x_))
    bad_t = [(g_, x_) for g_, x_ in takers if g_ is None or g_.qual != "process_iter"]
    if bad_t:
        g_, x_ = bad_t[0]
        ctx.fail("C04.R3", "reused-flags-kept", pi.file, getattr(x_, "lineno", 0),
                 g_.qual if g_ is not None else "<lambda>",
                 f"`{norm_stmt(x_)[:60]}` removes recycled-PID flags outside process_iter()'s own "
                 f"drain: an object found recycled while an iteration is in progress is published "
                 f"again without its flag and is yielded for ever")
    else:
        ctx.ok("C04.R3", "reused-flags-kept", nontrivial=False,
               sample="only process_iter() pops from _pids_reused")
    # ... and the producer side: every recycled verdict is published, whatever the
    # state of the cache at that moment
    from .c02 import publish_conditions
    extra = publish_conditions(repo, A)
    irf = repo.func("psutil", "Process.is_running")
    if extra:
        ctx.fail("C04.R3", "reused-published", irf.file, irf.node.lineno, irf.qual,
                 f"is_running() publishes a recycled PID to process_iter() only under {extra}: "
                 f"an object cached by an iteration still in progress is never replaced")
    else:
        ctx.ok("C04.R3", "reused-published", sample="_pids_reused.add(self.pid) whenever the "
               "recycled verdict is reached")
    # (d) new -> Process(pid) stored in the map, under `proc is None`
    new_ok = False
    for st, var in insertions(pi.node):
        for n in cfg.nodes_of(st):
            if any(f[0] == "isnone" and f[2] is True for f in facts(cfg, n)):
                new_ok = True
    if new_ok:
        ctx.ok("C04.R3", "add-new", sample="proc is None -> Process(pid) created and stored")
    else:
        ctx.fail("C04.R3", "add-new", pi.file, pi.node.lineno, pi.qual,
                 "new PIDs are not turned into cached Process objects")
    # (e) NSP handler removes
    ytry = enclosing_trys(pi.node, yn[0].stmt)
    nsp = [h for t in ytry for h in t.handlers if handler_catches(h, ["NoSuchProcess"])]
    eok = any(any(evictions(b) for b in h.body)
              and not any(isinstance(s_, (ast.Raise, ast.Return, ast.Break))
                          for b in h.body for s_ in ast.walk(b)) for h in nsp)
    if eok:
        ctx.ok("C04.R3", "nsp-removes", sample="except NoSuchProcess: evict pid")
    else:
        ctx.fail("C04.R3", "nsp-removes", pi.file, pi.node.lineno, pi.qual,
                 "a process vanishing while visited is not removed from the cache / "
                 "not skipped silently")
    # (f) finally re-binds the global, enclosing every yield
    fins = [t for t in ast.walk(pi.node) if isinstance(t, ast.Try) and t.finalbody
            and any(isinstance(s, ast.Assign) and dotted(s.targets[0]) == gname
                    and dotted(s.value) == wname for s in t.finalbody)]
    fok = bool(fins) and all(any(y.stmt in list(ast.walk(b)) for t in fins for b in t.body)
                             for y in yn)
    others = [s for s in ast.walk(pi.node) if isinstance(s, (ast.Assign, ast.AugAssign))
              and any(dotted(t) == gname for t in
                      (s.targets if isinstance(s, ast.Assign) else [s.target]))
              and not any(s in t.finalbody for t in fins)]
    if fok and not others:
        ctx.ok("C04.R3", "publish-in-finally", sample=f"finally: {gname} = {wname}")
    else:
        ctx.fail("C04.R3", "publish-in-finally", pi.file, pi.node.lineno, pi.qual,
                 f"{gname} is not re-bound in a finally enclosing every yield: a "
                 f"partially consumed iterator would lose the objects it created"
                 if not fok else f"{gname} is also assigned outside the finally")
    # (g) attrs
    ad = [c for c in calls_in(pi.node) if isinstance(c.func, ast.Attribute)
          and c.func.attr == "as_dict"]
    gok = False
    for c in ad:
        kws = {k.arg: dotted(k.value) for k in c.keywords}
        pos = [dotted(a) for a in c.args]
        a_ok = kws.get("attrs") == "attrs" or (pos and pos[0] == "attrs")
        v_ok = kws.get("ad_value") == "ad_value" or (len(pos) > 1 and pos[1] == "ad_value")
        for n in cfg.owners(c):
            st = n.stmt
            if isinstance(st, ast.Assign) and dotted(st.targets[0]) and \
                    dotted(st.targets[0]).endswith(".info") and a_ok and v_ok and \
                    ("isnone", "attrs", False) in facts(cfg, n):
                gok = True
    if gok and not asg.get("attrs") and not asg.get("ad_value"):
        ctx.ok("C04.R3", "attrs-info", sample="proc.info = proc.as_dict(attrs=attrs, ad_value=ad_value)")
    else:
        ctx.fail("C04.R3", "attrs-info", pi.file, pi.node.lineno, pi.qual,
                 "attrs/ad_value no longer reach as_dict() unchanged into .info")
    # (h) cache_clear
    m = repo.mod("psutil")
    cc = None
    for st in m.tree.body:
        if isinstance(st, ast.Assign) and dotted(st.targets[0]) == "process_iter.cache_clear":
            cc = st
    good = cc is not None and isinstance(cc.value, ast.Lambda) and \
        norm_stmt(cc.value.body).replace(" ", "") == f"{gname}.clear()"
    if not good and cc is not None and isinstance(cc.value, ast.Name):
        f = repo.func("psutil", cc.value.id, required=False)
        good = f is not None and any(norm_stmt(c).replace(" ", "") == f"{gname}.clear()"
                                     for c in calls_in(f.node))
    if good:
        ctx.ok("C04.R3", "cache_clear", sample=norm_stmt(cc))
    else:
        ctx.fail("C04.R3", "cache_clear", m.rel, cc.lineno if cc else 0, "<module>",
                 f"process_iter.cache_clear no longer empties {gname}")

    # ------------------------------------------------------------------- R4
    ctx.rule("C04.R4", "shared-state discipline: the published map is never "
             "mutated in place by process_iter() (copy, mutate the copy, re-bind)",
             floor=1)
    bad = []
    for fi in [pi] + [f for f in repo.all_funcs("psutil") if f.parent is pi]:
        for c in calls_in(fi.node):
            if isinstance(c.func, ast.Attribute) and dotted(c.func.value) == gname \
                    and c.func.attr in MUTATORS:
                bad.append(norm_stmt(c))
        for s in ast.walk(fi.node):
            if isinstance(s, (ast.Assign, ast.Delete)):
                for t in s.targets:
                    if isinstance(t, ast.Subscript) and dotted(t.value) == gname:
                        bad.append(norm_stmt(s))
    if bad:
        ctx.fail("C04.R4", "inplace-mutation", pi.file, pi.node.lineno, pi.qual,
                 f"{gname} is mutated in place ({bad}): a second thread iterating "
                 f"would see the dictionary change size")
    else:
        ctx.ok("C04.R4", "inplace-mutation", sample=f"all writes go to the local copy {wname}")
    for n in cfg.nodes:
        if n.kind == "test" and dotted(n.expr) == "_pids_reused":
            ctx.advisory("C04.R4: `while _pids_reused: ...pop()` is check-then-act on a "
                         "shared set without a lock; not reproducible as a failure on "
                         "CPython (no pre-emption point between test and pop)")
    return _finish(ctx)


def _finish(ctx):
    ctx.assume("identity of yielded objects across real process-table changes and "
               "real thread schedules are not exercised")
    return ("Def-use of the returned/iterated sequences (sorted), exception-escape "
            "analysis of pid_exists() (errno + argument-conversion origins), "
            "dominance of the cache-maintenance steps over the first yield, "
            "try/finally enclosure of every yield, and an in-place-mutation "
            "inventory of the shared map.",
            "def-use, exception-escape analysis, CFG dominance, typestate of the cache")
