"""C14 - open_files(), num_fds() and io_counters() reflect the descriptor table."""

import ast

from ..core.absint import OS_CONSTS, Interp, alternatives, result_alternatives, pretty
from ..core.analysis import Analysis, facts
from ..core.astutil import enclosing_trys, handler_catches
from ..core.cfg import decompose_guard
from ..core.forms import canon, srcinfo
from ..core.report import AnalysisError
from ..core.pyrepo import Repo, calls_in, dotted, norm_stmt
from ..oracles import linux as O
from .c06 import collect


def const_int(e):
    """Value of an int expression over literals and os.O_* constants, or None."""
    if isinstance(e, ast.Constant) and isinstance(e.value, int):
        return e.value
    d = dotted(e)
    if d in OS_CONSTS:
        return OS_CONSTS[d]
    if isinstance(e, ast.BinOp):
        l, r = const_int(e.left), const_int(e.right)
        if l is None or r is None:
            return None
        if isinstance(e.op, ast.BitOr):
            return l | r
        if isinstance(e.op, ast.BitAnd):
            return l & r
        if isinstance(e.op, ast.Add):
            return l + r
    return None


def run(ctx):
    repo = Repo(ctx.repo)
    A = Analysis(repo)
    pm = "_pslinux"
    I = Interp(repo, A)

    # ------------------------------------------------------------------- R1
    ctx.rule("C14.R1", "flag table, exhaustively: for every access mode 0..3, with and "
             "without O_APPEND and unrelated flag bits, file_flags_to_mode() evaluates "
             "(no KeyError) to the documented mode string r, w, a, r+, a+", floor=16)
    ff = repo.func(pm, "file_flags_to_mode")
    # exhaustive over the finite domain: access mode 0..3 (open(2) accepts 3 on
    # Linux) x O_APPEND x other flag bits; the function is evaluated on each value
    from ..core import minieval as ME
    consts = ME.module_constants(repo.mod(pm).assigns, OS_CONSTS)   # incl. module-level tables
    want = {0: ("r", "r"), 1: ("w", "a"), 2: ("r+", "a+"), 3: ("r+", "a+")}
    for acc, (plain, appended) in want.items():
        for app in (0, 1):
            for ex in (0, 0o2100000 | 64 | 512):
                fl = acc | (1024 if app else 0) | ex
                w = appended if app else plain
                key = f"mode:{acc}:{'append' if app else 'plain'}:{'extra' if ex else 'bare'}"
                try:
                    got = ME.call_function(ff.node, [fl], consts)
                    err = None
                except ME.Raised as e_:
                    got, err = None, e_.name
                except ME.Outside:
                    t_ = I.call_function(ff, [("const", fl)])
                    if t_ and t_[0] == "const":
                        got, err = t_[1], None
                    else:
                        raise AnalysisError(
                            f"file_flags_to_mode cannot be evaluated for flags {oct(fl)}")
                if err is None and got == w:
                    ctx.ok("C14.R1", key, nontrivial=(ex == 0),
                           sample={"flags": oct(fl), "mode": w} if ex == 0 else None)
                elif err is not None:
                    ctx.fail("C14.R1", key, ff.file, ff.node.lineno, ff.qual,
                             f"flags {oct(fl)} (access mode {acc}) raise {err}: a descriptor "
                             f"opened with access mode {acc} makes open_files() fail for a "
                             f"live process")
                else:
                    ctx.fail("C14.R1", key, ff.file, ff.node.lineno, ff.qual,
                             f"flags {oct(fl)} (access {acc}, append={bool(app)}) give mode "
                             f"{got!r}, documented {w!r}")

    # ------------------------------------------------------------------- R2
    ctx.rule("C14.R2", "filter: a descriptor is listed only if its target is an "
             "absolute path and a regular file", floor=1)
    of = repo.func(pm, "Process.open_files")
    cfg = A.cfg(of)
    last = of.node.body[-1]
    rname = dotted(last.value) if isinstance(last, ast.Return) else None
    apps = [c for c in calls_in(of.node) if isinstance(c.func, ast.Attribute)
            and c.func.attr == "append" and dotted(c.func.value) == rname]
    ctx.require(apps, "open_files: result append vanished")
    for c in apps:
        conds = []
        for n in cfg.owners(c):
            for e, pol, _ in cfg.guards(n):
                for a, t in decompose_guard(e, pol):
                    conds.append((norm_stmt(a).replace(" ", ""), t))
        good = ("path.startswith('/')", True) in conds and ("isfile_strict(path)", True) in conds
        if good:
            ctx.ok("C14.R2", "filter", sample="path.startswith('/') and isfile_strict(path)")
        else:
            ctx.fail("C14.R2", "filter", of.file, c.lineno, of.qual,
                     "descriptors are listed without requiring an absolute path that is "
                     "a regular file (sockets, pipes, devices, relative targets would "
                     "be reported)")
    isf = repo.func("_common", "isfile_strict")
    rets = [norm_stmt(s.value).replace(" ", "") for s in ast.walk(isf.node)
            if isinstance(s, ast.Return)]
    if "stat.S_ISREG(st.st_mode)" in rets and "False" in rets:
        ctx.ok("C14.R2", "isfile_strict", nontrivial=False)
    else:
        ctx.fail("C14.R2", "isfile_strict", isf.file, isf.node.lineno, isf.qual,
                 f"isfile_strict returns {rets}: must be S_ISREG of the stat mode")

    # stat() of a descriptor's target can fail in many ways for a live process (ENOENT,
    # ENOTDIR after a rename, ELOOP, ENAMETOOLONG, ESTALE, EIO): every one of them means
    # "not a listable regular file"; only a permission failure is let out
    st_calls = [c_ for c_ in ast.walk(isf.node) if isinstance(c_, ast.Call)
                and dotted(c_.func) in ("os.stat", "os.lstat")]
    hgood = bool(st_calls)
    for c_ in st_calls:
        stmt_ = next(s_ for s_ in ast.walk(isf.node) if isinstance(s_, ast.stmt)
                     and not isinstance(s_, (ast.Try, ast.If, ast.FunctionDef, ast.With))
                     and any(x is c_ for x in ast.walk(s_)))
        hs_ = [h for t_ in enclosing_trys(isf.node, stmt_) for h in t_.handlers]
        gen_ = [h for h in hs_ if h.type is None or (dotted(h.type) in ("OSError", "EnvironmentError",
                                                                        "IOError", "Exception"))]
        if not gen_ or not any(isinstance(x, ast.Return) and isinstance(x.value, ast.Constant)
                               and x.value.value is False for h in gen_ for b in h.body
                               for x in ast.walk(b)):
            hgood = False
    if hgood:
        ctx.ok("C14.R2", "isfile_strict:any-stat-error", sample="except OSError: return False "
               "(PermissionError re-raised first)")
    else:
        ctx.fail("C14.R2", "isfile_strict:any-stat-error", isf.file, isf.node.lineno, isf.qual,
                 "isfile_strict() no longer answers False for every OSError of stat() other than "
                 "a permission failure: a descriptor whose target fails with ENOTDIR / ELOOP / "
                 "ENAMETOOLONG / EIO makes open_files() raise for a live process")

    # ------------------------------------------------------------------- R3
    ctx.rule("C14.R3", "a descriptor that is not a link (EINVAL) or whose target is "
             "too long (ENAMETOOLONG) is skipped; other errors propagate; every access to "
             "a per-descriptor entry tolerates ENOENT/ESRCH locally", floor=5)
    rl = [c for c in calls_in(of.node) if dotted(c.func) == "readlink"]
    ctx.require(rl, "open_files: readlink call vanished")
    hs = [h for t in enclosing_trys(of.node, rl[0]) for h in t.handlers]
    oserr = [h for h in hs if (h.type is not None and norm_stmt(h.type) == "OSError")]
    okh = False
    if oserr:
        h = oserr[0]
        evar = h.name or "err"
        outcome = {code: _handler_outcome(h.body, evar, code)
                   for code in ("EINVAL", "ENAMETOOLONG", "EACCES", "EIO", "EMFILE", "ELOOP")}
        okh = outcome == {"EINVAL": "skip", "ENAMETOOLONG": "skip", "EACCES": "raise",
                          "EIO": "raise", "EMFILE": "raise", "ELOOP": "raise"}
    # a descriptor closing at ANY step of its inspection is tolerated locally
    from .c03 import _r8 as _subobject_rule
    _subobject_rule(ctx, repo, A, pm, rule="C14.R3", only={"Process.open_files"}, floor=3)
    if okh:
        ctx.ok("C14.R3", "errno-policy", sample="EINVAL / ENAMETOOLONG -> skip; else re-raise")
        ctx.ok("C14.R3", "handler-order", nontrivial=False)
    else:
        ctx.fail("C14.R3", "errno-policy", of.file, rl[0].lineno, of.qual,
                 "the per-descriptor OSError policy changed (skip exactly EINVAL and "
                 "ENAMETOOLONG, re-raise anything else)")

    # ------------------------------------------------------------------- R4
    ctx.rule("C14.R4", "fdinfo: position is line 0 column 1 (decimal); flags is line "
             "1 column 1 parsed in base 8; fd is the directory entry; the mode is "
             "derived from those flags", floor=4)
    t = canon(I.call_function(of, []))
    recs = [x for a in result_alternatives(t) if a[0] == "listof" for x in alternatives(a[1])
            if x[0] == "nt"]
    ctx.require(recs, f"open_files(): no popenfile record: {pretty(t)[:100]}")
    rec = dict(zip(recs[0][2], recs[0][3]))

    def src(v):
        ds = [srcinfo(a) for a in collect(v, lambda x: x and x[0] in ("idx",))]
        return [d for d in ds if d]
    # srcinfo drops the base: look at the int() call itself
    pos = src(rec["position"])
    if len(pos) == 1 and pos[0]["file"].startswith("pid/fdinfo/") and pos[0]["cut"] == ("line", 0) \
            and pos[0]["col"] == 1 and ", 8)" not in pretty(rec["position"]):
        ctx.ok("C14.R4", "position", sample="int(fdinfo line 0 col 1)")
    else:
        ctx.fail("C14.R4", "position", of.file, of.node.lineno, of.qual,
                 f"position = `{pretty(rec['position'])[:100]}`: expected the decimal "
                 f"value of fdinfo line 0 (pos:) column 1")
    fl = rec["flags"]
    fls = src(fl)
    base8 = fl[0] == "call" and fl[1] == "int" and len(fl) == 4 and fl[3] == ("const", 8)
    if len(fls) == 1 and fls[0]["file"].startswith("pid/fdinfo/") and fls[0]["cut"] == ("line", 1) \
            and fls[0]["col"] == 1 and base8:
        ctx.ok("C14.R4", "flags", sample="int(fdinfo line 1 col 1, 8)")
    else:
        ctx.fail("C14.R4", "flags", of.file, of.node.lineno, of.qual,
                 f"flags = `{pretty(fl)[:100]}`: expected fdinfo line 1 (flags:) column 1 "
                 f"parsed as octal")
    if pretty(fl) in pretty(rec["mode"]):
        ctx.ok("C14.R4", "mode-from-flags", sample="mode = file_flags_to_mode(flags)")
    else:
        ctx.fail("C14.R4", "mode-from-flags", of.file, of.node.lineno, of.qual,
                 "the mode string is not computed from the descriptor's flags")
    fdv = pretty(rec["fd"])
    if "os.listdir" in fdv and "/fd'" in fdv and fdv.startswith("int("):
        ctx.ok("C14.R4", "fd", sample=fdv)
    else:
        ctx.fail("C14.R4", "fd", of.file, of.node.lineno, of.qual,
                 f"fd = `{fdv[:80]}`: expected int(<entry of <pid>/fd>)")
    pv = pretty(rec["path"])
    if "os.readlink('{procfs}/{pid}/fd/{fd}')" in pv:
        ctx.ok("C14.R4", "path", sample="readlink(<pid>/fd/<fd>)", nontrivial=False)
    else:
        ctx.fail("C14.R4", "path", of.file, of.node.lineno, of.qual,
                 f"path = `{pv[:80]}`: not the link target of <pid>/fd/<fd>")

    # ------------------------------------------------------------------- R5
    ctx.rule("C14.R5", "num_fds = number of entries of <pid>/fd; io_counters fields "
             "come from the documented /proc/<pid>/io keys; blank / un-splittable "
             "lines are skipped", floor=8)
    nf = repo.func(pm, "Process.num_fds")
    tn = canon(I.call_function(nf, []))
    if pretty(tn) == "len(os.listdir('{procfs}/{pid}/fd'))":
        ctx.ok("C14.R5", "num_fds", sample=pretty(tn))
    else:
        ctx.fail("C14.R5", "num_fds", nf.file, nf.node.lineno, nf.qual,
                 f"num_fds() = `{pretty(tn)[:80]}`, expected len(os.listdir(<pid>/fd))")
    io = repo.func(pm, "Process.io_counters")
    ti = canon(I.call_function(io, []))
    irec = [a for a in alternatives(ti) if a[0] == "nt"]
    ctx.require(irec, "io_counters(): not a pio record")
    for fld, v in zip(irec[0][2], irec[0][3]):
        want = O.PROC_IO[fld]
        recs_ = collect(v, lambda x: x and x[0] == "rec")
        keys = {r[2] for r in recs_}
        ds = [d for d in src(v)]
        key = f"pio.{fld}"
        good = keys == {want} and ds and all(d["file"] == "pid/io" and d["col"] == 1
                                             and d["sep"] == b": " for d in ds) \
            and all("split(L(), b': ', None)[0]" in r[3] for r in recs_)
        if good:
            ctx.ok("C14.R5", key, sample={fld: want.decode()})
        else:
            ctx.fail("C14.R5", key, io.file, io.node.lineno, io.qual,
                     f"pio.{fld} is read from key {sorted(keys)} "
                     f"(documented: {want.decode()})")
    icfg = A.cfg(io)
    stores = [n for n in icfg.nodes if n.kind == "stmt" and isinstance(n.stmt, ast.Assign)
              and isinstance(n.stmt.targets[0], ast.Subscript)]
    blank = stores and all(("truthy", "line", True) in facts(icfg, n) for n in stores)
    tol = False
    for tr in ast.walk(io.node):
        if isinstance(tr, ast.Try):
            for h in tr.handlers:
                if handler_catches(h, ["ValueError"]) and \
                        any(isinstance(x, ast.Continue) for x in h.body) and \
                        any("split" in norm_stmt(b) for b in tr.body):
                    tol = True
    # ... and skipped means skipped: the scan goes on after a blank or malformed
    # line (a `break`/`return` there would lose every counter below it)
    stops = [n for n in icfg.nodes if n.kind == "stmt" and isinstance(n.stmt, (ast.Break,))
             or n.kind == "return"]
    lp_ = [x for x in ast.walk(io.node) if isinstance(x, ast.For)]
    inloop = {id(y) for l_ in lp_ for b_ in l_.body for y in ast.walk(b_)}
    for n in stops:
        if id(n.stmt) in inloop and ("truthy", "line", False) in facts(icfg, n):
            blank = False
    for tr in ast.walk(io.node):
        if isinstance(tr, ast.Try):
            for h in tr.handlers:
                if handler_catches(h, ["ValueError"]) and any(
                        isinstance(x, (ast.Break, ast.Return)) for b in h.body for x in ast.walk(b)) \
                        and any("split" in norm_stmt(b) for b in tr.body):
                    tol = False
    if blank and tol:
        ctx.ok("C14.R5", "io:tolerance", sample="blank lines skipped; un-splittable lines ignored")
    else:
        ctx.fail("C14.R5", "io:tolerance", io.file, io.node.lineno, io.qual,
                 "blank or malformed extra lines in /proc/<pid>/io are no longer tolerated")
    ctx.assume("fdinfo layout (pos:, flags: in octal) and /proc/<pid>/io keys as documented "
               "in proc(5) / Documentation/filesystems/proc.rst")
    return ("Exhaustiveness of a table indexed by a masked value (mask constant-"
            "folded from os.O_*), constant-folded evaluation of the mode function over "
            "the finite (access, append) domain, control dependence of the result "
            "append, provenance of fdinfo/io fields by abstract interpretation, errno "
            "policy by handler inventory.",
            "exhaustiveness over a finite domain, abstract interpretation (provenance), "
            "control dependence")


def _handler_outcome(body, evar, code):
    """What an `except OSError as <evar>` body does for errno `code`: 'skip'
    (continue), 'raise' (bare re-raise), 'fall' (falls out of the handler) or
    '?' - by evaluating its if-tests on `<evar>.errno == errno.<code>`."""
    def ev(e):
        if isinstance(e, ast.Attribute):
            d = dotted(e)
            if d == f"{evar}.errno":
                return code
            if d and d.startswith("errno."):
                return d.split(".", 1)[1]
            raise ValueError
        if isinstance(e, ast.Constant):
            return e.value
        if isinstance(e, (ast.Tuple, ast.Set, ast.List)):
            return [ev(x) for x in e.elts]
        if isinstance(e, ast.UnaryOp) and isinstance(e.op, ast.Not):
            return not ev(e.operand)
        if isinstance(e, ast.BoolOp):
            vals = [ev(v) for v in e.values]
            return all(vals) if isinstance(e.op, ast.And) else any(vals)
        if isinstance(e, ast.Compare) and len(e.ops) == 1:
            l, r = ev(e.left), ev(e.comparators[0])
            t = type(e.ops[0])
            if t is ast.Eq:
                return l == r
            if t is ast.NotEq:
                return l != r
            if t is ast.In:
                return l in r
            if t is ast.NotIn:
                return l not in r
        raise ValueError

    def run_(stmts):
        for st in stmts:
            if isinstance(st, ast.Continue):
                return "skip"
            if isinstance(st, ast.Raise):
                return "raise" if st.exc is None else "raise-other"
            if isinstance(st, (ast.Return, ast.Break)):
                return "?"
            if isinstance(st, ast.If):
                try:
                    v = ev(st.test)
                except (ValueError, TypeError):
                    return "?"
                r = run_(st.body if v else st.orelse)
                if r is not None:
                    return r
        return None
    return run_(body) or "fall"
