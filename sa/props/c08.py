"""C08 - virtual_memory() and swap_memory() follow the documented formulas."""

import ast

from ..core.absint import NONE as NONE_T, Interp, alternatives, pretty, subst
from .c06 import collect
from ..core.analysis import Analysis, facts
from ..core.astutil import handler_catches
from ..core.cfg import handler_names
from ..core.forms import (DIMLESS, NotPolynomial, Poly, Rat, U, UnitError, canon, expand,
                          srcinfo, to_rat, unit_of, ustr)
from ..core.pyrepo import Repo, calls_in, dotted, norm_stmt
from ..core.report import AnalysisError


def M(key):
    """1024 * meminfo[key] as a rational form."""
    return Rat(Poly.atom(f"meminfo[{key}:].1")) * Rat(Poly.const(1024))


def forms_of(t, clip=None):
    out = []
    for a in expand(t):
        if a == ("const", None):
            continue
        out.append(to_rat(a, clip_atoms=clip))
    return out


def same_set(got, want):
    return all(any(g.same(w) for w in want) for g in got) and \
        all(any(g.same(w) for g in got) for w in want)


def collect(t, pred, out=None):
    out = [] if out is None else out
    if isinstance(t, tuple):
        if pred(t):
            out.append(t)
        for x in t:
            if isinstance(x, tuple):
                collect(x, pred, out)
    return out


def atom_unit(x):
    """Units of source atoms of the memory readers (oracle: proc(5))."""
    d = srcinfo(x) if x and x[0] in ("idx", "call") else None
    if d is None:
        if x and x[0] == "native" and "sysinfo" in x[1]:
            return None
        return None
    f = d["file"]
    if f == "meminfo":
        return U(kB=1)
    if f == "zoneinfo":
        return U(page=1)
    if f == "vmstat":
        return U(page=1)
    return None


def run(ctx):
    repo = Repo(ctx.repo)
    A = Analysis(repo)
    pm = "_pslinux"
    I = Interp(repo, A)
    vm = repo.func(pm, "virtual_memory")
    t = canon(I.call_function(vm, []))
    nts = [a for a in alternatives(t) if a[0] == "nt"]
    ctx.require(nts, f"virtual_memory(): not an svmem record: {pretty(t)[:100]}")
    rec = dict(zip(nts[0][2], nts[0][3]))
    ctx.require(set(rec) >= {"total", "available", "percent", "used", "free", "active",
                             "inactive", "buffers", "cached", "shared", "slab"},
                f"svmem fields changed: {sorted(rec)}")

    # ------------------------------------------------------------------- R1
    ctx.rule("C08.R1", "provenance and units: each svmem field is the documented "
             "/proc/meminfo key (kB * 1024 = bytes), 0 when an optional key is "
             "missing", floor=8)
    Z = Rat(Poly.const(0))
    oracle = {
        "total": [M("MemTotal")],
        "free": [M("MemFree")],
        "buffers": [M("Buffers"), Z],
        "cached": [M("Cached") + M("SReclaimable"), M("Cached"), Z],
        "shared": [M("Shmem"), M("MemShared"), Z],
        "active": [M("Active"), Z],
        "inactive": [M("Inactive"),
                     M("Inact_dirty") + M("Inact_clean") + M("Inact_laundry"), Z],
        "slab": [M("Slab"), Z],
    }
    for f, want in oracle.items():
        try:
            got = forms_of(rec[f])
        except NotPolynomial as e:
            raise AnalysisError(f"svmem.{f}: {e}")
        key = f"svmem.{f}"
        if same_set(got, want):
            # unit check on the raw term
            try:
                us = {ustr(unit_of(a, atom_unit)) for a in expand(rec[f])
                      if not (a[0] == "const")}
            except UnitError as e:
                us = {f"error: {e}"}
            if us <= {"B"}:
                ctx.ok("C08.R1", key, sample={f: [repr(x) for x in got], "unit": "B"})
            else:
                ctx.fail("C08.R1", key + ":unit", vm.file, vm.node.lineno, vm.qual,
                         f"svmem.{f} has unit {sorted(us)}, expected bytes")
        else:
            ctx.fail("C08.R1", key, vm.file, vm.node.lineno, vm.qual,
                     f"svmem.{f} = {[repr(x) for x in got]}; documented: "
                     f"{[repr(x) for x in want]}")

    # ------------------------------------------------------------------- R2
    ctx.rule("C08.R2", "formulas: used = total-free-cached-buffers (total-free when "
             "negative); percent = round(100*(total-available)/total, 1) (0.0 for a "
             "zero total); swap used = total-free, percent likewise", floor=4)

    def atomic(x):
        return to_rat(x)      # a phi/gphi term is one atom named by its content

    T, F_ = atomic(rec["total"]), atomic(rec["free"])
    C, B = atomic(rec["cached"]), atomic(rec["buffers"])
    used = rec["used"]
    ok = False
    why = f"used = `{pretty(used)[:120]}`"
    if used[0] == "gphi":
        cond, a, b = used[1], used[2], used[3]
        try:
            fa, fb = to_rat(a), to_rat(b)
            full = T - F_ - C - B
            if fa.same(T - F_) and fb.same(full) and cond[0] == "cmp" and cond[1] == "<" \
                    and to_rat(cond[2]).same(full) and cond[3] == ("const", 0):
                ok = True
            else:
                why = (f"used is `{fb!r}` (fallback `{fa!r}` when `{pretty(cond)[:60]}`)")
        except NotPolynomial as e:
            why = str(e)
    if ok:
        ctx.ok("C08.R2", "svmem.used", sample="total-free-cached-buffers; total-free if < 0")
    else:
        ctx.fail("C08.R2", "svmem.used", vm.file, vm.node.lineno, vm.qual,
                 f"{why}; documented: total - free - cached - buffers, and total - free "
                 f"when that is negative")
    AV = atomic(rec["available"])
    pcs = [a for a in alternatives(rec["percent"])]
    vals = []
    for a in pcs:
        try:
            vals.append(to_rat(a))
        except NotPolynomial as e:
            raise AnalysisError(f"svmem.percent: {e}")
    nz = [v for v in vals if not v.num.is_zero()]
    want = (T - AV) / T * Rat(Poly.const(100))
    if len(nz) == 1 and nz[0].same(want) and ("round", 1) in nz[0].tags \
            and any(v.num.is_zero() for v in vals):
        ctx.ok("C08.R2", "svmem.percent", sample="round((total-available)/total*100, 1) | 0.0")
    else:
        ctx.fail("C08.R2", "svmem.percent", vm.file, vm.node.lineno, vm.qual,
                 f"percent = {[repr(v)[:120] for v in nz]}; documented "
                 f"(total - available) / total * 100 rounded to 1 decimal")
    # swap
    sm = repo.func(pm, "swap_memory")
    st = canon(I.call_function(sm, []))
    snts = [a for a in alternatives(st) if a[0] == "nt"]
    ctx.require(snts, "swap_memory(): not an sswap record")
    # several return statements (early return when /proc/vmstat is unreadable):
    # each field is the join of what the records carry
    from ..core.absint import phi as _phi
    sw = {}
    for i_, fld_ in enumerate(snts[0][2]):
        vals_ = []
        for r_ in snts:
            if r_[2] == snts[0][2] and r_[3][i_] not in vals_:
                vals_.append(r_[3][i_])
        sw[fld_] = vals_[0] if len(vals_) == 1 else _phi(*vals_)
    ST, SF = atomic(sw["total"]), atomic(sw["free"])
    try:
        su = to_rat(sw["used"])
    except NotPolynomial as e:
        raise AnalysisError(f"sswap.used: {e}")
    if su.same(ST - SF):
        ctx.ok("C08.R2", "sswap.used", sample="total - free")
    else:
        ctx.fail("C08.R2", "sswap.used", sm.file, sm.node.lineno, sm.qual,
                 f"swap used = `{su!r}`, documented total - free")
    vals = [to_rat(a) for a in alternatives(sw["percent"])]
    nz = [v for v in vals if not v.num.is_zero()]
    want = (ST - SF) / ST * Rat(Poly.const(100))
    if len(nz) == 1 and nz[0].same(want) and ("round", 1) in nz[0].tags:
        ctx.ok("C08.R2", "sswap.percent", sample="round(used/total*100, 1)")
    else:
        ctx.fail("C08.R2", "sswap.percent", sm.file, sm.node.lineno, sm.qual,
                 f"swap percent = {[repr(v)[:100] for v in nz]}")
    # total/free provenance
    wantT = [M("SwapTotal")]
    wantF = [M("SwapFree")]
    gotT = [x for x in forms_of(sw["total"]) if "sysinfo" not in repr(x)]
    gotF = [x for x in forms_of(sw["free"]) if "sysinfo" not in repr(x)]
    if same_set(gotT, wantT) and same_set(gotF, wantF):
        ctx.ok("C08.R2", "sswap.total/free", sample="SwapTotal / SwapFree (kB*1024)")
    else:
        ctx.fail("C08.R2", "sswap.total/free", sm.file, sm.node.lineno, sm.qual,
                 f"swap total/free = {[repr(x) for x in gotT]} / {[repr(x) for x in gotF]}")

    # ------------------------------------------------------------------- R3
    ctx.rule("C08.R3", "availability: kernel's MemAvailable, the fallback estimate "
             "when the key is absent or zero; then < 0 -> 0 and > total -> free", floor=3)
    av = rec["available"]
    probs = []
    inner = None
    def lt(c):
        """(a, b) when the condition term means a < b, else None."""
        if c and c[0] == "cmp" and c[1] == "<":
            return c[2], c[3]
        if c and c[0] == "cmp" and c[1] == ">":
            return c[3], c[2]
        return None
    c0 = lt(av[1]) if av[0] == "gphi" else None
    if c0 and c0[1] == ("const", 0) and av[2] == ("const", 0):
        rest = av[3]
        c1 = lt(rest[1]) if rest[0] == "gphi" else None
        if c1 and c1[0] == rec["total"] and c1[1] == c0[0] \
                and rest[2] == rec["free"] and rest[3] == c0[0]:
            inner = c0[0]
        else:
            probs.append("the `> total -> free` clamp is missing or applied to another value")
    else:
        probs.append("the `< 0 -> 0` clamp is missing")
    if probs:
        ctx.fail("C08.R3", "clamps", vm.file, vm.node.lineno, vm.qual, "; ".join(probs)
                 + f" (available = `{pretty(av)[:100]}`)")
    else:
        ctx.ok("C08.R3", "clamps", sample="avail<0 -> 0; avail>total -> free; else avail")
    if inner is not None:
        alts = alternatives(inner)
        ma = [a for a in alts if "MemAvailable" in pretty(a) and "Active(file)" not in pretty(a)]
        fb = [a for a in alts if "Active(file)" in pretty(a) or "Cached" in pretty(a)]
        zero_tests = collect(inner, lambda x: x and x[0] == "gphi" and x[1][0] == "cmp"
                             and x[1][1] == "==" and x[1][3] == ("const", 0)
                             and "MemAvailable" in pretty(x[1][2]))
        if ma and fb and zero_tests and all("MemAvailable" not in pretty(z[2]) for z in zero_tests):
            ctx.ok("C08.R3", "source", sample="MemAvailable | fallback when absent or == 0")
        else:
            ctx.fail("C08.R3", "source", vm.file, vm.node.lineno, vm.qual,
                     "available is not (MemAvailable, or the fallback estimate when the "
                     "key is absent or zero)")
        try:
            u = unit_of(inner, atom_unit)
            if u != U(B=1):
                ctx.fail("C08.R3", "unit", vm.file, vm.node.lineno, vm.qual,
                         f"available has unit {ustr(u)}, expected bytes")
            else:
                ctx.ok("C08.R3", "unit", sample="bytes")
        except UnitError as e:
            ctx.fail("C08.R3", "unit", vm.file, vm.node.lineno, vm.qual,
                     f"available mixes units: {e}")

    # ------------------------------------------------------------------- R4
    ctx.rule("C08.R4", "missing-field policy: each optional key is looked up in a "
             "try/except KeyError that reports 0 and records the documented name "
             "(slab: silently); the RuntimeWarning is issued iff something is missing",
             floor=6)
    want_names = {"buffers": "buffers", "cached": "cached", "shared": "shared",
                  "active": "active", "inactive": "inactive", "slab": None}
    got_names = {}
    lst = None
    # a block (handler body, else branch, ...) that sets a metric to 0 and, in the
    # same block, records its documented name
    def blocks(node):
        for n_ in ast.walk(node):
            for f_ in ("body", "orelse", "finalbody"):
                b_ = getattr(n_, f_, None)
                if isinstance(b_, list) and b_ and isinstance(b_[0], ast.stmt):
                    yield b_
            if isinstance(n_, ast.ExceptHandler):
                yield n_.body
    for blk in blocks(vm.node):
        zero = [s_ for s_ in blk if isinstance(s_, ast.Assign)
                and isinstance(s_.value, ast.Constant) and s_.value.value == 0
                and not isinstance(s_.value.value, bool) and isinstance(s_.targets[0], ast.Name)]
        app = [c for s_ in blk if isinstance(s_, ast.Expr) for c in calls_in(s_)
               if isinstance(c.func, ast.Attribute) and c.func.attr == "append"]
        if blk is vm.node.body:
            continue            # top-level initialisations are not fallbacks
        for z in zero:
            got_names[dotted(z.targets[0])] = app[0].args[0].value if app and app[0].args and \
                isinstance(app[0].args[0], ast.Constant) else None
            if app:
                lst = dotted(app[0].func.value)
    # `x = mems.get(KEY, 0)`: zero without a report (acceptable only where the
    # documentation asks for silence)
    for st_ in ast.walk(vm.node):
        if isinstance(st_, ast.Assign) and isinstance(st_.value, ast.Call) \
                and isinstance(st_.value.func, ast.Attribute) and st_.value.func.attr == "get" \
                and len(st_.value.args) == 2 and isinstance(st_.value.args[1], ast.Constant) \
                and st_.value.args[1].value == 0 and dotted(st_.targets[0]) not in got_names:
            got_names[dotted(st_.targets[0])] = None
    for var, nm in want_names.items():
        key = f"missing:{var}"
        if var in got_names and got_names[var] == nm:
            ctx.ok("C08.R4", key, sample={var: f"KeyError -> 0, reported as {nm!r}"})
        else:
            ctx.fail("C08.R4", key, vm.file, vm.node.lineno, vm.qual,
                     f"a missing {var} key yields " +
                     ("an exception (no KeyError handler sets it to 0)" if var not in got_names
                      else f"0 reported as {got_names[var]!r}, documented {nm!r}"))
    cfg = A.cfg(vm)
    warns = [c for c in calls_in(vm.node) if dotted(c.func) == "warnings.warn"]
    good = bool(warns) and lst and all(("truthy", lst, True) in facts(cfg, n)
                                       for n in cfg.owners(warns[0])) \
        and len(warns[0].args) >= 2 and dotted(warns[0].args[1]) == "RuntimeWarning"
    if good:
        ctx.ok("C08.R4", "warning", sample=f"if {lst}: warnings.warn(msg, RuntimeWarning)")
    else:
        ctx.fail("C08.R4", "warning", vm.file, vm.node.lineno, vm.qual,
                 "the RuntimeWarning is not issued exactly when some metric is missing")

    # no possibly-missing value reaches arithmetic: `d.get(key)` (None when the
    # key is absent) may be an operand only where a test has established it is not
    # None - decided on the interpreted results, so any spelling of the lookups and
    # of the tests is covered
    for fn_ in (vm, sm):
        term = Interp(repo, A).call_function(fn_, [])     # raw term: `bin` nodes intact
        bad = []
        for b in collect(term, lambda x: x and x[0] == "bin" and len(x) == 4):
            for operand in b[2:]:
                for alt in alternatives(operand):
                    if alt == NONE_T or (alt and alt[0] == "dget" and alt[3] == NONE_T):
                        k_ = alt[2][1] if alt != NONE_T and alt[2][0] == "const" else None
                        bad.append(k_)
        key = f"maybe-none-arith:{fn_.name}"
        if bad:
            ks = sorted({(k.decode() if isinstance(k, bytes) else str(k)) for k in bad})
            ctx.fail("C08.R4", key, fn_.file, fn_.node.lineno, fn_.qual,
                     f"{fn_.name}(): a value looked up with .get() ({', '.join(ks)}) is used in "
                     f"arithmetic where it can still be None: a /proc/meminfo without that "
                     f"field makes the call raise TypeError instead of succeeding")
        else:
            ctx.ok("C08.R4", key, nontrivial=False,
                   sample="no arithmetic operand can be None for a missing key")

    # ------------------------------------------------------------------- R5
    ctx.rule("C08.R5", "fallback estimate: free - low watermarks (pages*PAGESIZE) + "
             "file LRU - min(file LRU/2, wm) + reclaimable slab - min(slab/2, wm); "
             "free + cached when a key or /proc/zoneinfo is missing", floor=5)
    ca = repo.func(pm, "calculate_avail_vmem")
    # evaluate on a symbolic table of byte values
    mems = ("dictof", ("param", "k"), ("param", "v"))
    I2 = Interp(repo, A)
    tt = I2.call_function(ca, [("param", "mems")])
    alts = alternatives(tt)

    def mk(k):
        return f"idx(mems, {k!r})" if False else None
    full = [a for a in alts if "zoneinfo" in pretty(a)]
    fbk = [a for a in alts if "zoneinfo" not in pretty(a)]
    okf = False
    whyf = "no watermark-based estimate found"
    for a in full:
        v = a[2] if a[0] == "call" and a[1] == "int" else a
        mins = collect(v, lambda x: x and x[0] == "call" and x[1] == "min")
        mins = list(dict.fromkeys(mins))
        if len(mins) != 2:
            whyf = f"{len(mins)} min() terms, expected 2"
            continue
        v2 = v
        for i, mterm in enumerate(mins):
            v2 = subst(v2, mterm, ("param", f"MIN{i}"))
        try:
            r = to_rat(v2)
            names = {a_ for a_ in r.num.atoms()}
            def find(sub):
                c = [n for n in names if sub in n]
                return Rat(Poly.atom(c[0])) if len(c) == 1 else None
            Fr, Ac, In, Sr = (find("MemFree"), find("Active(file)"), find("Inactive(file)"),
                              find("SReclaimable"))
            ls = [n for n in names if "loopsum" in n]
            if None in (Fr, Ac, In, Sr) or len(ls) != 1:
                whyf = f"operands are {sorted(names)[:8]}"
                continue
            W = Rat(Poly.atom(ls[0])) * Rat(Poly.atom("PAGESIZE"))
            want = Fr - W + (Ac + In) - Rat(Poly.atom("MIN0")) + Sr - Rat(Poly.atom("MIN1"))
            want2 = Fr - W + (Ac + In) - Rat(Poly.atom("MIN1")) + Sr - Rat(Poly.atom("MIN0"))
            if not (r.same(want) or r.same(want2)):
                whyf = f"estimate is `{r!r}`"[:220]
                continue
            # the two min() terms
            okm = 0
            for mterm in mins:
                x, y = to_rat(mterm[2]), to_rat(mterm[3])
                if y.same(W) and (x.same((Ac + In) / Rat(Poly.const(2))) or
                                  x.same(Sr / Rat(Poly.const(2)))):
                    okm += 1
            if okm != 2:
                whyf = "the min(x/2, watermark) terms changed"
                continue
            if "startswith" not in pretty(a) or "b'low'" not in pretty(a):
                whyf = "watermarks are not summed over the `low` lines of /proc/zoneinfo"
                continue
            okf = True
        except NotPolynomial as e:
            whyf = str(e)
    if okf:
        ctx.ok("C08.R5", "estimate", sample="free - wm + pagecache - min(pagecache/2, wm) + "
               "slab_reclaimable - min(slab_reclaimable/2, wm)")
    else:
        ctx.fail("C08.R5", "estimate", ca.file, ca.node.lineno, ca.qual,
                 f"calculate_avail_vmem: {whyf}")
    okb = bool(fbk) and all(("MemFree" in pretty(a) and "Cached" in pretty(a)) for a in fbk)
    if okb:
        ctx.ok("C08.R5", "simple-fallback", sample="free + cached when inputs are missing")
    else:
        ctx.fail("C08.R5", "simple-fallback", ca.file, ca.node.lineno, ca.qual,
                 "the (free + cached) approximation for missing inputs changed")

    # each input of the estimate is REQUIRED: absent -> the simple fallback, never
    # a silent 0 fed into the watermark formula (documented in the function's own
    # comment: "We use fallback when one of these is missing")
    parents = {}
    for n in ast.walk(ca.node):
        for c in ast.iter_child_nodes(n):
            parents[id(c)] = n
    fb_names = set()
    for n in ast.walk(ca.node):
        if isinstance(n, ast.Assign) and len(n.targets) == 1 and isinstance(n.targets[0], ast.Name):
            txt = norm_stmt(n.value)
            if "MemFree" in txt or ("Cached" in txt and "free" in txt):
                if "Cached" in txt:
                    fb_names.add(n.targets[0].id)
    for K in (b"Active(file):", b"Inactive(file):", b"SReclaimable:"):
        reads = [n for n in ast.walk(ca.node)
                 if (isinstance(n, ast.Subscript) and isinstance(n.slice, ast.Constant)
                     and n.slice.value == K)
                 or (isinstance(n, ast.Call) and isinstance(n.func, ast.Attribute)
                     and n.func.attr in ("get", "pop", "setdefault") and n.args
                     and isinstance(n.args[0], ast.Constant) and n.args[0].value == K)]
        key = f"required-key:{K.decode()}"
        if not reads:
            ctx.fail("C08.R5", key, ca.file, ca.node.lineno, ca.qual,
                     f"{K!r} is no longer an input of the estimate")
            continue
        bad = None
        for r in reads:
            if isinstance(r, ast.Call):
                bad = (r, f"`{norm_stmt(r)}` supplies a default for a missing {K.decode()!r}: "
                          f"the watermark formula is evaluated with it instead of returning "
                          f"the documented (free + cached) fallback")
                break
            cur, child, good = parents.get(id(r)), r, False
            while cur is not None and cur is not ca.node:
                if isinstance(cur, ast.Try) and any(any(child is x for x in ast.walk(b))
                                                    for b in cur.body):
                    for h in cur.handlers:
                        nm = handler_names(h)
                        if nm is None or nm & {"KeyError", "LookupError", "Exception"}:
                            rets = [x for x in ast.walk(h) if isinstance(x, ast.Return)]
                            if rets and all(isinstance(x.value, ast.Name) and x.value.id in fb_names
                                            or (x.value is not None and "Cached" in norm_stmt(x.value)
                                                and "MemFree" in norm_stmt(x.value))
                                            for x in rets) and isinstance(h.body[-1], ast.Return):
                                good = True
                child, cur = cur, parents.get(id(cur))
            if not good:
                bad = (r, f"`{norm_stmt(r)}` is not inside a try whose KeyError handler "
                          f"returns the (free + cached) fallback")
                break
        if bad:
            ctx.fail("C08.R5", key, ca.file, bad[0].lineno, ca.qual, bad[1])
        else:
            ctx.ok("C08.R5", key, sample="mems[K] under try/except KeyError -> return fallback")

    # /proc/zoneinfo that cannot be opened for ANY reason (absent, masked by a container
    # runtime, EACCES/EIO on a hardened procfs) selects the simple fallback: the call
    # must still succeed
    from ..core.astutil import enclosing_trys, path_templates
    zo = [c_ for c_ in ast.walk(ca.node) if isinstance(c_, ast.Call)
          and (dotted(c_.func) or "").split(".")[-1] in ("open_binary", "open_text", "open")
          and c_.args and any(t_.endswith("/zoneinfo") for t_ in path_templates(repo, ca, c_.args[0]))]
    ctx.require(zo, "calculate_avail_vmem: /proc/zoneinfo is no longer opened")
    zgood = True
    for c_ in zo:
        st_ = next(s_ for s_ in ast.walk(ca.node) if isinstance(s_, ast.stmt)
                   and not isinstance(s_, (ast.Try, ast.If, ast.FunctionDef, ast.With, ast.For,
                                           ast.While))
                   and any(x is c_ for x in ast.walk(s_)))
        hs_ = [h for t_ in enclosing_trys(ca.node, st_) for h in t_.handlers]
        if not any(handler_catches(h, ["OSError"]) and handler_catches(h, ["PermissionError"])
                   for h in hs_):
            zgood = False
    if zgood:
        ctx.ok("C08.R5", "zoneinfo-unreadable", sample="open(/proc/zoneinfo) under except OSError "
               "-> fallback")
    else:
        ctx.fail("C08.R5", "zoneinfo-unreadable", ca.file, zo[0].lineno, ca.qual,
                 "the handler around opening /proc/zoneinfo no longer covers every OSError "
                 "(only a missing file): a zoneinfo masked by a container runtime or a hardened "
                 "procfs (EACCES, EIO) makes virtual_memory() raise instead of using the fallback")

    # ------------------------------------------------------------------- R6
    ctx.rule("C08.R6", "swap counters: pswpin/pswpout are PAGES in /proc/vmstat; the "
             "reported sin/sout must be bytes (pages * page size)", floor=2)
    for f, keyb in (("sin", b"pswpin"), ("sout", b"pswpout")):
        v = sw[f]
        alts = [a for a in expand(v) if not (a[0] == "const")]
        probs = []
        if keyb.decode() not in pretty(v):
            probs.append(f"not read from the {keyb.decode()} line")
        for a in alts:
            try:
                u = unit_of(a, atom_unit)
            except UnitError as e:
                probs.append(str(e))
                continue
            if u != U(B=1):
                probs.append(f"unit is {ustr(u)}: the page count is scaled by a literal "
                             f"instead of the page size (wrong on kernels whose page size "
                             f"is not 4096; the watermark estimate uses PAGESIZE)")
        if not alts:
            probs.append("no value read")
        zero = [a for a in expand(v) if a == ("const", 0)]
        key = f"sswap.{f}"
        if probs:
            ctx.fail("C08.R6", key + ":unit", sm.file, sm.node.lineno, sm.qual,
                     f"sswap.{f}: " + "; ".join(sorted(set(probs))))
        elif not zero:
            ctx.fail("C08.R6", key + ":zero", sm.file, sm.node.lineno, sm.qual,
                     f"sswap.{f} is not 0 when /proc/vmstat is unavailable")
        else:
            ctx.ok("C08.R6", key, sample=f"{keyb.decode()} pages * PAGESIZE | 0")
    ctx.assume("meminfo values are in kB; vmstat pswpin/pswpout and zoneinfo "
               "watermarks are in pages (proc(5), mm/vmstat.c)")
    ctx.assume("0 <= percent <= 100 follows from the clamps when free <= total "
               "(available in [0,total]); the clamp structure is what is decided")
    return ("Abstract interpretation of virtual_memory/swap_memory/"
            "calculate_avail_vmem: every named-tuple field is normalised to a "
            "polynomial form over /proc/meminfo keys and compared with the documented "
            "formulas (joins are kept as atoms so that fields can be compared with each "
            "other); unit analysis kB*1024, pages*PAGESIZE; KeyError-policy by handler "
            "inventory.",
            "abstract interpretation (provenance, polynomial forms, units)")
