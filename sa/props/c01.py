"""C01 - signals and setters never reach a recycled PID or a process group."""

import ast
import re

from ..core.analysis import (PLATFORMS, Analysis, assigned_names, facts,
                             implies_nonneg, implies_nonzero, map_args)
from ..core.astutil import deref
from ..core.guardflow import GuardFlow
from ..core.pyrepo import PLATFORM_MODULES, Repo, calls_in, dotted, norm_stmt
from ..core.report import AnalysisError

SETTER_NATIVE = re.compile(
    r"^(setpriority|proc_[a-z_]*set[a-z_]*|proc_setrlimit|proc_kill|"
    r"proc_suspend_or_resume|proc_suspend|proc_resume)$")

EXPECTED_SIGNAL = {"suspend": "SIGSTOP", "resume": "SIGCONT",
                   "terminate": "SIGTERM", "kill": "SIGKILL"}


def effect_sink(call, targets, fi):
    """Description of the effect if `call` delivers a signal / changes a
    setting of the process named by its first argument."""
    for t in targets:
        if t[0] == "ext" and t[1] == "os.kill":
            if len(call.args) >= 2 and isinstance(call.args[1], ast.Constant) \
                    and call.args[1].value == 0:
                return None     # signal 0: existence probe, nothing delivered
            return "os.kill"
        if t[0] == "ext" and t[1] in ("os.killpg", "signal.pthread_kill"):
            return t[1]
        if t[0] == "ext" and t[1] == "resource.prlimit":
            if len(call.args) + len(call.keywords) >= 3:
                return "resource.prlimit(set)"
            return None
        if t[0] == "native":
            base = t[1].split(".")[-1]
            if SETTER_NATIVE.match(base) and base != "set_debug":
                return t[1]
    return None


def is_guard_call(call, targets, fi):
    for t in targets:
        if t[0] == "func" and t[1].fq == "psutil:Process._raise_if_pid_reused":
            return True
    return False


def public_entries(repo, A, plat):
    out = []
    for cls in ("Process", "Popen"):
        for name, fs in repo.methods("psutil", cls).items():
            if name.startswith("_") and not name.startswith("__"):
                continue
            for f in fs:
                if A.defined(f, plat) is not False:
                    out.append(f)
    for q, fs in repo.mod("psutil").funcs.items():
        if "." in q or q.startswith("_"):
            continue
        for f in fs:
            if A.defined(f, plat) is not False:
                out.append(f)
    return out


def run(ctx):
    repo = Repo(ctx.repo)
    A = Analysis(repo)
    ctx.stat("functions_analysed", repo.nfuncs)
    ctx.stat("platform_configurations", len(PLATFORMS))

    guard = repo.func("psutil", "Process._raise_if_pid_reused")

    # ------------------------------------------------------------------ R1/R2
    ctx.rule("C01.R1", "every call-graph path from a public psutil.Process method "
             "(or public module function) to a signal/setter sink passes through "
             "self._raise_if_pid_reused(), on every platform configuration "
             "(path-sensitive on `x is None` facts)", floor=40)
    ctx.rule("C01.R2", "no signal/setter sink is executed at module level or is "
             "reachable from a public entry point without the guard", floor=11)
    sinks_seen = {}
    guard_sites = set()
    for plat in PLATFORMS:
        gf = GuardFlow(A, plat, is_guard_call, effect_sink)
        entries = public_entries(repo, A, plat)
        ctx.require(len(entries) > 40, f"too few public entries on {plat}")
        for e in entries:
            hits = gf.unguarded(e)
            reaches = _reaches_sink(A, repo, e, plat)
            key = f"{plat}:{e.fq}"
            if hits:
                for h in hits:
                    ctx.fail("C01.R1", f"{e.fq}->{h.desc}@{h.func}", e.file,
                             e.node.lineno, e.qual,
                             f"[{plat}] {e.qual} reaches sink {h.desc} "
                             f"({h.file}:{h.line}) without "
                             f"self._raise_if_pid_reused() on the path "
                             f"{' -> '.join(h.chain)}",
                             detail={"platform": plat, "chain": h.chain,
                                     "sink": h.desc, "facts": [str(x) for x in h.facts]})
            elif reaches:
                ctx.ok("C01.R1", key, sample={"entry": e.fq, "platform": plat,
                                              "sinks": sorted(reaches)})
            else:
                ctx.ok("C01.R1", key, nontrivial=False)
            for s in reaches:
                sinks_seen.setdefault((plat, s), set()).add(e.fq)
        guard_sites |= gf.guard_sites
        for d in gf.discharged_by_predicate:
            ctx.bump("paths_discharged_by_predicate")
    ctx.require(len(guard_sites) >= 10,
                f"only {len(guard_sites)} guard call sites found (12 confirmed)")
    ctx.stat("guard_call_sites", sorted(f"{a}:{b}" for a, b in guard_sites))

    # R2: inventory of every sink site in the package, incl. module level
    for mname, m in repo.modules.items():
        infunc = set()
        for fi in repo.all_funcs(mname):
            for c in calls_in(fi.node):
                infunc.add(id(c))
        fake = repo._outer(next(iter(repo.all_funcs(mname))))
        for c in calls_in(m.tree):
            if id(c) in infunc:
                continue
            tg = repo.resolve_call(c, fake, "linux")
            d = effect_sink(c, tg, fake)
            if d:
                ctx.fail("C01.R2", f"module-level:{mname}:{d}", m.rel, c.lineno,
                         "<module>", f"sink {d} executed at import time")
    allsinks = set()
    for plat in PLATFORMS:
        pm = PLATFORM_MODULES[plat]
        for mname in ("psutil", "_psposix", "_common", pm):
            for fi in repo.all_funcs(mname):
                if A.defined(fi, plat) is False:
                    continue
                for c, tg in A.calls(fi, plat):
                    d = effect_sink(c, tg, fi)
                    if d:
                        allsinks.add((plat, fi.fq, d))
    for plat, fq, d in sorted(allsinks):
        ents = sinks_seen.get((plat, f"{fq}|{d}"), set())
        ctx.ok("C01.R2", f"{plat}:{fq}:{d}",
               sample={"sink": d, "in": fq, "platform": plat,
                       "guarded_entry_points": sorted(ents)[:6]},
               nontrivial=bool(ents))

    # --------------------------------------------------------------------- R3
    _r3_pid_sign(ctx, repo, A)
    # --------------------------------------------------------------------- R4
    _r4_exact(ctx, repo, A)
    # --------------------------------------------------------------------- R5
    _r5_sticky(ctx, repo, A)
    # --------------------------------------------------------------------- R6
    _r6_identity(ctx, repo, A)
    # --------------------------------------------------------------------- R7
    _r7_popen(ctx, repo)

    ctx.assume("the window between the identity check and the system call, and "
               "the granularity of creation times, are run-time facts not decided")
    ctx.assume("a native whose name matches set/kill/suspend/resume and os.kill / "
               "resource.prlimit(3 args) are the only effectful calls")
    return (
        "Must-pass-through over CFG + call graph: for each of 8 platform "
        "configurations every public entry point is analysed; a path to a "
        "signal/setter sink that avoids self._raise_if_pid_reused() is a "
        "violation. Plus PID sign preconditions at every os.kill site "
        "(backward need propagation through callers and the _pid single-writer "
        "invariant), exact target/value def-use, sticky _gone/_pid_reused, the "
        "identity comparison inside the guard, and Popen's method resolution.",
        "CFG dominance / call-graph must-pass-through, def-use")


def _reaches_sink(A, repo, e, plat, _memo={}):
    """Sink descriptions reachable (guarded or not) from entry e."""
    key = (id(e.node), plat)
    if key in _memo:
        return _memo[key]
    _memo[key] = set()
    out = set()
    for c, tg in A.calls(e, plat):
        d = effect_sink(c, tg, e)
        if d:
            out.add(f"{e.fq}|{d}")
        for t in tg:
            if t[0] == "func" and t[1].node is not e.node:
                out |= _reaches_sink(A, repo, t[1], plat)
    _memo[key] = out
    return out


# ---------------------------------------------------------------------- R3
def _r3_pid_sign(ctx, repo, A):
    ctx.rule("C01.R3", "at every os.kill(pid, ...) site pid != 0 and pid >= 0 hold: "
             "by a dominating guard in the function, or (for a parameter) at every "
             "call site, or (for self.pid) by the single-writer invariant of the "
             "pid attribute", floor=3)
    sites = []
    for plat in PLATFORMS:
        pm = PLATFORM_MODULES[plat]
        for mname in ("psutil", "_psposix", pm):
            for fi in repo.all_funcs(mname):
                if A.defined(fi, plat) is False:
                    continue
                for c, tg in A.calls(fi, plat):
                    if any(t == ("ext", "os.kill") for t in tg) and c.args:
                        sites.append((plat, fi, c))
    seen = set()
    for plat, fi, c in sites:
        k = (fi.fq, norm_stmt(c))
        needs = ["nonzero", "nonneg"]
        if plat == "windows" and fi.module == "_pswindows":
            # Windows has no process groups addressed by pid<=0 in os.kill
            needs = ["nonneg"]
        missing = []
        for need in needs:
            why = _discharge(repo, A, plat, fi, c.args[0], need, 0, set())
            if why is not True:
                missing.append((need, why))
        key = f"{fi.fq}:{norm_stmt(c)}"
        if (plat, k) in seen:
            continue
        seen.add((plat, k))
        if missing:
            ctx.fail("C01.R3", key + f"@{plat}", fi.file, c.lineno, fi.qual,
                     f"[{plat}] os.kill target `{norm_stmt(c.args[0])}` may be "
                     + " / ".join(f"{'0' if n == 'nonzero' else 'negative'} ({w})"
                                  for n, w in missing)
                     + ": the OS would signal a process group")
        else:
            ctx.ok("C01.R3", key + f"@{plat}",
                   sample={"site": f"{fi.file}:{c.lineno}", "call": norm_stmt(c),
                           "platform": plat, "needs": needs})


def _targets_of(stmt_node):
    """(target expr, value expr or None, kind) pairs bound by a CFG node."""
    st = stmt_node.stmt
    out = []
    if stmt_node.kind == "for":
        out.append((st.target, st.iter, "iter"))
    elif stmt_node.kind == "with":
        for it in st.items:
            if it.optional_vars is not None:
                out.append((it.optional_vars, None, "with"))
    elif stmt_node.kind == "stmt":
        if isinstance(st, ast.Assign):
            for t in st.targets:
                if isinstance(t, (ast.Tuple, ast.List)) and isinstance(st.value, (ast.Tuple, ast.List)) \
                        and len(t.elts) == len(st.value.elts):
                    for a, b in zip(t.elts, st.value.elts):
                        out.append((a, b, "assign"))
                elif isinstance(t, (ast.Tuple, ast.List)):
                    for a in t.elts:
                        out.append((a, None, "assign"))
                else:
                    out.append((t, st.value, "assign"))
        elif isinstance(st, ast.AugAssign):
            out.append((st.target, None, "aug"))
        elif isinstance(st, ast.AnnAssign) and st.value is not None:
            out.append((st.target, st.value, "assign"))
    return out


def must_flow(cfg, name, implies, good_value, entry_ok, establishes=None):
    """Forward must-analysis: at which nodes is the need known to hold for
    `name` on every path?  Returns {node: bool} for the state *before* the node
    executes."""
    nodes = list(cfg.live_nodes())
    IN = {n: True for n in nodes}
    OUT = {n: True for n in nodes}
    IN[cfg.entry] = entry_ok

    def transfer(n, inv):
        if n.kind == "branch" and n.polarity in (True, False):
            from ..core.cfg import decompose_guard
            from ..core.analysis import norm_fact
            for a, t in decompose_guard(n.expr, n.polarity):
                if implies(norm_fact(a, t), name):
                    return True
            return inv
        if establishes is not None and establishes(n):
            return True
        for tgt, val, kind in _targets_of(n):
            for sub in ast.walk(tgt):
                if dotted(sub) == name:
                    if val is not None and good_value(val, n, kind) is True:
                        return True
                    return False
        return inv

    changed = True
    it = 0
    while changed and it < 50:
        changed = False
        it += 1
        for n in nodes:
            if n is cfg.entry:
                inv = entry_ok
            else:
                vals = []
                for p, lab in n.pred:
                    if p not in OUT:
                        continue
                    if lab in ("exc", "raise"):
                        vals.append(IN[p] and OUT[p])
                    else:
                        vals.append(OUT[p])
                inv = all(vals) if vals else True
            o = transfer(n, inv)
            if inv != IN[n] or o != OUT[n]:
                IN[n], OUT[n] = inv, o
                changed = True
    return IN


def _discharge(repo, A, plat, fi, expr, need, depth, visiting):
    """True if `expr` provably satisfies `need` at its use in fi; else a reason."""
    implies = implies_nonzero if need == "nonzero" else implies_nonneg
    if isinstance(expr, ast.Constant) and isinstance(expr.value, int):
        good = (expr.value != 0) if need == "nonzero" else (expr.value >= 0)
        return True if good else f"constant {expr.value}"
    if isinstance(expr, ast.Call):
        tg = repo.resolve_call(expr, fi, plat)
        if ("ext", "os.getpid") in tg:
            return True
        return f"value of call {norm_stmt(expr)} unknown"
    name = dotted(expr)
    if not name:
        return f"target expression {norm_stmt(expr)} not understood"
    if depth > 8:
        return "definition chain too deep"
    cfg = A.cfg(fi)
    uses = cfg.owners(expr)
    if not uses:
        return "use site not in CFG"

    def good_value(val, node, kind):
        if kind == "iter":
            if isinstance(val, ast.Call):
                tg = repo.resolve_call(val, fi, plat)
                if any(t[0] == "func" and t[1].name == "pids" for t in tg) \
                        and need == "nonneg":
                    return True
            return False
        # evaluate the bound value at the binding node
        sub_uses = cfg.owners(val)
        if not sub_uses:
            return False
        return _discharge(repo, A, plat, fi, val, need, depth + 1, visiting)

    def establishes(node):
        """A call `helper(..., name, ...)` that can only return normally when
        the need holds for that argument (the helper raises otherwise): the
        helper's exit is dominated by a branch implying it for the parameter."""
        if node.stmt is None or node.kind not in ("stmt",):
            return False
        from ..core.cfg import decompose_guard
        from ..core.analysis import norm_fact
        for c in calls_in(node.stmt):
            for t in repo.resolve_call(c, fi, plat):
                if t[0] != "func":
                    continue
                callee = t[1]
                ps = [a.arg for a in callee.node.args.posonlyargs + callee.node.args.args]
                if ps and ps[0] in ("self", "cls") and not (
                        "staticmethod" in callee.decorators):
                    ps = ps[1:]
                elif ps and ps[0] in ("self", "cls"):
                    pass
                if "staticmethod" in callee.decorators and ps and ps[0] in ("self", "cls"):
                    pass
                for i, a in enumerate(c.args):
                    if dotted(a) != name or i >= len(ps):
                        continue
                    ccfg = A.cfg(callee)
                    for e, pol, _ in ccfg.guards(ccfg.exit):
                        for at, tv in decompose_guard(e, pol):
                            if implies(norm_fact(at, tv), ps[i]):
                                return True
        return False

    IN = must_flow(cfg, name, implies, good_value, entry_ok=False, establishes=establishes)
    if all(IN.get(u, False) for u in uses):
        return True
    if name in ("self.pid", "self._pid"):
        return _class_invariant(repo, A, plat, fi, need, depth, visiting)
    params = [p.arg for p in fi.node.args.posonlyargs + fi.node.args.args
              + fi.node.args.kwonlyargs]
    IN2 = must_flow(cfg, name, implies, good_value, entry_ok=True, establishes=establishes)
    entry_suffices = all(IN2.get(u, False) for u in uses)
    if name in params:
        if not entry_suffices:
            return f"{name} is re-bound in {fi.qual} to a value not known to qualify"
        return _callers(repo, A, plat, fi, name, need, depth, visiting)
    if fi.parent is not None and "." not in name and name not in assigned_names(fi.node):
        # free variable of the enclosing function: must hold where the nested
        # function is called
        penv = fi.parent
        pc = A.cfg(penv)
        ok = None
        for c, tg in A.calls(penv, plat):
            if any(t[0] == "func" and t[1].node is fi.node for t in tg):
                fake = ast.Name(id=name, ctx=ast.Load())
                # evaluate the free variable at the call node of the parent
                for n in pc.owners(c):
                    pcfg_in = must_flow(pc, name, implies,
                                        lambda v, nd, k: False, entry_ok=False)
                    if not pcfg_in.get(n, False):
                        ok = False
                    elif ok is None:
                        ok = True
        if ok:
            return True
        pparams = [p.arg for p in penv.node.args.posonlyargs + penv.node.args.args
                   + penv.node.args.kwonlyargs]
        if name in pparams:
            return _callers(repo, A, plat, penv, name, need, depth, visiting)
    return f"no guard establishes {name} {'!= 0' if need == 'nonzero' else '>= 0'}"


def _assigned_value(st, name):
    if isinstance(st, ast.Assign) and len(st.targets) == 1:
        t = st.targets[0]
        if isinstance(t, ast.Name):
            return st.value
        if isinstance(t, ast.Tuple) and isinstance(st.value, ast.Tuple) \
                and len(t.elts) == len(st.value.elts):
            for a, b in zip(t.elts, st.value.elts):
                if isinstance(a, ast.Name) and a.id == name:
                    return b
    if isinstance(st, ast.For):
        return st.iter
    return None


def _callers(repo, A, plat, fi, pname, need, depth, visiting):
    if depth > 6:
        return "caller chain too deep"
    if fi.module == "psutil" and not fi.name.startswith("_") and fi.parent is None \
            and fi.cls in (None, "Process", "Popen"):
        return (f"{fi.qual}() is a public entry point: parameter {pname} is "
                f"caller-controlled and nothing rejects it first")
    key = (id(fi.node), pname, need)
    if key in visiting:
        return True
    visiting = visiting | {key}
    pm = PLATFORM_MODULES[plat]
    found = 0
    for mname in ("psutil", "_psposix", "_common", pm):
        for g in repo.all_funcs(mname):
            if A.defined(g, plat) is False:
                continue
            for c, tg in A.calls(g, plat):
                if not any(t[0] == "func" and t[1].node is fi.node for t in tg):
                    continue
                found += 1
                bound = isinstance(c.func, ast.Attribute) and fi.cls is not None
                amap = map_args(c, fi.node, bound)
                arg = amap.get(pname)
                if arg is None:
                    return f"caller {g.fq} does not pass {pname}"
                r = _discharge(repo, A, plat, g, arg, need, depth + 1, visiting)
                if r is not True:
                    return f"caller {g.fq}:{c.lineno}: {r}"
    # aliases such as  pid_exists = _psposix.pid_exists  re-export the function
    # under the platform module; public psutil.pid_exists is the only way in.
    if found == 0:
        return f"{fi.fq} has no analysable caller for parameter {pname}"
    return True


def _class_invariant(repo, A, plat, fi, need, depth, visiting):
    """self.pid of psutil.Process / platform Process."""
    if fi.module == "psutil" and fi.cls in ("Process", "Popen"):
        # writers of self._pid
        writers = []
        for g in repo.all_funcs("psutil"):
            if g.cls not in ("Process", "Popen"):
                continue
            for st in ast.walk(g.node):
                if isinstance(st, (ast.Assign, ast.AugAssign)):
                    tg = st.targets if isinstance(st, ast.Assign) else [st.target]
                    for t in tg:
                        if dotted(t) == "self._pid":
                            writers.append((g, st))
        if len(writers) != 1 or writers[0][0].qual != "Process._init":
            return "self._pid has writers outside Process._init: " + \
                ", ".join(f"{g.qual}" for g, _ in writers)
        g, st = writers[0]
        prop = repo.func("psutil", "Process.pid")
        rets = [n for n in ast.walk(prop.node) if isinstance(n, ast.Return)]
        if not (len(rets) == 1 and dotted(rets[0].value) == "self._pid"):
            return "Process.pid no longer returns self._pid"
        if need == "nonzero":
            return "pid 0 is a legal Process target; needs a local pid == 0 guard"
        cfg = A.cfg(g)
        vname = dotted(st.value)
        for n in cfg.nodes_of(st):
            fs = facts(cfg, n)
            # pid is None branch binds os.getpid() (>= 1); otherwise need not(pid<0)
            if any(implies_nonneg(f, vname) for f in fs):
                continue
            # the assignment joins two branches: check each predecessor region
            if not _init_guard_ok(cfg, n, vname):
                return "Process._init no longer rejects pid < 0 before storing it"
        return True
    # platform Process: pid set in __init__ from the constructor argument
    # (the wrapper of a module's wrap_exceptions decorator receives that
    # module's Process as `self`)
    is_wrapper = (fi.cls is None and fi.parent is not None
                  and fi.parent.name.startswith("wrap_exceptions")
                  and "Process" in repo.mod(fi.module).classes)
    if fi.cls == "Process" or is_wrapper:
        init = repo.func(fi.module, "Process.__init__", required=False)
        if init is None:
            return "platform Process.__init__ vanished"
        if need == "nonzero":
            return "pid 0 is a legal platform Process target"
        writers = []
        for g in repo.all_funcs(fi.module):
            if g.cls != "Process":
                continue
            for st in ast.walk(g.node):
                if isinstance(st, ast.Assign):
                    for t in st.targets:
                        if dotted(t) == "self.pid":
                            writers.append(g)
        if [w.qual for w in writers] != ["Process.__init__"]:
            return f"{fi.module}.Process.pid written outside __init__"
        # constructors: _psplatform.Process(x) in psutil
        bad = None
        ncons = 0
        for g in repo.all_funcs("psutil"):
            for c in calls_in(g.node):
                if dotted(c.func) == "_psplatform.Process" and c.args:
                    ncons += 1
                    r = _discharge(repo, A, plat, g, c.args[0], need, depth + 1, visiting)
                    if r is not True:
                        bad = f"{g.fq}:{c.lineno}: {r}"
        if ncons == 0:
            return "no constructor site of _psplatform.Process found"
        return True if bad is None else bad
    return "self.pid of an unknown class"


def _init_guard_ok(cfg, node, vname):
    """In Process._init: every path to `self._pid = pid` either took the
    `pid is None` branch (pid = os.getpid()) or passed `pid < 0 -> raise`."""
    # find a test node `pid < 0` whose True branch cannot reach `node`
    for t in cfg.nodes:
        if t.kind == "test" and isinstance(t.expr, ast.Compare):
            txt = ast.unparse(t.expr).replace(" ", "")
            if txt in (f"{vname}<0", f"0>{vname}"):
                tb = [s for s, lab in t.succ if lab == "T"]
                if tb and node not in cfg.reachable(tb[0]):
                    # and every path entry->node passes the test or the None branch
                    none_tests = [x for x in cfg.nodes if x.kind == "test"
                                  and ast.unparse(x.expr).replace(" ", "") == f"{vname}isNone"]
                    if not none_tests:
                        return cfg.dominates(t, node)
                    nt = none_tests[0]
                    nb = [s for s, lab in nt.succ if lab == "T"]
                    # paths avoiding both the None-branch and the <0 test
                    return not cfg.path_exists(cfg.entry, node, avoid={t} | set(nb))
    return False


# ---------------------------------------------------------------------- R4
def _r4_exact(ctx, repo, A):
    ctx.rule("C01.R4", "each sink receives the object's own pid and the caller's "
             "value: pid argument is self.pid (or a once-bound local copy); value "
             "arguments are the enclosing function's parameters (allowed "
             "rewrites: None->0 for ionice, list(set(cpus)) / eligible CPUs for "
             "cpu_affinity); suspend/resume/terminate/kill pass SIGSTOP/SIGCONT/"
             "SIGTERM/SIGKILL", floor=14)
    # (a) sinks in the POSIX/Linux layer
    for mname in ("psutil", "_pslinux", "_psposix"):
        for fi in repo.all_funcs(mname):
            for c, tg in A.calls(fi, "linux"):
                d = effect_sink(c, tg, fi)
                if not d:
                    continue
                key = f"{fi.fq}:{d}"
                probs = []
                pid_arg = c.args[0] if c.args else None
                if not _is_own_pid(fi, pid_arg):
                    probs.append(f"pid argument `{norm_stmt(pid_arg) if pid_arg else '?'}` "
                                 f"is not self.pid")
                params = [p.arg for p in fi.node.args.args if p.arg != "self"]
                asg = assigned_names(fi.node)
                for a in c.args[1:]:
                    n = dotted(a)
                    if n is None or n not in params:
                        probs.append(f"value argument `{norm_stmt(a)}` is not a "
                                     f"parameter of {fi.qual}")
                        continue
                    for st in asg.get(n, []):
                        if not _allowed_rewrite(A, fi, st, n):
                            probs.append(f"parameter {n} is re-bound by "
                                         f"`{norm_stmt(st)}` before reaching {d}")
                if probs:
                    ctx.fail("C01.R4", key, fi.file, c.lineno, fi.qual, "; ".join(probs))
                else:
                    ctx.ok("C01.R4", key, sample={"sink": norm_stmt(c), "in": fi.fq})
    # (b) public wrappers forward their parameter
    P = lambda q: repo.func("psutil", q)  # noqa: E731
    table = [
        ("Process.nice", "nice_set", [0]),
        ("Process.ionice", "ionice_set", [0, 1]),
        ("Process.rlimit", "rlimit", [0, 1]),
        ("Process.send_signal", "_send_signal", [0]),
    ]
    for q, callee, idxs in table:
        fi = repo.func("psutil", q, required=False)
        if fi is None:
            raise AnalysisError(f"anchor vanished: psutil:{q}")
        params = [p.arg for p in fi.node.args.args if p.arg != "self"]
        asg = assigned_names(fi.node)
        found = False
        for c in calls_in(fi.node):
            if isinstance(c.func, ast.Attribute) and c.func.attr == callee:
                found = True
                probs = []
                for i in idxs:
                    if i >= len(c.args) or dotted(c.args[i]) != params[i]:
                        probs.append(f"argument {i} of {callee}() is "
                                     f"`{norm_stmt(c.args[i]) if i < len(c.args) else 'missing'}`"
                                     f", expected parameter `{params[i]}`")
                    elif asg.get(params[i]):
                        probs.append(f"parameter {params[i]} re-bound in {q}")
                if probs:
                    ctx.fail("C01.R4", f"{q}->{callee}", fi.file, c.lineno, fi.qual,
                             "; ".join(probs))
                else:
                    ctx.ok("C01.R4", f"{q}->{callee}",
                           sample={"forward": norm_stmt(c), "in": fi.fq})
        ctx.require(found, f"psutil:{q} no longer calls {callee}()")
    # cpu_affinity
    fi = P("Process.cpu_affinity")
    pname = [p.arg for p in fi.node.args.args if p.arg != "self"][0]
    found = False
    for c in calls_in(fi.node):
        if isinstance(c.func, ast.Attribute) and c.func.attr == "cpu_affinity_set":
            found = True
            a = deref(fi.node, c.args[0]) if c.args else None
            txt = norm_stmt(a).replace(" ", "") if a is not None else ""
            okforms = {f"list(set({pname}))", f"list({pname})", pname,
                       f"sorted(set({pname}))"}
            probs = []
            if txt not in okforms:
                probs.append(f"cpu_affinity_set receives `{txt}`, not the caller's "
                             f"CPU list")
            cfg = A.cfg(fi)
            for st in assigned_names(fi.node).get(pname, []):
                okst = False
                for n in cfg.nodes_of(st):
                    fs = facts(cfg, n)
                    if ("truthy", pname, False) in fs:
                        okst = True
                if not okst:
                    probs.append(f"`{norm_stmt(st)}` replaces the caller's list "
                                 f"outside the empty-list case")
            if probs:
                ctx.fail("C01.R4", "Process.cpu_affinity->cpu_affinity_set", fi.file,
                         c.lineno, fi.qual, "; ".join(probs))
            else:
                ctx.ok("C01.R4", "Process.cpu_affinity->cpu_affinity_set",
                       sample={"forward": norm_stmt(c)})
    ctx.require(found, "Process.cpu_affinity no longer calls cpu_affinity_set")
    # fixed-signal methods
    for meth, signame in EXPECTED_SIGNAL.items():
        fi = P(f"Process.{meth}")
        sent = []
        for c in calls_in(fi.node):
            if isinstance(c.func, ast.Attribute) and c.func.attr == "_send_signal":
                sent.append(c)
        ctx.require(sent, f"Process.{meth} no longer calls _send_signal")
        for c in sent:
            got = dotted(c.args[0]) if c.args else None
            if got != f"signal.{signame}":
                ctx.fail("C01.R4", f"Process.{meth}:signal", fi.file, c.lineno, fi.qual,
                         f"{meth}() sends `{got}`, documented signal is signal.{signame}")
            else:
                ctx.ok("C01.R4", f"Process.{meth}:signal",
                       sample={"method": meth, "signal": got})


def _is_own_pid(fi, e):
    if e is None:
        return False
    n = dotted(e)
    if n in ("self.pid", "self._pid"):
        return True
    if isinstance(e, ast.Name):
        asg = assigned_names(fi.node).get(e.id, [])
        if len(asg) == 1:
            v = _assigned_value(asg[0], e.id)
            return v is not None and dotted(v) in ("self.pid", "self._pid")
    return False


def _allowed_rewrite(A, fi, st, name):
    """`value = 0` under the fact `value is None` (statement or conditional
    expression form)."""
    from ..core.astutil import none_to_default
    if none_to_default(st, name, 0):
        return True
    if isinstance(st, ast.Assign) and isinstance(st.value, ast.Constant) \
            and st.value.value == 0:
        cfg = A.cfg(fi)
        for n in cfg.nodes_of(st):
            if ("isnone", name, True) in facts(cfg, n):
                return True
    return False


# ---------------------------------------------------------------------- R5
def _r5_sticky(ctx, repo, A):
    ctx.rule("C01.R5", "_pid_reused and _gone are sticky: outside _init they are "
             "only set to True, or assigned under the dominating fact that the "
             "flag is still False", floor=4)
    n = 0
    for fi in repo.all_funcs("psutil"):
        if fi.cls not in ("Process", "Popen"):
            continue
        cfg = None
        for st in ast.walk(fi.node):
            if not isinstance(st, (ast.Assign, ast.AugAssign, ast.Delete)):
                continue
            tgts = st.targets if isinstance(st, (ast.Assign, ast.Delete)) else [st.target]
            for t in tgts:
                d = dotted(t)
                if d not in ("self._pid_reused", "self._gone"):
                    continue
                n += 1
                key = f"{fi.qual}:{norm_stmt(st)}"
                if fi.qual == "Process._init":
                    ctx.ok("C01.R5", key, nontrivial=False)
                    continue
                if isinstance(st, ast.Assign) and isinstance(st.value, ast.Constant) \
                        and st.value.value is True:
                    ctx.ok("C01.R5", key, sample={"write": norm_stmt(st), "in": fi.fq})
                    continue
                cfg = cfg or A.cfg(fi)
                good = isinstance(st, ast.Assign)
                for node in cfg.nodes_of(st):
                    fs = facts(cfg, node)
                    if ("truthy", d, False) not in fs:
                        good = False
                if good:
                    ctx.ok("C01.R5", key, sample={"write": norm_stmt(st), "in": fi.fq,
                                                  "under": f"{d} is False"})
                else:
                    ctx.fail("C01.R5", key, fi.file, st.lineno, fi.qual,
                             f"`{norm_stmt(st)}` can reset the sticky verdict {d} "
                             f"(not dominated by the flag being False)")
    ctx.require(n >= 4, "writes to _pid_reused/_gone not found")


# ---------------------------------------------------------------------- R6
def _r6_identity(ctx, repo, A):
    ctx.rule("C01.R6", "the guard decides identity: _raise_if_pid_reused raises "
             "NoSuchProcess whenever _pid_reused is (or becomes, via is_running) "
             "true; is_running stores self != Process(self.pid); __eq__ compares "
             "_ident of both operands", floor=4)
    g = repo.func("psutil", "Process._raise_if_pid_reused")
    verdict = guard_model(repo)
    if verdict is None:
        ctx.fail("C01.R6", "guard-raises", g.file, g.node.lineno, g.qual,
                 "_raise_if_pid_reused uses constructs outside the evaluated subset: its "
                 "decision cannot be established")
    else:
        probs = [w for _, w in verdict if w]
        # the exception names the object's pid
        bad_pid = [r for r in ast.walk(g.node) if isinstance(r, ast.Raise)
                   and isinstance(r.exc, ast.Call) and dotted(r.exc.func) == "NoSuchProcess"
                   and not (r.exc.args and dotted(r.exc.args[0]) in ("self.pid", "self._pid"))]
        if bad_pid:
            probs.append("NoSuchProcess does not carry self.pid")
        if probs:
            ctx.fail("C01.R6", "guard-raises", g.file, g.node.lineno, g.qual,
                     "_raise_if_pid_reused does not raise for every recycled PID: "
                     + "; ".join(sorted(set(probs))[:3]))
        else:
            ctx.ok("C01.R6", "guard-raises",
                   sample=f"{len(verdict)} (flags x is_running outcome) scenarios: raises "
                          f"NoSuchProcess iff the PID is recycled or the process is gone")
    # is_running
    ir = repo.func("psutil", "Process.is_running")
    stores = [st for st in ast.walk(ir.node) if isinstance(st, ast.Assign)
              and any(dotted(t) == "self._pid_reused" for t in st.targets)]
    good = False
    for st in stores:
        if _is_identity_compare(deref(ir.node, st.value)):
            good = True
    if good:
        ctx.ok("C01.R6", "is_running-compare", sample={"store": norm_stmt(stores[0])})
    else:
        ctx.fail("C01.R6", "is_running-compare", ir.file, ir.node.lineno, ir.qual,
                 "is_running() no longer derives _pid_reused from "
                 "`self != Process(self.pid)`")
    # after a positive verdict it reports not running: the True store leads to
    # `return False` / raise NoSuchProcess handled as False
    cfg = A.cfg(ir)
    rets_true = [n for n in cfg.nodes if n.kind == "return"
                 and isinstance(n.stmt.value, ast.Constant) and n.stmt.value.value is True]
    bad = False
    for n in rets_true:
        fs = facts(cfg, n)
        if ("truthy", "self._pid_reused", True) in fs:
            bad = True
    early = False
    for n in cfg.nodes:
        if n.kind == "return" and isinstance(n.stmt.value, ast.Constant) \
                and n.stmt.value.value is False:
            for e, pol, _ in cfg.guards(n):
                txt = norm_stmt(e)
                if pol is True and "self._pid_reused" in txt and "self._gone" in txt:
                    early = True
    if bad or not early:
        ctx.fail("C01.R6", "is_running-sticky", ir.file, ir.node.lineno, ir.qual,
                 "is_running() may answer True after a recycled verdict"
                 if bad else "is_running() lost the early `return False` when "
                 "_gone/_pid_reused is set")
    else:
        ctx.ok("C01.R6", "is_running-sticky",
               sample={"early_return_false_on": "self._gone or self._pid_reused"})
    for q, why in uncached_probes(repo):
        if why:
            f_ = repo.func("psutil", q)
            ctx.fail("C01.R6", f"uncached:{q}", f_.file, f_.node.lineno, f_.qual, why)
        else:
            ctx.ok("C01.R6", f"uncached:{q}", nontrivial=False)
    # every way is_running() can answer without comparing identities must make
    # the guard raise by itself
    for f, leaks in guard_cover(repo, A):
        if leaks:
            ctx.fail("C01.R6", f"guard-covers:{f}", g.file, g.node.lineno, g.qual,
                     f"is_running() answers early when {f} is set, without comparing "
                     f"identities, and _raise_if_pid_reused() then returns normally: "
                     f"once {f} is set a signal/setter reaches whoever owns the PID "
                     f"(e.g. after the PID was recycled)")
        else:
            ctx.ok("C01.R6", f"guard-covers:{f}",
                   sample=f"{f} set => _raise_if_pid_reused() raises on every path")
    # __eq__
    eq = repo.func("psutil", "Process.__eq__")
    last = eq.node.body[-1]
    final = last.value if isinstance(last, ast.Return) else None
    if isinstance(final, ast.Compare) and isinstance(final.ops[0], ast.Eq) \
            and {dotted(final.left), dotted(final.comparators[0])} == \
            {"self._ident", "other._ident"}:
        ctx.ok("C01.R6", "__eq__-ident", sample={"return": norm_stmt(final)})
    else:
        ctx.fail("C01.R6", "__eq__-ident", eq.file, eq.node.lineno, eq.qual,
                 "__eq__ no longer compares self._ident with other._ident")
    # no other way to answer "equal": every further return is NotImplemented or
    # sits in a branch that is dead on this platform (OpenBSD/NetBSD special case)
    ecfg = A.cfg(eq)
    for n in ecfg.nodes:
        if n.kind != "return" or n.stmt is last:
            continue
        if isinstance(n.stmt.value, ast.Name) and n.stmt.value.id == "NotImplemented":
            continue
        if isinstance(n.stmt.value, ast.Constant) and n.stmt.value.value is False:
            continue
        if n not in ecfg.live_nodes():
            continue
        conds = [norm_stmt(e).replace(" ", "") for e, p, _ in ecfg.guards(n) if p is True]
        if any(c in ("OPENBSDorNETBSD", "NETBSDorOPENBSD") for c in conds):
            continue
        ctx.fail("C01.R6", f"__eq__-extra:{norm_stmt(n.stmt)[:50]}", eq.file, n.line, eq.qual,
                 f"`{norm_stmt(n.stmt)}` lets two Process objects compare equal without "
                 f"equal identity tuples: is_running() (self == Process(pid)) then misses a "
                 f"recycled PID and the signal/setter guard passes")


CACHING_DECORATORS = {"memoize", "memoize_when_activated", "lru_cache", "cache",
                      "cached_property", "functools.lru_cache", "functools.cache",
                      "functools.cached_property"}


def uncached_probes(repo):
    """[(qualname, problem or None)]: the liveness / identity probes must be
    evaluated afresh on every call - no caching decorator, and oneshot() does not
    activate a cache for them."""
    out = []
    one = repo.func("psutil", "Process.oneshot", required=False)
    activated = set()
    if one is not None:
        for c in calls_in(one.node):
            if isinstance(c.func, ast.Attribute) and c.func.attr == "cache_activate":
                d = dotted(c.func.value) or ""
                activated.add(d.split(".")[-1])
    for q in ("Process.is_running", "Process._raise_if_pid_reused"):
        f = repo.func("psutil", q)
        decs = {d.split("(")[0] for d in f.decorators}
        bad = decs & CACHING_DECORATORS
        if bad:
            out.append((q, f"{q.split('.')[-1]}() is decorated with {sorted(bad)}: its answer "
                           f"is reused (inside oneshot()/as_dict() for the whole block), so a "
                           f"PID recycled meanwhile still passes the identity guard"))
        elif q.split(".")[-1] in activated:
            out.append((q, f"oneshot() activates a cache for {q.split('.')[-1]}()"))
        else:
            out.append((q, None))
    return out


def guard_model(repo):
    """Evaluate Process._raise_if_pid_reused() for every combination of the two
    sticky flags and every outcome of is_running() (model: answers False at once
    when a flag is set; otherwise True, or False after setting _pid_reused
    [recycled], or False after setting _gone [vanished]).  Specification: raise
    NoSuchProcess exactly when, afterwards, the PID is known recycled or the
    process known gone; when no flag was set on entry, is_running() must have
    been consulted.  Returns [(scenario, problem or None)] or None if the body is
    outside the evaluated subset."""
    from ..core import boolmodel as BM
    g = repo.func("psutil", "Process._raise_if_pid_reused")

    def model(name, st):
        if name == "self.is_running":
            if st.get("self._gone") or st.get("self._pid_reused"):
                return [(False, st)]
            return [(True, st), (False, {**st, "self._pid_reused": True}),
                    (False, {**st, "self._gone": True})]
        return None
    out = []
    for r0 in (False, True):
        for g0 in (False, True):
            res = BM.run(g.node, {"self._pid_reused": r0, "self._gone": g0}, model)
            if res is None:
                return None
            for o in res:
                final_bad = bool(o.state.get("self._pid_reused")) or bool(o.state.get("self._gone"))
                sc = f"_pid_reused={r0},_gone={g0},calls={list(o.trace)}"
                why = None
                if final_bad and not (o.kind == "raise" and o.exc == "NoSuchProcess"):
                    which = "_pid_reused" if o.state.get("self._pid_reused") else "_gone"
                    why = (f"with {which} set ({'on entry' if (r0 or g0) else 'by is_running()'}) "
                           f"the guard returns normally")
                elif not final_bad and o.kind == "raise":
                    why = "it raises although the process is the same and alive"
                elif not (r0 or g0) and "self.is_running" not in o.trace:
                    why = ("it never consults is_running(), which is what detects the "
                           "recycling")
                out.append((sc, why))
    return out


def guard_cover(repo, A):
    """[(flag, leaks)] kept for C05: derived from guard_model()."""
    v = guard_model(repo)
    if v is None:
        return [("<outside subset>", True)]
    out = []
    for flag in ("self._pid_reused", "self._gone"):
        out.append((flag, any(w and flag.split(".")[1] in w and "returns normally" in w
                              for _, w in v)))
    out.append(("<is_running consulted>", any(w and "never consults" in w for _, w in v)))
    return out


def _eval3(e, env):
    """Three-valued evaluation of a guard test under known attribute values."""
    d = dotted(e)
    if d in env:
        return env[d]
    if isinstance(e, ast.UnaryOp) and isinstance(e.op, ast.Not):
        v = _eval3(e.operand, env)
        return None if v is None else not v
    if isinstance(e, ast.BoolOp):
        vals = [_eval3(v, env) for v in e.values]
        if isinstance(e.op, ast.Or):
            if any(v is True for v in vals):
                return True
            return False if all(v is False for v in vals) else None
        if any(v is False for v in vals):
            return False
        return True if all(v is True for v in vals) else None
    return None


def _guard_test_ok(test):
    """test must be true whenever self._pid_reused is true, and must evaluate
    is_running() when it is not yet known."""
    txt = norm_stmt(test)
    has_isrunning = any(isinstance(c.func, ast.Attribute) and c.func.attr == "is_running"
                        for c in calls_in(test))
    if not has_isrunning:
        return "the test no longer calls is_running() (a stale flag would be trusted)"
    if isinstance(test, ast.BoolOp) and isinstance(test.op, ast.Or):
        if any(dotted(v) == "self._pid_reused" for v in test.values):
            return True
    if dotted(test) == "self._pid_reused":
        return True
    # not self.is_running() and self._pid_reused  (is_running sets the flag)
    if isinstance(test, ast.BoolOp) and isinstance(test.op, ast.And):
        vs = test.values
        if len(vs) == 2 and isinstance(vs[0], ast.UnaryOp) \
                and dotted(vs[1]) == "self._pid_reused":
            return True
    return f"`{txt}` is not implied by self._pid_reused"


def _is_identity_compare(v):
    neg = False
    while isinstance(v, ast.UnaryOp) and isinstance(v.op, ast.Not):
        neg = not neg
        v = v.operand
    if not (isinstance(v, ast.Compare) and len(v.ops) == 1):
        return False
    op = v.ops[0]
    if isinstance(op, ast.NotEq):
        pol = True
    elif isinstance(op, ast.Eq):
        pol = False
    else:
        return False
    if neg:
        pol = not pol
    if not pol:
        return False
    sides = [v.left, v.comparators[0]]
    has_self = any(dotted(s) == "self" for s in sides)
    has_new = False
    for s in sides:
        if isinstance(s, ast.Call) and dotted(s.func) in ("Process", "self.__class__",
                                                         "type(self)") \
                and s.args and dotted(s.args[0]) in ("self.pid", "self._pid"):
            has_new = True
    return has_self and has_new


# ---------------------------------------------------------------------- R7
def _r7_popen(ctx, repo):
    ctx.rule("C01.R7", "psutil.Popen cannot bypass the guard: it subclasses Process, "
             "overrides none of the guarded methods, and __getattribute__ falls "
             "back to the subprocess object only after the normal lookup failed",
             floor=2)
    m = repo.mod("psutil")
    c = m.classes.get("Popen")
    ctx.require(c is not None, "class Popen vanished")
    bases = [dotted(b) for b in c.bases]
    guarded = {"send_signal", "suspend", "resume", "terminate", "kill", "nice",
               "ionice", "rlimit", "cpu_affinity", "_send_signal",
               "_raise_if_pid_reused", "is_running", "__eq__", "__hash__"}
    over = sorted(set(repo.methods("psutil", "Popen")) & guarded)
    if bases != ["Process"] or over:
        ctx.fail("C01.R7", "popen-overrides", m.rel, c.lineno, "Popen",
                 f"bases={bases}, overrides guarded methods {over}")
    else:
        ctx.ok("C01.R7", "popen-overrides", sample={"bases": bases, "overrides": over})
    ga = repo.func("psutil", "Popen.__getattribute__", required=False)
    if ga is None:
        ctx.ok("C01.R7", "popen-getattribute", sample="no __getattribute__ override")
        return
    body = [s for s in ga.node.body if not isinstance(s, ast.Expr)
            or not isinstance(getattr(s, "value", None), ast.Constant)]
    good = False
    if body and isinstance(body[0], ast.Try):
        t = body[0]
        first = t.body[0] if t.body else None
        if isinstance(first, ast.Return) and isinstance(first.value, ast.Call) \
                and dotted(first.value.func) == "object.__getattribute__" \
                and first.value.args and dotted(first.value.args[0]) == "self":
            good = all((h.type is not None and "AttributeError" in norm_stmt(h.type))
                       for h in t.handlers)
    if good:
        ctx.ok("C01.R7", "popen-getattribute",
               sample="object.__getattribute__(self, name) first; subprocess "
                      "object only on AttributeError")
    else:
        ctx.fail("C01.R7", "popen-getattribute", ga.file, ga.node.lineno, ga.qual,
                 "Popen.__getattribute__ may resolve send_signal/terminate/kill on "
                 "the subprocess.Popen object before psutil.Process")
