"""C17 - the C extension is memory-safe and decodes OS records faithfully.

Necessary conditions only, decided on clang's type-resolved AST of the Linux
translation units; not a proof of memory safety."""

import ast
import os
import re

from ..core import cfront as C
from ..core.absint import Interp, alternatives, result_alternatives, pretty
from ..core.analysis import Analysis, facts
from ..core.forms import canon
from ..core.pyrepo import Repo, calls_in, dotted, norm_stmt
from ..core.report import AnalysisError

TYPEDEFS = {"pid_t": "int", "__pid_t": "int", "uid_t": "unsigned int", "gid_t": "unsigned int",
            "Py_ssize_t": "long", "ssize_t": "long", "size_t": "unsigned long",
            "__u32": "unsigned int", "uint32_t": "unsigned int", "__u64": "unsigned long long",
            "uint64_t": "unsigned long", "__u16": "unsigned short", "__u8": "unsigned char",
            "socklen_t": "unsigned int", "__kernel_ulong_t": "unsigned long",
            "__kernel_long_t": "long", "__syscall_slong_t": "long", "__time_t": "long",
            "time_t": "long"}

# Py_BuildValue unit -> acceptable (promoted) C types
BUILD = {
    "i": {"int", "short", "char", "signed char", "unsigned char", "unsigned short", "_Bool"},
    "b": {"int", "char", "signed char"}, "h": {"int", "short"},
    "B": {"int", "unsigned char"}, "H": {"int", "unsigned short"},
    "l": {"long"}, "k": {"unsigned long"}, "I": {"unsigned int"},
    "L": {"long long"}, "K": {"unsigned long long"},
    "n": {"long"}, "d": {"double", "float"}, "f": {"double", "float"},
    "s": {"char *", "const char *"}, "z": {"char *", "const char *"},
    "y": {"char *", "const char *"}, "u": {"wchar_t *"},
    "O": {"PyObject *"}, "N": {"PyObject *"}, "S": {"PyObject *"},
}
PARSE = {
    "i": {"int *"}, "l": {"long *"}, "k": {"unsigned long *"}, "I": {"unsigned int *"},
    "L": {"long long *"}, "K": {"unsigned long long *"}, "n": {"long *"},
    "d": {"double *"}, "f": {"float *"}, "s": {"char **", "const char **"},
    "z": {"char **", "const char **"}, "O": {"PyObject **"}, "p": {"int *"},
    "b": {"unsigned char *"}, "h": {"short *"},
}

NUL_CONSUMERS = {"PyUnicode_DecodeFSDefault": [0], "PyUnicode_FromString": [0],
                 "PyBytes_FromString": [0], "strcmp": [0, 1], "strlen": [0], "strcpy": [1],
                 "strcat": [0, 1], "strdup": [0], "strchr": [0], "strstr": [0, 1],
                 "strcasecmp": [0, 1], "atoi": [0], "atol": [0], "puts": [0]}
# OS record structs whose char[] members are fixed-width and NOT NUL-terminated
# when full (utmp(5): "string fields are terminated by NUL if shorter than the
# size of the field")
NONSTRING = {"utmp": {"ut_line", "ut_id", "ut_user", "ut_host"},
             "utmpx": {"ut_line", "ut_id", "ut_user", "ut_host"}}


def norm(t):
    t = t.replace("const ", "").replace("volatile ", "").replace("struct ", "struct ").strip()
    t = re.sub(r"\s+", " ", t)
    m = re.match(r"^([A-Za-z_]\w*)((?: ?\*)*)$", t)
    if m and m.group(1) in TYPEDEFS:
        t = TYPEDEFS[m.group(1)] + (" " + m.group(2).strip() if m.group(2).strip() else "")
    t = t.replace("* *", "**")
    t = re.sub(r"\s*\*", " *", t, count=1) if "*" in t else t
    t = t.replace(" * *", " **").replace("* *", "**")
    return t.strip()


def fmt_units(fmt):
    units = []
    i = 0
    while i < len(fmt):
        c = fmt[i]
        if c in "()[]{} ,\t":
            i += 1
            continue
        if c in ":;|$":
            if c in ":;":
                break
            i += 1
            continue
        u = c
        if i + 1 < len(fmt) and fmt[i + 1] in "#*!&":
            u += fmt[i + 1]
            i += 1
        units.append(u)
        i += 1
    return units


def run(ctx):
    tus = C.load_all(ctx.repo)
    funcs = []
    for tu in tus:
        for fn in tu["functions"]:
            C.assign_lines(fn)
            funcs.append((tu["file"], fn))
    ctx.stat("c_units", [tu["file"] for tu in tus])
    ctx.stat("c_functions", len(funcs))
    ctx.require(len(funcs) >= 25, f"only {len(funcs)} C functions found in the Linux TUs")

    # ------------------------------------------------------------------- R1
    ctx.rule("C17.R1", "format <-> type agreement: every PyArg_ParseTuple / "
             "Py_BuildValue / PyObject_CallFunction call has as many arguments as "
             "format units, each of the C type the unit prescribes", floor=25)
    for file, fn in funcs:
        for n in C.walk(fn):
            if n.get("kind") != "CallExpr":
                continue
            cn = C.callee(n)
            if cn not in ("PyArg_ParseTuple", "Py_BuildValue", "PyObject_CallFunction",
                          "PyArg_ParseTupleAndKeywords"):
                continue
            args = C.call_args(n)
            fi = 0 if cn == "Py_BuildValue" else 1
            fmt = C.string_value(args[fi]) if len(args) > fi else None
            key = f"{fn['name']}:{cn}:{fmt}"
            if fmt is None:
                ctx.fail("C17.R1", key, fn["_file"], n["_line"], fn["name"],
                         f"{cn}: format is not a string literal")
                continue
            units = fmt_units(fmt)
            vals = args[fi + 1:]
            table = PARSE if cn.startswith("PyArg") else BUILD
            probs = []
            if len(units) != len(vals):
                probs.append(f"{len(units)} format units but {len(vals)} arguments")
            for u, a in zip(units, vals):
                t = norm(C.qtype(a))
                okt = table.get(u)
                if okt is None:
                    probs.append(f"unit '{u}' not in the type table")
                elif t not in okt and not (u in ("O", "N") and t.endswith("Object *")) \
                        and not (u == "O" and cn.startswith("PyArg") and t.endswith("Object **")):
                    probs.append(f"unit '{u}' expects {sorted(okt)} but the argument has "
                                 f"type `{t}`")
            if probs:
                ctx.fail("C17.R1", key, fn["_file"], n["_line"], fn["name"],
                         f"{cn}(\"{fmt}\", ...): " + "; ".join(probs)
                         + " (a wrong-width varargs read/write)")
            else:
                ctx.ok("C17.R1", key, sample={"function": fn["name"], "call": cn,
                                              "format": fmt,
                                              "types": [norm(C.qtype(a)) for a in vals]})

    # ------------------------------------------------------------------- R2
    ctx.rule("C17.R2", "fixed-width record fields (char[N] members of utmp-like OS "
             "records, not NUL-terminated when full) never reach a consumer that "
             "expects a C string; only length-bounded consumers", floor=3)
    nfield = 0
    by_name = {fn["name"]: fn for _, fn in funcs}
    for file, fn in funcs:
        aliases = _field_aliases(fn)
        for n in C.walk(fn):
            if n.get("kind") != "CallExpr":
                continue
            cn = C.callee(n)
            args = C.call_args(n)
            for i, a in enumerate(args):
                core = C.strip_all(a)
                alias = None
                if core.get("kind") == "DeclRefExpr" and \
                        (core.get("referencedDecl") or {}).get("name") in aliases:
                    alias = (core.get("referencedDecl") or {}).get("name")
                    core = aliases[alias]
                if core.get("kind") != "MemberExpr":
                    continue
                mt = C.qtype(core)
                if not re.match(r"^char\[\d+\]$", mt):
                    continue
                base = kids_type(core)
                rec = re.sub(r"^(const )?struct ", "", base).replace("*", "").strip()
                mname = core.get("name")
                if rec not in NONSTRING or mname not in NONSTRING[rec]:
                    continue
                nfield += 1
                key = f"{fn['name']}:{cn}:{mname}"
                width = int(re.findall(r"\d+", mt)[0])
                if alias is not None and not (cn in NUL_CONSUMERS and i in NUL_CONSUMERS[cn]):
                    # through a pointer the width is lost: only an explicit bound
                    # naming the member itself is accepted
                    if any((_sizeof_target(x) or ("", 1))[0] == mname
                           and (_sizeof_target(x) or ("", 1))[1] <= 0
                           for j, x in enumerate(args) if j != i):
                        ctx.ok("C17.R2", key + f":via:{alias}",
                               sample=f"{cn}({alias} -> {mname}, sizeof({mname}))")
                    else:
                        ctx.fail("C17.R2", key + f":via:{alias}", fn["_file"], n["_line"],
                                 fn["name"], f"`{alias}` may point at {rec}.{mname} (fixed "
                                 f"width, maybe unterminated) and is passed to `{cn}` without "
                                 f"a sizeof({mname}) bound")
                    continue
                if cn in NUL_CONSUMERS and i in NUL_CONSUMERS[cn]:
                    ctx.fail("C17.R2", key + (f":via:{alias}" if alias else ""), fn["_file"],
                             n["_line"], fn["name"],
                             (f"`{alias}` may point at {rec}.{mname}; " if alias else "") +
                             f"`{cn}({rec}.{mname})`: {mname} is a fixed-width char[{width}] "
                             f"field that is NOT NUL-terminated when full; {cn} reads on "
                             f"into the following fields (wrong string, potential "
                             f"out-of-bounds read)")
                elif cn in ("strnlen", "strncmp", "memcmp", "strncpy", "memcpy",
                            "PyUnicode_DecodeFSDefaultAndSize", "PyBytes_FromStringAndSize",
                            "PyUnicode_FromStringAndSize", "snprintf"):
                    # the bound must not exceed the field width
                    bound_ok = _bounded(args, i, width, cn, _single_defs(fn))
                    if bound_ok:
                        ctx.ok("C17.R2", key, sample=f"{cn}({mname}, <= {width})")
                    else:
                        ctx.fail("C17.R2", key + ":bound", fn["_file"], n["_line"], fn["name"],
                                 f"`{cn}` on {rec}.{mname}: the length bound is not "
                                 f"sizeof/strnlen of the {width}-byte field")
                elif cn in by_name and _helper_bounds(by_name[cn], i) is not None:
                    # a helper of this extension: every use of the pointer inside it is a
                    # length-bounded consumer whose bound is another parameter; that
                    # parameter must be bound to sizeof(member) here
                    qs = _helper_bounds(by_name[cn], i)
                    good = bool(qs) and all(
                        q < len(args) and (
                            ((_sizeof_target(args[q]) or ("", 1))[0] == mname
                             and (_sizeof_target(args[q]) or ("", 1))[1] <= 0)
                            or (C.int_value(args[q]) is not None
                                and 0 < C.int_value(args[q]) <= width))
                        for q in qs)
                    if good:
                        ctx.ok("C17.R2", key, sample=f"{cn}({mname}, sizeof({mname})): the helper "
                               f"only uses the pointer under that bound")
                    else:
                        ctx.fail("C17.R2", key + ":bound", fn["_file"], n["_line"], fn["name"],
                                 f"`{cn}` bounds its reads of {rec}.{mname} by parameter(s) "
                                 f"{sorted(qs)}, which this call does not bind to "
                                 f"sizeof({mname}) (<= {width})")
                else:
                    ctx.fail("C17.R2", key + ":unknown", fn["_file"], n["_line"], fn["name"],
                             f"{rec}.{mname} (fixed width, maybe unterminated) is passed to "
                             f"`{cn}`, which is not a known length-bounded consumer")
    ctx.require(nfield >= 3, f"only {nfield} uses of utmp string fields found in users.c")

    # ------------------------------------------------------------------- R3
    ctx.rule("C17.R3", "bounded writes into fixed arrays: strncpy/memset sizes are "
             "sizeof of the destination object; sprintf output is bounded by the "
             "format and the argument types/callers", floor=8)
    literal_callers = _callers_with_literal(funcs)
    # dynamically sized CPU sets: a set obtained from CPU_ALLOC(n) is CPU_ALLOC_SIZE(n)
    # bytes long, whereas the plain CPU_SET/CPU_CLR/CPU_ISSET/CPU_ZERO/CPU_COUNT macros
    # address sizeof(cpu_set_t) = 128 bytes: only the *_S forms may touch it.  (Macros
    # are gone from clang's AST, so this instance reads the function text.)
    from ..core import ctext as T
    import os as _os
    PLAIN = ("CPU_SET", "CPU_CLR", "CPU_ISSET", "CPU_ZERO", "CPU_COUNT", "CPU_AND", "CPU_OR",
             "CPU_XOR", "CPU_EQUAL")
    nalloc = 0
    for file, fn in funcs:
        path = _os.path.join(ctx.repo, fn["_file"])
        try:
            src = T.strip_comments(open(path, errors="replace").read())
        except OSError:
            continue
        body = T.function_body(src, fn["name"])
        if not body or "CPU_ALLOC" not in body:
            continue
        dyn = set(re.findall(r"\b(\w+)\s*=\s*CPU_ALLOC\s*\(", body))
        for v in sorted(dyn):
            nalloc += 1
            bad = [(m, a) for m in PLAIN for a, _ in T.calls(body, m)
                   if any(re.search(r"\b" + re.escape(v) + r"\b", x) for x in a)]
            key = f"{fn['name']}:cpuset:{v}"
            if bad:
                m, a = bad[0]
                ctx.fail("C17.R3", key, fn["_file"], fn["_line"], fn["name"],
                         f"`{m}({', '.join(a)})` on `{v}`, which was sized by CPU_ALLOC(): the "
                         f"plain macro bounds-checks against sizeof(cpu_set_t) (1024 CPUs), not "
                         f"against the allocation - a CPU number beyond the allocated words "
                         f"reads/writes past the heap block; use {m}_S")
            else:
                ctx.ok("C17.R3", key, sample=f"{v} = CPU_ALLOC(..): only *_S macros touch it")
    ctx.require(nalloc >= 1, "no CPU_ALLOC'd set found (cpu_affinity_get used one)")
    for file, fn in funcs:
        for n in C.walk(fn):
            if n.get("kind") != "CallExpr":
                continue
            cn = C.callee(n)
            args = C.call_args(n)
            if cn in ("strncpy", "memset", "memcpy", "strncat"):
                dst = C.strip_all(args[0])
                if dst.get("kind") == "UnaryOperator" and dst.get("opcode") == "&":
                    dst = C.strip_all(C.kids(dst)[0])
                size = args[2]
                dt = C.qtype(dst)
                key = f"{fn['name']}:{cn}:{dst.get('name') or (dst.get('referencedDecl') or {}).get('name')}"
                so = _sizeof_target(size)
                dname = dst.get("name") or (dst.get("referencedDecl") or {}).get("name")
                if so and (so[0] == dname or so[0] == dt or so[0].replace("struct ", "") ==
                           dt.replace("struct ", "")) and so[1] <= 0:
                    ctx.ok("C17.R3", key, sample=f"{cn}({dname}, ..., sizeof({so[0]}){so[1] or ''})")
                else:
                    ctx.fail("C17.R3", key, fn["_file"], n["_line"], fn["name"],
                             f"`{cn}` into {dname} ({dt}) with a size that is not "
                             f"sizeof of the destination")
            elif cn in ("strcpy", "strcat", "gets"):
                ctx.fail("C17.R3", f"{fn['name']}:{cn}", fn["_file"], n["_line"], fn["name"],
                         f"unbounded `{cn}`")
            elif cn == "sprintf":
                key = f"{fn['name']}:sprintf:{C.string_value(args[1])}"
                ok, why = _sprintf_bound(fn, n, args, literal_callers)
                if ok:
                    ctx.ok("C17.R3", key, sample=why)
                else:
                    ctx.fail("C17.R3", key, fn["_file"], n["_line"], fn["name"], why)

    # ------------------------------------------------------------------- R4
    ctx.rule("C17.R4", "arithmetic on caller-controlled integers: a signed `<<` or "
             "`*` whose operand comes from a parsed argument is guarded by a range "
             "check (or done in an unsigned type)", floor=1)
    for file, fn in funcs:
        parsed = _parsed_vars(fn)
        if not parsed:
            continue
        for n in C.walk(fn):
            if n.get("kind") == "BinaryOperator" and n.get("opcode") in ("<<", "*"):
                t = C.qtype(n)
                ops = C.kids(n)
                names = {(C.strip_all(o).get("referencedDecl") or {}).get("name") for o in ops}
                tainted = names & parsed
                derived = names & _derived(fn, parsed)
                if not (tainted or derived):
                    continue
                var = sorted(tainted or derived)[0]
                key = f"{fn['name']}:{n.get('opcode')}:{var}"
                if "unsigned" in t:
                    ctx.ok("C17.R4", key, sample=f"unsigned {n.get('opcode')}")
                else:
                    okr, (lo_, hi_) = _range_guarded(fn, n, var)
                    bits = FIELD_BITS.get((fn["name"], var))
                    if okr and bits is not None and n.get("opcode") == "<<" and hi_ >= 2 ** bits[0]:
                        ctx.fail("C17.R4", key + ":field", fn["_file"], n["_line"], fn["name"],
                                 f"`{var} << ...` packs {var} into a {bits[0]}-bit field ({bits[1]}) but "
                                 f"the range checks before it allow {var} up to {hi_}: the value "
                                 f"{2 ** bits[0]} spills out of the field and the kernel is handed a "
                                 f"different class than the one asked for instead of EINVAL")
                        continue
                    if okr:
                        ctx.ok("C17.R4", key, sample=f"{var} in [{lo_}, {hi_}] before the "
                               f"signed {n.get('opcode')}")
                    else:
                        ctx.fail("C17.R4", key, fn["_file"], n["_line"], fn["name"],
                                 f"signed `{var} {n.get('opcode')} ...` ({t}) on a value parsed "
                                 f"from the caller's argument; the exiting range checks before "
                                 f"it leave {var} in [{'-inf' if lo_ is None else lo_}, "
                                 f"{'+inf' if hi_ is None else hi_}]: signed overflow (undefined "
                                 f"behaviour; in practice the high bits wrap into a value the "
                                 f"kernel accepts) for arguments outside the encodable range")

    # ------------------------------------------------------------------- R9
    ctx.rule("C17.R9", "mount entries are read whole: with getmntent() (libc's own line "
             "buffer), or with getmntent_r() given a buffer at least as large as libc's "
             "(4096 bytes) - a smaller one silently truncates long option strings", floor=1)
    nm_ = 0
    for file, fn in funcs:
        for n in C.walk(fn):
            if n.get("kind") != "CallExpr" or C.callee(n) not in ("getmntent", "getmntent_r"):
                continue
            nm_ += 1
            key = f"{fn['name']}:{C.callee(n)}"
            if C.callee(n) == "getmntent":
                ctx.ok("C17.R9", key, sample="getmntent(): libc-managed buffer")
                continue
            args = C.call_args(n)
            size = None
            if len(args) >= 4:
                so = _sizeof_target(args[3])
                size = C.int_value(args[3])
                if size is None and so:
                    # sizeof(buf): find the array declaration
                    for d in C.walk(fn):
                        if d.get("kind") == "VarDecl" and d.get("name") == so[0]:
                            m_ = re.search(r"\[(\d+)\]", C.qtype(d))
                            if m_:
                                size = int(m_.group(1)) + so[1]
            if size is not None and size >= 4096:
                ctx.ok("C17.R9", key, sample=f"getmntent_r(buffer of {size} bytes)")
            else:
                ctx.fail("C17.R9", key, fn["_file"], n["_line"], fn["name"],
                         f"getmntent_r() is given a {size if size is not None else 'non-constant'}"
                         f"-byte buffer: a mounts line longer than that (overlay mounts with "
                         f"many layers) is silently cut, disk_partitions() reports truncated "
                         f"options")
    ctx.require(nm_ >= 1, "no getmntent()/getmntent_r() call found in the Linux sources")

    # ------------------------------------------------------------------- R8
    ctx.rule("C17.R8", "argument parsing is checked: every PyArg_ParseTuple result is "
             "tested and a failure leaves the function before any parsed variable is "
             "used (wrong argument types raise TypeError instead of running on "
             "uninitialised memory)", floor=10)
    for file, fn in funcs:
        calls_ = [n for n in C.walk(fn) if n.get("kind") == "CallExpr"
                  and C.callee(n) in ("PyArg_ParseTuple", "PyArg_ParseTupleAndKeywords")]
        for c_ in calls_:
            key = f"{fn['name']}:parse"
            ok_ = False
            for ifs in C.walk(fn):
                if ifs.get("kind") != "IfStmt":
                    continue
                ks = C.kids(ifs)
                if not any(x is c_ for x in C.walk(ks[0])):
                    continue
                cond = C.strip(ks[0])
                neg = cond.get("kind") == "UnaryOperator" and cond.get("opcode") == "!"
                eq0 = cond.get("kind") == "BinaryOperator" and cond.get("opcode") == "==" \
                    and C.int_value(C.kids(cond)[1]) == 0
                if (neg or eq0) and len(ks) > 1 and _always_exits(ks[1]):
                    ok_ = True
                elif not (neg or eq0) and len(ks) > 2 and _always_exits(ks[2]):
                    ok_ = True
            if ok_:
                ctx.ok("C17.R8", key, sample=f"{fn['name']}: if (!PyArg_ParseTuple(...)) return")
            else:
                ctx.fail("C17.R8", key, fn["_file"], c_.get("_line", 0), fn["name"],
                         "the result of PyArg_ParseTuple is not tested (or a failure does not "
                         "leave the function): with a wrong argument type the parsed "
                         "variables are used uninitialised")

    # ------------------------------------------------------------------- R5
    ctx.rule("C17.R5", "no NULL dereference on error paths: Py_DECREF / Py_INCREF is never "
             "applied to a PyObject* local that can still hold the NULL it was "
             "initialised with on some path (goto error before the object was created); "
             "Py_XDECREF is required there", floor=20)
    from ..core.ccfg import null_deref_sites
    for file, fn in funcs:
        uses = [n for n in C.walk(fn) if n.get("kind") == "CallExpr"
                and C.callee(n) in ("Py_DECREF", "Py_INCREF")]
        if not uses:
            continue
        bad = null_deref_sites(fn)
        badk = {(v, ln) for v, ln, _ in bad}
        for n in uses:
            args = C.call_args(n)
            v = (C.strip_all(args[0]).get("referencedDecl") or {}).get("name") if args else None
            key = f"{fn['name']}:{C.callee(n)}:{v}"
            if (v, n.get("_line", 0)) in badk:
                ctx.fail("C17.R5", key, fn["_file"], n["_line"], fn["name"],
                         f"`{C.callee(n)}({v})` is reachable while {v} is still NULL (it is "
                         f"set to NULL and this point can be reached, e.g. through `goto "
                         f"error`, before an object is stored in it): NULL dereference, "
                         f"the interpreter crashes instead of raising")
            else:
                ctx.ok("C17.R5", key, nontrivial=False if v is None else True,
                       sample=f"{fn['name']}: {C.callee(n)}({v}) only where {v} is non-NULL")

    # ------------------------------------------------------------------- R5/R6
    ctx.rule("C17.R6", "resource typestate: setmntent/endmntent, socket/close, "
             "CPU_ALLOC/CPU_FREE, getifaddrs/freeifaddrs are released exactly once on "
             "every path that returns (incl. goto error)", floor=3)
    _r6(ctx, funcs)

    # ------------------------------------------------------------------- R7
    ctx.rule("C17.R7", "record slot agreement C <-> Python: users (user, line, host, "
             "tv_sec, pid) <-> suser; disk_partitions (fsname, dir, type, opts) <-> "
             "sdiskpart with the all=False filter; net_if_addrs six slots <-> snicaddr",
             floor=4)
    _r7(ctx, funcs)
    ctx.assume("necessary conditions only: this is not a proof of memory safety; "
               "non-Linux C is not type-checked (no headers here)")
    ctx.assume("strerror() messages are shorter than the 1024-byte message buffers")
    return ("clang's type-resolved JSON AST of the 8 Linux translation units: format-"
            "string/argument type agreement, taint of fixed-width record fields into "
            "NUL-expecting consumers, sizeof discipline of bounded copies, a bound on "
            "sprintf output from format + argument types + callers' literals, guarded "
            "signed arithmetic on parsed integers, acquire/release typestate on a "
            "per-function CFG, and C tuple <-> Python unpack <-> named-tuple agreement.",
            "typed-AST queries over clang's IR (taint, typestate, format/type agreement)")


def _field_aliases(fn):
    """pointer variables that may hold the address of a fixed-width record
    field: {var: MemberExpr} (flow-insensitive may-alias)."""
    out = {}

    def member_of(e):
        core = C.strip_all(e)
        if core.get("kind") == "UnaryOperator" and core.get("opcode") == "&":
            core = C.strip_all(C.kids(core)[0])
            if core.get("kind") == "ArraySubscriptExpr":
                core = C.strip_all(C.kids(core)[0])
        if core.get("kind") == "ConditionalOperator":
            for k in C.kids(core)[1:]:
                m = member_of(k)
                if m is not None:
                    return m
        if core.get("kind") == "MemberExpr" and re.match(r"^char\[\d+\]$", C.qtype(core)):
            return core
        return None
    for n in C.walk(fn):
        if n.get("kind") == "VarDecl" and C.kids(n):
            m = member_of(C.kids(n)[-1])
            if m is not None:
                out[n.get("name")] = m
        elif n.get("kind") == "BinaryOperator" and n.get("opcode") == "=":
            l, r = C.kids(n)
            ln = (C.strip_all(l).get("referencedDecl") or {}).get("name")
            m = member_of(r)
            if ln and m is not None:
                out[ln] = m
    return out


def kids_type(member):
    ks = C.kids(member)
    if not ks:
        return ""
    return (ks[0].get("type") or {}).get("qualType", "")


def _single_defs(fn):
    """{local: defining expression} for locals of fn that are written exactly once
    (initialiser or one `=`), never through `&local`, ++/-- or compound assignment."""
    defs, bad = {}, set()
    for n in C.walk(fn):
        k = n.get("kind")
        if k == "VarDecl" and C.kids(n) and C.kids(n)[-1].get("kind") not in (None,):
            init = [x for x in C.kids(n) if x.get("kind") not in ("FullComment",)]
            if init:
                nm = n.get("name")
                if nm in defs:
                    bad.add(nm)
                defs[nm] = init[-1]
        elif k == "BinaryOperator" and n.get("opcode") == "=":
            l, r = C.kids(n)
            ln = C.strip_all(l)
            if ln.get("kind") == "DeclRefExpr":
                nm = (ln.get("referencedDecl") or {}).get("name")
                if nm in defs:
                    bad.add(nm)
                defs[nm] = r
        elif k == "CompoundAssignOperator" or (k == "UnaryOperator"
                                               and n.get("opcode") in ("++", "--", "&")):
            t_ = C.strip_all(C.kids(n)[0]) if C.kids(n) else {}
            if t_.get("kind") == "DeclRefExpr":
                bad.add((t_.get("referencedDecl") or {}).get("name"))
    return {k_: v_ for k_, v_ in defs.items() if k_ not in bad}


def _bounded(args, i, width, cn, defs=None):
    """Is some other argument a bound that cannot exceed the field: sizeof of
    the very same member, strnlen(member, sizeof(member)), or a literal <= width
    (also through a local written once: n = strnlen(f, sizeof(f)); use(f, n))."""
    me = C.strip_all(args[i]).get("name")
    defs = defs or {}
    for j, a in enumerate(args):
        if j == i:
            continue
        core0 = C.strip_all(a)
        if core0.get("kind") == "DeclRefExpr":
            nm0 = (core0.get("referencedDecl") or {}).get("name")
            if nm0 in defs:
                a = defs[nm0]
        so = _sizeof_target(a)
        if so and so[0] == me and so[1] <= 0:
            return True
        core = C.strip_all(a)
        if core.get("kind") == "CallExpr" and C.callee(core) == "strnlen":
            ia = C.call_args(core)
            if ia and C.strip_all(ia[0]).get("name") == me:
                return _bounded(ia, 0, width, "strnlen", defs)
        v = C.int_value(a)
        if v is not None and 0 < v <= width:
            return True
    return False


_BOUNDED_CONSUMERS = ("strnlen", "strncmp", "memcmp", "strncpy", "memcpy",
                      "PyUnicode_DecodeFSDefaultAndSize", "PyBytes_FromStringAndSize",
                      "PyUnicode_FromStringAndSize", "snprintf")


def _helper_bounds(fn, p):
    """fn: a function of the extension, p: index of a pointer parameter.  If EVERY
    use of that parameter in fn is as a direct argument of a length-bounded consumer
    whose bound is another parameter q (or strnlen(param, q)), the set of such q;
    None when some use is not of that shape (the helper may read unboundedly)."""
    params = [k.get("name") for k in C.kids(fn) if k.get("kind") == "ParmVarDecl"]
    if p >= len(params):
        return None
    me = params[p]

    def is_ref(e, name):
        e = C.strip_all(e)
        return e.get("kind") == "DeclRefExpr" and (e.get("referencedDecl") or {}).get("name") == name

    def bound_params(args, i):
        out = set()
        for j, a in enumerate(args):
            if j == i:
                continue
            for q, qn in enumerate(params):
                if q != p and is_ref(a, qn):
                    out.add(q)
            core = C.strip_all(a)
            if core.get("kind") == "CallExpr" and C.callee(core) == "strnlen":
                ia = C.call_args(core)
                if ia and is_ref(ia[0], me):
                    out |= bound_params(ia, 0)
        return out

    total = sum(1 for n in C.walk(fn) if n.get("kind") == "DeclRefExpr"
                and (n.get("referencedDecl") or {}).get("name") == me)
    matched, qs = 0, set()
    for n in C.walk(fn):
        if n.get("kind") != "CallExpr":
            continue
        args = C.call_args(n)
        for i, a in enumerate(args):
            if not is_ref(a, me):
                continue
            if C.callee(n) not in _BOUNDED_CONSUMERS:
                return None
            b = bound_params(args, i)
            if not b:
                return None
            matched += 1
            qs |= b
    if matched != total or not matched:
        return None
    return qs


def _sizeof_target(e):
    """("name or type", delta) for sizeof(x) [- k], else None."""
    e = C.strip_all(e)
    delta = 0
    if e.get("kind") == "BinaryOperator" and e.get("opcode") in ("-", "+"):
        a, b = C.kids(e)
        v = C.int_value(b)
        if v is None:
            return None
        delta = -v if e.get("opcode") == "-" else v
        e = C.strip_all(a)
    if e.get("kind") == "UnaryExprOrTypeTraitExpr" and e.get("name") == "sizeof":
        ks = C.kids(e)
        if ks:
            x = C.strip_all(ks[0])
            nm = x.get("name") or (x.get("referencedDecl") or {}).get("name")
            return (nm or C.qtype(x), delta)
        at = (e.get("argType") or {}).get("qualType")
        if at:
            return (at, delta)
    return None


def _callers_with_literal(funcs):
    """(callee name, argument index) -> list of lengths of the string literal each
    call site passes there (None = not a literal).  A caller that forwards one of
    its own parameters is resolved through its own callers (bounded depth)."""
    raw = {}
    for file, fn in funcs:
        params = [p.get("name") for p in C.kids(fn) if p.get("kind") == "ParmVarDecl"]
        for n in C.walk(fn):
            if n.get("kind") == "CallExpr":
                cn = C.callee(n)
                if not cn:
                    continue
                for i, a in enumerate(C.call_args(n)):
                    s = C.string_value(a)
                    core = C.strip_all(a)
                    fwd = (core.get("referencedDecl") or {}).get("name")
                    if s is not None:
                        ent = ("lit", len(s))
                    elif fwd in params:
                        ent = ("fwd", fn["name"], params.index(fwd))
                    else:
                        ent = ("other",)
                    raw.setdefault((cn, i), []).append(ent)

    def resolve(name, idx, depth=0):
        out = []
        for ent in raw.get((name, idx), []):
            if ent[0] == "lit":
                out.append(ent[1])
            elif ent[0] == "fwd" and depth < 4:
                out += resolve(ent[1], ent[2], depth + 1)
            else:
                out.append(None)
        return out
    return {k: resolve(*k) for k in raw}


def _sprintf_bound(fn, call, args, literal_callers):
    dst = C.strip_all(args[0])
    fmt = C.string_value(args[1])
    if fmt is None:
        return False, "sprintf with a non-literal format"
    dt = C.qtype(dst)
    m = re.match(r"char\[(\d+)\]", dt)
    cap = int(m.group(1)) if m else None
    specs = re.findall(r"%[-0-9.]*l*([a-zA-Z%])", fmt)
    fixed = len(re.sub(r"%[-0-9.]*l*[a-zA-Z%]", "", fmt))
    total = fixed + 1
    vals = args[2:]
    for sp, a in zip([s for s in specs if s != "%"], vals):
        if sp in ("x", "X", "d", "u", "i"):
            t = C.qtype(a)
            wm = re.search(r"%0?(\d+)l*" + sp, fmt)
            core = C.strip_all(a)
            # (expr & 0xff) is at most 2 hex digits
            if core.get("kind") == "BinaryOperator" and core.get("opcode") == "&" and \
                    C.int_value(C.kids(core)[1]) == 0xff and sp in ("x", "X"):
                total += max(2, int(wm.group(1)) if wm else 0)
            else:
                total += 20
        elif sp == "s":
            core = C.strip_all(a)
            nm = (core.get("referencedDecl") or {}).get("name")
            if core.get("kind") == "CallExpr" and C.callee(core) == "strerror":
                total += 256            # assumption recorded in the evidence
            elif nm and any(p.get("name") == nm for p in C.kids(fn) if p.get("kind") == "ParmVarDecl"):
                pidx = [p.get("name") for p in C.kids(fn)
                        if p.get("kind") == "ParmVarDecl"].index(nm)
                lens = literal_callers.get((fn["name"], pidx), [])
                if not lens:
                    lens = [0]       # no call site in the Linux build
                if any(x is None for x in lens):
                    return False, (f"sprintf(\"{fmt}\") writes parameter `{nm}` into a "
                                   f"{cap}-byte buffer and some caller of {fn['name']}() "
                                   f"passes a non-literal string")
                total += max(lens)
            else:
                return False, f"sprintf(\"{fmt}\"): unbounded %s argument"
        else:
            return False, f"sprintf(\"{fmt}\"): conversion %{sp} not bounded by the checker"
    if cap is None:
        # pointer into a buffer advanced in a loop: the loop bound must be checked
        ok, why = _mac_loop_bound(fn, call, total - 1)
        return ok, why
    if total <= cap:
        return True, f"sprintf(\"{fmt}\") writes at most {total} bytes into char[{cap}]"
    return False, f"sprintf(\"{fmt}\") can write {total} bytes into char[{cap}]"


def _mac_loop_bound(fn, call, per_iter):
    """sprintf(ptr, "%02x:", ...) in `for (n = 0; n < len; ++n)` with ptr += 3:
    total = per_iter*len + 1 where len is an unsigned char field."""
    buf = None
    for n in C.walk(fn):
        if n.get("kind") == "VarDecl":
            m = re.match(r"char\[(\d+)\]", C.qtype(n))
            if m:
                buf = int(m.group(1))
    loops = [n for n in C.walk(fn) if n.get("kind") == "ForStmt"
             and any(x is call for x in C.walk(n))]
    if not loops or buf is None:
        return False, "sprintf through a moving pointer outside a recognisable bounded loop"
    # loop bound variable and its source type
    cond = [k for k in C.kids(loops[0]) if k.get("kind") == "BinaryOperator"
            and k.get("opcode") == "<"]
    if not cond:
        return False, "loop without an upper bound"
    bvar = (C.strip_all(C.kids(cond[0])[1]).get("referencedDecl") or {}).get("name")
    maxlen = None
    for n in C.walk(fn):
        if n.get("kind") == "BinaryOperator" and n.get("opcode") == "=":
            l, r = C.kids(n)
            if (C.strip_all(l).get("referencedDecl") or {}).get("name") == bvar:
                src = C.strip_all(r)
                st = C.qtype(src)
                if st in ("unsigned char", "__u8", "u_char"):
                    maxlen = 255
    step_ok = any(n.get("kind") == "CompoundAssignOperator" and n.get("opcode") == "+="
                  and C.int_value(C.kids(n)[1]) == per_iter for n in C.walk(loops[0]))
    if maxlen is None or not step_ok:
        return False, ("the MAC formatting loop is not bounded by an unsigned-char length "
                       "with a pointer step equal to the bytes written")
    need = per_iter * maxlen + 1
    if need <= buf:
        return True, (f"loop writes {per_iter} bytes per iteration, at most {maxlen} "
                      f"iterations: {need} <= char[{buf}]")
    return False, f"MAC formatting can write {need} bytes into char[{buf}]"


def _parsed_vars(fn):
    """Local variables whose address is passed to PyArg_ParseTuple."""
    out = set()
    for n in C.walk(fn):
        if n.get("kind") == "CallExpr" and C.callee(n) in ("PyArg_ParseTuple",):
            for a in C.call_args(n)[2:]:
                core = C.strip_all(a)
                if core.get("kind") == "UnaryOperator" and core.get("opcode") == "&":
                    v = C.strip_all(C.kids(core)[0])
                    nm = (v.get("referencedDecl") or {}).get("name")
                    if nm:
                        out.add(nm)
    return out


def _derived(fn, parsed):
    return set()


def _interval(fn, node, var):
    """[lo, hi] that the exiting range checks lexically before `node` leave for
    `var` on the fall-through path.  A check is an IfStmt whose then-branch
    leaves the function (return / goto) and whose condition is a disjunction of
    comparisons: on the fall-through every disjunct is false."""
    lo = hi = None
    target = node.get("_ord", 0)

    def atoms(c):
        c = C.strip(c)
        if c.get("kind") == "BinaryOperator" and c.get("opcode") == "||":
            for k in C.kids(c):
                yield from atoms(k)
        else:
            yield c
    for n in C.walk(fn):
        if n.get("kind") != "IfStmt" or n.get("_ord", 0) >= target:
            continue
        ks = C.kids(n)
        if len(ks) < 2 or not _always_exits(ks[1]):
            continue
        for a in atoms(ks[0]):
            if a.get("kind") != "BinaryOperator" or a.get("opcode") not in ("<", ">", "<=", ">="):
                continue
            l, r = C.kids(a)
            ln = (C.strip_all(l).get("referencedDecl") or {}).get("name")
            rn = (C.strip_all(r).get("referencedDecl") or {}).get("name")
            op = a.get("opcode")
            if ln == var and C.int_value(r) is not None:
                c = C.int_value(r)
            elif rn == var and C.int_value(l) is not None:
                c = C.int_value(l)
                op = {"<": ">", ">": "<", "<=": ">=", ">=": "<="}[op]
            else:
                continue
            # the atom `var op c` is FALSE on the fall-through
            if op == "<":
                lo = c if lo is None else max(lo, c)
            elif op == "<=":
                lo = c + 1 if lo is None else max(lo, c + 1)
            elif op == ">":
                hi = c if hi is None else min(hi, c)
            elif op == ">=":
                hi = c - 1 if hi is None else min(hi, c - 1)
    return lo, hi


def _always_exits(st):
    k = st.get("kind")
    if k in ("ReturnStmt", "GotoStmt"):
        return True
    if k == "CompoundStmt":
        ks = C.kids(st)
        return bool(ks) and _always_exits(ks[-1])
    return False


# packed kernel values: (function, variable) -> (bits of the field it is shifted into, why)
FIELD_BITS = {
    ("psutil_proc_ioprio_set", "ioclass"): (3, "IOPRIO_NR_CLASSES = 8: an I/O priority value keeps "
                                               "its class in the 3 bits above IOPRIO_CLASS_SHIFT"),
}


def _range_guarded(fn, node, var):
    """The operand's interval makes the signed operation overflow-free."""
    lo, hi = _interval(fn, node, var)
    if lo is None or hi is None:
        return False, (lo, hi)
    ops = C.kids(node)
    other = [o for o in ops
             if (C.strip_all(o).get("referencedDecl") or {}).get("name") != var]
    k = C.int_value(other[0]) if other else None
    big = max(abs(lo), abs(hi))
    if node.get("opcode") == "<<":
        if lo < 0 or k is None or k < 0 or k > 30:
            return False, (lo, hi)
        return (big << k) < 2 ** 31, (lo, hi)
    if k is not None:
        return big * abs(k) < 2 ** 31, (lo, hi)
    # product with another variable: both factors need their own small range
    on = (C.strip_all(other[0]).get("referencedDecl") or {}).get("name") if other else None
    if on:
        lo2, hi2 = _interval(fn, node, on)
        if lo2 is not None and hi2 is not None:
            return big * max(abs(lo2), abs(hi2)) < 2 ** 31, (lo, hi)
    return False, (lo, hi)


PAIRS = {"setmntent": "endmntent", "socket": "close", "getifaddrs": "freeifaddrs",
         "__sched_cpualloc": "__sched_cpufree", "setutent": "endutent"}


def _r6(ctx, funcs):
    from ..core.ccfg import typestate
    for file, fn in funcs:
        present = {C.callee(n) for n in C.walk(fn) if n.get("kind") == "CallExpr"}
        for name, rel in PAIRS.items():
            if name not in present:
                continue
            sites, leaks, doubles = typestate(fn, name, rel)
            key = f"{fn['name']}:{name}/{rel}"
            if leaks:
                what, line = leaks[0]
                ctx.fail("C17.R6", key, fn["_file"], line or fn.get("_line", 0), fn["name"],
                         f"{name}() result is still held at a {what} (line {line}): "
                         f"{rel}() is missing on that path (resource leak; "
                         f"{len(leaks)} such path ends)")
            elif doubles:
                ctx.fail("C17.R6", key + ":double", fn["_file"], doubles[0], fn["name"],
                         f"{rel}() can run twice on one path (line {doubles[0]})")
            else:
                ctx.ok("C17.R6", key, sample=f"{fn['name']}: {sites} {name}() site(s), every "
                       f"path to a return passes {rel}() exactly once (or the failed-"
                       f"acquisition branch)")


def _r7(ctx, funcs):
    repo = Repo(ctx.repo)
    A = Analysis(repo)
    byname = {fn["name"]: fn for _, fn in funcs}

    def build_args(fname, fmt_prefix=None):
        fn = byname.get(fname)
        if fn is None:
            raise AnalysisError(f"C function {fname} not found")
        best = None
        for n in C.walk(fn):
            if n.get("kind") == "CallExpr" and C.callee(n) == "Py_BuildValue":
                args = C.call_args(n)
                if len(args) > 3:
                    best = (fn, n, [src_text(a) for a in args[1:]])
        if best is None:
            raise AnalysisError(f"{fname}: record-building Py_BuildValue not found")
        return best

    def src_text(a):
        core = C.strip_all(a)
        if core.get("kind") == "MemberExpr":
            return core.get("name")
        if core.get("kind") == "DeclRefExpr":
            return (core.get("referencedDecl") or {}).get("name")
        ms = [x.get("name") for x in C.walk(core) if x.get("kind") == "MemberExpr"]
        return ms[0] if ms else core.get("kind")

    # users
    fn, call, cargs = build_args("psutil_users")
    # resolve PyObject locals to the utmp member they decode
    loc = {}
    for n in C.walk(fn):
        if n.get("kind") == "BinaryOperator" and n.get("opcode") == "=":
            l, r = C.kids(n)
            ln = (C.strip_all(l).get("referencedDecl") or {}).get("name")
            ms = [x.get("name") for x in C.walk(r) if x.get("kind") == "MemberExpr"
                  and x.get("name", "").startswith("ut_")]
            if ln and ms:
                loc.setdefault(ln, set()).update(ms)
    roles = [sorted(loc.get(a, {a})) for a in cargs]
    want = [["ut_user"], ["ut_line"], ["ut_host"], ["tv_sec"], ["ut_pid"]]
    I = Interp(repo, A)
    us = repo.func("_pslinux", "users")
    tu_ = canon(I.call_function(us, []))
    recs = [x for a in result_alternatives(tu_) if a[0] == "listof" for x in alternatives(a[1])
            if x[0] == "nt"]
    py_ok = False
    if recs:
        r = dict(zip(recs[0][2], recs[0][3]))
        idx = {k: pretty(v) for k, v in r.items()}
        py_ok = all(f"[{i}]" in idx[k] for i, k in enumerate(["name", "terminal", "host",
                                                                "started", "pid"]))
    norm_roles = [[x for x in r if x != "ut_tv"] or r for r in roles]
    if [r[-1:] if len(r) > 1 else r for r in norm_roles] == want and py_ok:
        ctx.ok("C17.R7", "users", sample={"C": roles, "python": "suser(name, terminal, host, "
                                                               "started, pid) <- slots 0..4"})
    else:
        ctx.fail("C17.R7", "users", fn["_file"], call["_line"], fn["name"],
                 f"users(): C builds {roles}, Python unpacks "
                 f"{ {k: v[:40] for k, v in (idx.items() if recs else [])} }; expected "
                 f"(ut_user, ut_line, ut_host, tv_sec, ut_pid) -> suser(name, terminal, "
                 f"host, started, pid)")
    hosts = [C.string_value(a) for n in C.walk(fn) if n.get("kind") == "CallExpr"
             and C.callee(n) in ("strcmp", "strncmp") for a in C.call_args(n)]
    if {":0", ":0.0"} <= set(hosts) and "localhost" in [
            C.string_value(a) for n in C.walk(fn) if n.get("kind") == "CallExpr"
            for a in C.call_args(n)]:
        ctx.ok("C17.R7", "users:localhost", sample="':0' / ':0.0' -> localhost")
    else:
        ctx.fail("C17.R7", "users:localhost", fn["_file"], fn["_line"], fn["name"],
                 "the ':0' / ':0.0' -> 'localhost' host convention changed")
    # disk_partitions
    fn, call, cargs = build_args("psutil_disk_partitions")
    loc = {}
    for n in C.walk(fn):
        if n.get("kind") == "BinaryOperator" and n.get("opcode") == "=":
            l, r = C.kids(n)
            ln = (C.strip_all(l).get("referencedDecl") or {}).get("name")
            ms = [x.get("name") for x in C.walk(r) if x.get("kind") == "MemberExpr"]
            if ln and ms:
                loc[ln] = ms[0]
    roles = [loc.get(a, a) for a in cargs]
    dp = repo.func("_pslinux", "disk_partitions")
    un = [st for st in ast.walk(dp.node) if isinstance(st, ast.Assign)
          and isinstance(st.targets[0], ast.Tuple) and dotted(st.value) == "partition"]
    names = [dotted(e) for e in un[0].targets[0].elts] if un else []
    ntc = [c for c in calls_in(dp.node) if dotted(c.func) == "_common.sdiskpart"]
    nargs = [dotted(a) for a in ntc[0].args] if ntc else []
    cfg = A.cfg(dp)
    # the row is skipped exactly when `not all and (not device or fstype not in
    # fstypes)`: decided on the truth table of the guards of the `continue`s, so the
    # spelling (nested ifs, De Morgan, two separate tests) does not matter
    from ..core.astutil import guard_truth_table
    skip = {}
    want_atoms = ["all", "device", "fstype in fstypes"]
    okshape = True
    nskip = 0
    for n in cfg.nodes:
        if n.kind == "stmt" and isinstance(n.stmt, ast.Continue):
            nskip += 1
            names_, tb = guard_truth_table([(e, p) for e, p, _ in cfg.guards(n)
                                                   if p in (True, False)])
            if tb is None or not set(names_) <= set(want_atoms):
                okshape = False
                continue
            for vals, v in tb.items():
                env = dict(zip(names_, vals))
                for full in __import__("itertools").product((False, True), repeat=3):
                    fe = dict(zip(want_atoms, full))
                    if all(fe[k] == env[k] for k in env):
                        skip[full] = skip.get(full, False) or v
    # ... and the `device` it tests is the NORMALISED one ('none' -> ''): no path of the
    # iteration leads from a filtering `continue` test to a re-binding of device
    dev_stores = [n_ for st_ in ast.walk(dp.node) if isinstance(st_, ast.Assign)
                  and any(dotted(t_) == "device" for t_ in st_.targets)
                  and not isinstance(st_.targets[0], ast.Tuple)
                  for n_ in cfg.nodes_of(st_)]
    loops_ = [l_ for l_ in ast.walk(dp.node) if isinstance(l_, ast.For)]
    heads_ = [h_ for l_ in loops_ for h_ in cfg.nodes_of(l_)]
    tests_ = [n_ for n_ in cfg.nodes if n_.kind == "test" and n_.expr is not None
              and any(dotted(x_) == "fstypes" for x_ in ast.walk(n_.expr))]
    if any(cfg.path_exists(t_, d_, avoid=heads_) for t_ in tests_ for d_ in dev_stores):
        okshape = False
        ctx.advisory("C17.R7 disk_partitions: the all=False filter tests `device` before it is "
                     "normalised ('none' -> ''): an entry whose device is the literal string "
                     "'none' passes the filter and is reported without a device")
    filt = okshape and nskip > 0 and all(
        skip.get((a, d, f), False) == ((not a) and ((not d) or (not f)))
        for a in (False, True) for d in (False, True) for f in (False, True))
    if roles == ["mnt_fsname", "mnt_dir", "mnt_type", "mnt_opts"] and \
            names == ["device", "mountpoint", "fstype", "opts"] and nargs == names and filt:
        ctx.ok("C17.R7", "disk_partitions", sample={"C": roles, "python": names,
                                                    "filter": "not all: device and fstype in fstypes"})
    else:
        ctx.fail("C17.R7", "disk_partitions", fn["_file"], call["_line"], fn["name"],
                 f"disk_partitions(): C builds {roles}, Python unpacks {names} -> "
                 f"sdiskpart{tuple(nargs)}, all=False filter present: {filt}")
    # net_if_addrs
    fn, call, cargs = build_args("psutil_net_if_addrs")
    fe = repo.func("psutil", "net_if_addrs")
    loops = [n for n in ast.walk(fe.node) if isinstance(n, ast.For)
             and isinstance(n.target, ast.Tuple) and dotted(n.iter) == "rawlist"]
    names = [dotted(e) for e in loops[0].target.elts] if loops else []
    ntc = [c for c in calls_in(fe.node) if dotted(c.func) == "_common.snicaddr"]
    nargs = [dotted(a) for a in ntc[0].args] if ntc else []
    want_c = ["ifa_name", "family", "py_address", "py_netmask", "py_broadcast", "py_ptp"]
    if cargs == want_c and names == ["name", "fam", "addr", "mask", "broadcast", "ptp"] \
            and nargs == ["fam", "addr", "mask", "broadcast", "ptp"]:
        ctx.ok("C17.R7", "net_if_addrs", sample={"C": cargs, "python": names})
    else:
        ctx.fail("C17.R7", "net_if_addrs", fn["_file"], call["_line"], fn["name"],
                 f"net_if_addrs(): C builds {cargs}, Python unpacks {names} -> "
                 f"snicaddr{tuple(nargs)}")
    # net_if_stats consumes mtu/flags/duplex/speed from the matching natives
    ns = repo.func("_pslinux", "net_if_stats")
    from ..core.astutil import deref
    ok = False
    sc = [c for c in calls_in(ns.node) if (dotted(c.func) or "").endswith("snicstats")]
    if sc and len(sc[0].args) == 5:
        a = [norm_stmt(deref(ns.node, x)).replace(" ", "") for x in sc[0].args]
        raw = [dotted(x) for x in sc[0].args]
        # duplex, speed = cext.net_if_duplex_speed(name)
        ds = [st for st in ast.walk(ns.node) if isinstance(st, ast.Assign)
              and isinstance(st.targets[0], ast.Tuple) and len(st.targets[0].elts) == 2
              and isinstance(st.value, ast.Call)
              and (dotted(st.value.func) or "").endswith("net_if_duplex_speed")]
        dn = [dotted(e) for e in ds[0].targets[0].elts] if ds else [None, None]
        loopv = [dotted(f_.target) for f_ in ast.walk(ns.node) if isinstance(f_, ast.For)]
        nm = loopv[0] if loopv else "name"
        flags_call = f"cext_posix.net_if_flags({nm})"
        ok = ("'running'in" in a[0] and flags_call in a[0]) \
            and dn[0] is not None and f"[{dn[0]}]" in a[1] \
            and raw[2] == dn[1] \
            and a[3] == f"cext_posix.net_if_mtu({nm})" \
            and a[4] == f"','.join({flags_call})"
    if ok:
        ctx.ok("C17.R7", "net_if_stats", sample="snicstats(isup, duplex, speed, mtu, flags)")
    else:
        ctx.fail("C17.R7", "net_if_stats", ns.file, ns.node.lineno, ns.qual,
                 "net_if_stats no longer feeds snicstats from net_if_mtu / net_if_flags / "
                 "net_if_duplex_speed in the documented order")
