"""C10 - nowrap=True counters never decrease while their device stays present."""

import ast

from ..core.analysis import Analysis, assigned_names, facts
from ..core.astutil import deref, enclosing_trys, handler_catches
from ..core.cfg import decompose_guard
from ..core.pyrepo import Repo, calls_in, dotted, norm_stmt

STATE = ("self.cache", "self.reminders", "self.reminder_keys")


def _touches(node):
    """Attribute nodes self.cache / self.reminders / self.reminder_keys."""
    return [n for n in ast.walk(node) if isinstance(n, ast.Attribute)
            and dotted(n) in STATE]


def _under_lock(fnode, target, lockname):
    """Is `target` lexically inside `with <lockname>:` in fnode?"""
    for w in ast.walk(fnode):
        if isinstance(w, ast.With) and any(dotted(i.context_expr) == lockname
                                           for i in w.items):
            if any(s is target for b in w.body for s in ast.walk(b)):
                return True
    return False


def run(ctx):
    repo = Repo(ctx.repo)
    A = Analysis(repo)
    cls = "_WrapNumbers"
    meths = repo.methods("_common", cls)
    ctx.require({"run", "cache_clear", "_remove_dead_reminders"} <= set(meths),
                "_WrapNumbers lost its methods")

    # ------------------------------------------------------------------- R1
    ctx.rule("C10.R1", "lock coverage: every access to cache/reminders/"
             "reminder_keys happens with the instance lock held - lexically in "
             "`with self.lock`, or in a method whose every call site is under the "
             "lock (transitively)", floor=4)
    # instance name at module level
    inst = [k for k, v in repo.mod("_common").assigns.items()
            if any(isinstance(x, ast.Call) and dotted(x.func) == cls for x in v)]
    ctx.require(inst, "module-level _WrapNumbers instance vanished")
    iname = inst[0]
    locked = {}

    def method_locked(name, seen=()):
        """All call sites of method `name` hold the lock."""
        if name in locked:
            return locked[name]
        if name in seen:
            return True
        sites = []
        for fi in repo.all_funcs():
            for c in calls_in(fi.node):
                if isinstance(c.func, ast.Attribute) and c.func.attr == name:
                    recv = dotted(c.func.value)
                    if recv == "self" and fi.cls == cls:
                        sites.append((fi, c, "self.lock"))
                    elif recv == iname:
                        sites.append((fi, c, f"{iname}.lock"))
        # references without call (wrap_numbers.cache_clear = _wn.cache_clear) are
        # bound methods handed out: they must lock internally
        handed = False
        for m in repo.modules.values():
            for n in ast.walk(m.tree):
                if isinstance(n, ast.Attribute) and n.attr == name \
                        and dotted(n.value) in (iname, "_wrap_numbers", "wrap_numbers") \
                        and not any(isinstance(p, ast.Call) and p.func is n
                                    for p in ast.walk(m.tree)):
                    handed = True
        if handed or not sites:
            locked[name] = False
            return False
        res = True
        for fi, c, lk in sites:
            if _under_lock(fi.node, c, lk):
                continue
            if fi.cls == cls and method_locked(fi.name, seen + (name,)):
                continue
            res = False
        locked[name] = res
        return res

    bad_methods = []
    for name, fs in sorted(meths.items()):
        f = fs[0]
        if name == "__init__":
            continue
        ts = _touches(f.node)
        if not ts:
            continue
        unl = [t for t in ts if not _under_lock(f.node, t, "self.lock")]
        key = f"{cls}.{name}"
        if not unl:
            ctx.ok("C10.R1", key, sample=f"{name}: {len(ts)} accesses, all in `with self.lock`")
        elif method_locked(name):
            ctx.ok("C10.R1", key, sample=f"{name}: {len(ts)} accesses; every call site "
                   f"holds the lock")
        else:
            bad_methods.append(name)
            ctx.fail("C10.R1", key, f.file, unl[0].lineno, f.qual,
                     f"{name}() touches the wrap-around history ({dotted(unl[0])}) "
                     f"without the lock: concurrent callers / cache_clear() can corrupt "
                     f"each other's history")
    wn = repo.func("_common", "wrap_numbers")
    c = [x for x in calls_in(wn.node) if isinstance(x.func, ast.Attribute)
         and x.func.attr == "run"]
    # ... or through a method of the instance that takes the lock around run()
    via_m = [x for x in calls_in(wn.node) if isinstance(x.func, ast.Attribute)
             and dotted(x.func.value) == iname and x.func.attr in meths and x.func.attr != "run"
             and any(isinstance(y.func, ast.Attribute) and y.func.attr == "run"
                     and dotted(y.func.value) == "self"
                     and _under_lock(meths[x.func.attr][0].node, y, "self.lock")
                     for y in calls_in(meths[x.func.attr][0].node))]
    if c and _under_lock(wn.node, c[0], f"{iname}.lock"):
        ctx.ok("C10.R1", "wrap_numbers", sample=f"with {iname}.lock: {iname}.run(...)")
    elif via_m and not bad_methods:
        ctx.ok("C10.R1", "wrap_numbers", sample=f"{iname}.{via_m[0].func.attr}(): with self.lock: "
                                                f"self.run(...)")
    elif c and not bad_methods:
        ctx.ok("C10.R1", "wrap_numbers", sample="run() takes the lock itself around every access")
    else:
        ctx.fail("C10.R1", "wrap_numbers", wn.file, wn.node.lineno, wn.qual,
                 "wrap_numbers() no longer runs under the instance lock")

    # ------------------------------------------------------------------- R2
    ctx.rule("C10.R2", "update rule: out = new + reminder; the reminder grows by the "
             "OLD value exactly when new < old and is written nowhere else; first "
             "call / new key return the raw tuple; the new snapshot becomes the "
             "baseline on every later call", floor=5)
    run0 = meths["run"][0]
    cfg0 = A.cfg(run0)
    params0 = [a.arg for a in run0.node.args.args if a.arg != "self"]
    ctx.require(len(params0) == 2, "_WrapNumbers.run signature changed")
    din0, nm0 = params0

    # the method holding the per-counter loop: run() itself, or a helper of the
    # class that run() calls (followed transitively) with the same two arguments
    def _has_loop(f):
        return any(isinstance(s_, ast.For) and isinstance(s_.iter, ast.Call)
                   and dotted(s_.iter.func) == "range" for s_ in ast.walk(f.node))
    run_, via = run0, None
    seen_m, todo = set(), [run0]
    while todo and not _has_loop(run_):
        f_ = todo.pop()
        if f_.name in seen_m:
            continue
        seen_m.add(f_.name)
        if _has_loop(f_):
            run_ = f_
            break
        for c_ in calls_in(f_.node):
            if isinstance(c_.func, ast.Attribute) and dotted(c_.func.value) == "self" \
                    and c_.func.attr in meths and c_.func.attr not in seen_m:
                if f_ is run0:
                    via = c_
                todo.append(meths[c_.func.attr][0])
    cfg = A.cfg(run_)
    asg = assigned_names(run_.node)
    params = [a.arg for a in run_.node.args.args if a.arg != "self"]
    ctx.require(len(params) == 2, f"_WrapNumbers.{run_.name} signature changed")
    din, nm = params
    if run_ is not run0:
        ctx.require(via is not None and [dotted(a_) for a_ in via.args] == [din0, nm0],
                    "run() does not hand (input_dict, name) to its update helper")

    def src(name):
        v = asg.get(name, [])
        return v[0].value if len(v) == 1 and isinstance(v[0], ast.Assign) else None

    # the per-counter loop
    # `for i in range(len(t))` or `for i, v in enumerate(t)`
    inner = [s for s in ast.walk(run_.node) if isinstance(s, ast.For)
             and isinstance(s.iter, ast.Call) and dotted(s.iter.func) in ("range", "enumerate")]
    ctx.require(inner, "run(): per-counter loop vanished")
    lp = inner[0]
    enum_val = None
    if dotted(lp.iter.func) == "enumerate" and isinstance(lp.target, ast.Tuple) \
            and len(lp.target.elts) == 2:
        idx = dotted(lp.target.elts[0])
        enum_val = (dotted(lp.target.elts[1]), lp.iter.args[0] if lp.iter.args else None)
    else:
        idx = dotted(lp.target)

    def rem_text(e):
        # the reminders table, also through a local alias (r = self.reminders[name])
        return norm_stmt(deref(run_.node, e))
    augs = [s for s in ast.walk(run_.node) if isinstance(s, ast.AugAssign)
            and isinstance(s.target, ast.Subscript) and "self.reminders" in rem_text(s.target.value)]
    # element writes `self.reminders[name][k] = v` (creating the per-name table,
    # `self.reminders[name] = defaultdict(int)`, is initialisation, not an update)
    writes = [s for s in ast.walk(run_.node) if isinstance(s, ast.Assign)
              and any(isinstance(t, ast.Subscript)
                      and "self.reminders" in rem_text(t.value)
                      and rem_text(t.value).replace(" ", "") != "self.reminders"
                      for t in s.targets)]
    probs = []
    newv = oldv = None
    if len(augs) != 1 or writes or not isinstance(augs[0].op, ast.Add):
        probs.append("the reminder is written other than by one `+=`")
    else:
        a = augs[0]
        oldv = dotted(a.value)
        # guard: new < old
        cm = None
        for n in cfg.nodes_of(a):
            for e, pol, _ in cfg.guards(n):
                for at, t in decompose_guard(e, pol):
                    if isinstance(at, ast.Compare) and len(at.ops) == 1:
                        l, r = dotted(at.left), dotted(at.comparators[0])
                        op = type(at.ops[0])
                        if t and ((op is ast.Lt and r == oldv) or (op is ast.Gt and l == oldv)):
                            cm = l if op is ast.Lt else r
        if cm is None:
            probs.append(f"`{norm_stmt(a)}` is not under `new < old`")
        newv = cm
        so, sn = src(oldv), src(newv) if newv else None
        if so is None or not (isinstance(so, ast.Subscript) and dotted(so.slice) == idx):
            probs.append("the value added to the reminder is not old_tuple[i]")
        else:
            ot = src(dotted(so.value))
            if ot is None or "old_dict" not in norm_stmt(ot) and "self.cache" not in norm_stmt(ot):
                pass
        if newv and enum_val and newv == enum_val[0]:
            pass        # enumerate(): the loop hands out input_tuple[i] itself
        elif newv and (sn is None or not (isinstance(sn, ast.Subscript)
                                           and dotted(sn.slice) == idx)):
            probs.append("the compared value is not input_tuple[i]")
        # reminder key is (key, i)
        rk = a.target.slice if isinstance(a.target, ast.Subscript) else None
        rks = src(dotted(rk)) if rk is not None and dotted(rk) else rk
        if not (isinstance(rks, ast.Tuple) and len(rks.elts) == 2
                and dotted(rks.elts[1]) == idx):
            probs.append("the reminder is not keyed by (device, counter index)")
    if probs:
        ctx.fail("C10.R2", "reminder-update", run_.file, lp.lineno, run_.qual, "; ".join(probs))
    else:
        ctx.ok("C10.R2", "reminder-update",
               sample=f"if {newv} < {oldv}: reminders[name][(key, i)] += {oldv}")
    # output = new + reminder
    apps = [c for c in calls_in(lp) if isinstance(c.func, ast.Attribute)
            and c.func.attr == "append"]
    good = False
    if apps and newv:
        v = apps[0].args[0]
        if isinstance(v, ast.BinOp) and isinstance(v.op, ast.Add):
            parts = {rem_text(v.left) if isinstance(v.left, ast.Subscript) else norm_stmt(v.left),
                     rem_text(v.right) if isinstance(v.right, ast.Subscript) else norm_stmt(v.right)}
            rem = rem_text(augs[0].target) if augs else "?"
            if parts == {newv, rem}:
                # unconditional in the loop body
                for n in cfg.owners(apps[0]):
                    inl = [b for e, p, b in cfg.guards(n) if b.stmt in list(ast.walk(lp))
                           and b.stmt is not lp]
                    good = not inl
    if good:
        ctx.ok("C10.R2", "output", sample=norm_stmt(apps[0]))
    else:
        ctx.fail("C10.R2", "output", run_.file, lp.lineno, run_.qual,
                 "each returned counter is not (new raw value + its reminder), "
                 "unconditionally")
    # first call
    first = False
    addc = []
    chain = [run0] + [meths[m][0] for m in sorted(seen_m) if m in meths and meths[m][0] is not run0]
    if run_ not in chain:
        chain.append(run_)
    for fx in chain:
        px = [a.arg for a in fx.node.args.args if a.arg != "self"]
        if len(px) != 2:
            continue
        cx = A.cfg(fx)
        for n in cx.nodes:
            if n.kind == "return" and dotted(n.stmt.value) == px[0]:
                g = [(norm_stmt(e).replace(" ", ""), p) for e, p, _ in cx.guards(n)]
                if (f"{px[1]}notinself.cache", True) in g:
                    first = True
                    # the snapshot is stored: self.cache[name] = input, here or in a
                    # method of the class called from here
                    def stores_snapshot(fnode, pin, pnm):
                        return any(isinstance(s_, ast.Assign)
                                   and isinstance(s_.targets[0], ast.Subscript)
                                   and dotted(s_.targets[0].value) == "self.cache"
                                   and dotted(s_.targets[0].slice) == pnm
                                   and dotted(s_.value) == pin for s_ in ast.walk(fnode))
                    if stores_snapshot(fx.node, px[0], px[1]):
                        addc = [fx.node]
                    for c in calls_in(fx.node):
                        if isinstance(c.func, ast.Attribute) and dotted(c.func.value) == "self" \
                                and c.func.attr in meths and [dotted(a_) for a_ in c.args] == px:
                            hm = meths[c.func.attr][0]
                            hp = [a_.arg for a_ in hm.node.args.args if a_.arg != "self"]
                            if len(hp) == 2 and stores_snapshot(hm.node, hp[0], hp[1]):
                                addc = [c]
    if first and addc:
        ctx.ok("C10.R2", "first-call", sample="name not in cache -> store, return raw dict")
    else:
        ctx.fail("C10.R2", "first-call", run0.file, run0.node.lineno, run0.qual,
                 "the first call for a name no longer stores the snapshot and returns "
                 "the raw values")
    # new key -> raw tuple
    # `for key in D` or `for key, tup in D.items()`
    def over_input(s_):
        it_ = s_.iter
        if dotted(it_) == din:
            return True
        return isinstance(it_, ast.Call) and isinstance(it_.func, ast.Attribute) \
            and it_.func.attr in ("items", "keys") and dotted(it_.func.value) == din
    outer = [s for s in ast.walk(run_.node) if isinstance(s, ast.For) and s is not lp
             and over_input(s)]
    nk = False
    okey = oval = None
    if outer:
        tg_ = outer[0].target
        if isinstance(tg_, ast.Tuple) and len(tg_.elts) == 2:
            okey, oval = dotted(tg_.elts[0]), dotted(tg_.elts[1])
        else:
            okey = dotted(tg_)
        for t in ast.walk(outer[0]):
            if isinstance(t, ast.Try):
                for h in t.handlers:
                    if handler_catches(h, ["KeyError"]):
                        st = [s for s in h.body if isinstance(s, ast.Assign)]
                        # the handler ends the treatment of this device: `continue`, or
                        # the accumulation sits in the try's else
                        cont = any(isinstance(s, ast.Continue) for s in h.body) or (
                            bool(t.orelse) and t is outer[0].body[-1])
                        if st and cont and isinstance(st[0].targets[0], ast.Subscript):
                            v = st[0].value
                            sv = src(dotted(v)) if dotted(v) else v
                            if (oval and dotted(v) == oval) or (
                                    sv is not None and norm_stmt(sv).replace(" ", "") ==
                                    f"{din}[{okey}]"):
                                nk = True
    if outer and not nk:
        # the same decision spelled as a membership test: `if key not in old: ...; continue`
        kname = okey
        for blk in [b_ for b_ in ast.walk(outer[0]) if isinstance(b_, ast.If)]:
            for seq in (blk.body, blk.orelse):
                st = [s_ for s_ in seq if isinstance(s_, ast.Assign)
                      and isinstance(s_.targets[0], ast.Subscript)]
                if not st or not any(isinstance(s_, ast.Continue) for s_ in seq):
                    continue
                v = st[0].value
                sv = src(dotted(v)) if dotted(v) else v
                if sv is None or norm_stmt(sv).replace(" ", "") != f"{din}[{kname}]":
                    continue
                if any(f_[0] == "in" and f_[1] == kname and f_[3] is False
                       for n_ in cfg.nodes_of(st[0]) for f_ in facts(cfg, n_)):
                    nk = True
    if nk:
        ctx.ok("C10.R2", "new-key", sample="KeyError on the old snapshot -> raw tuple")
    else:
        ctx.fail("C10.R2", "new-key", run_.file, run_.node.lineno, run_.qual,
                 "a device that was absent in the previous call does not start afresh "
                 "with its raw values")
    # baseline replaced on every non-first normal path
    st = [n for n in cfg.nodes if n.kind == "stmt" and isinstance(n.stmt, ast.Assign)
          and norm_stmt(n.stmt.targets[0]).replace(" ", "") == f"self.cache[{nm}]"
          and dotted(n.stmt.value) == din]
    rets = [n for n in cfg.nodes if n.kind == "return" and dotted(n.stmt.value) != din]
    good = bool(st) and bool(rets) and all(any(cfg.dominates(s, r) for s in st) for r in rets)
    if good:
        ctx.ok("C10.R2", "baseline", sample=f"self.cache[{nm}] = {din} dominates return new_dict")
    else:
        ctx.fail("C10.R2", "baseline", run_.file, run_.node.lineno, run_.qual,
                 "the new snapshot does not replace the baseline before returning: "
                 "later calls would compare against a stale snapshot (a second wrap "
                 "would be missed or the same wrap counted twice)")

    # ------------------------------------------------------------------- R3
    ctx.rule("C10.R3", "vanished devices are purged before the comparison; "
             "cache_clear(name) forgets all three maps for that name, cache_clear() "
             "everything", floor=3)
    rd = [c for c in calls_in(run_.node) if isinstance(c.func, ast.Attribute)
          and c.func.attr == "_remove_dead_reminders"]
    good = bool(rd) and outer and all(cfg.dominates(a, b) for a in cfg.owners(rd[0])
                                      for b in cfg.nodes_of(outer[0]))
    if not rd and run_ is not run0:
        rd = [c for c in calls_in(run0.node) if isinstance(c.func, ast.Attribute)
              and c.func.attr == "_remove_dead_reminders"]
        good = bool(rd) and outer and all(cfg0.dominates(a, b) for a in cfg0.owners(rd[0])
                                          for b in cfg0.owners(via))
    if good:
        ctx.ok("C10.R3", "purge-first", sample="_remove_dead_reminders() dominates the loop")
    else:
        ctx.fail("C10.R3", "purge-first", run_.file, run_.node.lineno, run_.qual,
                 "reminders of devices that disappeared are not purged before the new "
                 "snapshot is processed: a device that reappears would inherit stale "
                 "history")
    rdr = meths["_remove_dead_reminders"][0]
    txt = norm_stmt(rdr.node)
    # the statement that computes (old keys - new keys): an assignment, or the
    # header of the loop that iterates it directly
    gk = []
    diff = None
    for s_ in ast.walk(rdr.node):
        cand = None
        if isinstance(s_, ast.Assign):
            cand = s_.value
        elif isinstance(s_, ast.For):
            cand = s_.iter
        if cand is None:
            continue
        d_ = deref(rdr.node, cand)
        if isinstance(d_, ast.BinOp) and isinstance(d_.op, ast.Sub) and not gk:
            gk = [s_]
            diff = d_
    dels = [s for s in ast.walk(rdr.node) if isinstance(s, ast.Delete)]
    dtx = [norm_stmt(deref(rdr.node, t_)) for d in dels for t_ in d.targets]
    okd = len(dels) >= 2 and any("self.reminders" in x for x in dtx) \
        and any("self.reminder_keys" in x for x in dtx)
    rparams = [a.arg for a in rdr.node.args.args if a.arg != "self"]
    left_is_old = diff is not None and "self.cache" in norm_stmt(diff.left) \
        and rparams and rparams[0] in norm_stmt(diff.right) \
        and "self.cache" not in norm_stmt(diff.right)
    # path rule: the purge is unconditional - no exit of the function is reachable
    # without computing the vanished keys, and nothing but the two loops guards
    # the deletions (the key COUNT says nothing about which keys vanished)
    rcfg = A.cfg(rdr)
    why = None
    if gk:
        gnodes = [n for n in rcfg.nodes_of(gk[0])]
        if rcfg.path_exists(rcfg.entry, rcfg.exit, avoid=gnodes):
            early = [n for n in rcfg.nodes if n.kind == "return"
                     and not any(rcfg.dominates(g, n) for g in gnodes)]
            why = ("an exit is reachable before the vanished keys are computed"
                   + (f" (return at line {early[0].line})" if early else ""))
        loops = [s_ for s_ in ast.walk(rdr.node) if isinstance(s_, ast.For)]
        for d in dels:
            for n in rcfg.nodes_of(d):
                extra = [norm_stmt(e) for e, pol, b in rcfg.guards(n)
                         if not any(b.stmt is lp_ for lp_ in loops)]
                if extra:
                    why = f"`{norm_stmt(d)}` only happens under {extra}"
    if okd and left_is_old and why:
        ctx.fail("C10.R3", "purge-body", rdr.file, rdr.node.lineno, rdr.qual,
                 f"_remove_dead_reminders: {why}; a device that vanished while another "
                 f"appeared keeps its history and inherits it when it comes back")
    elif okd and left_is_old:
        ctx.ok("C10.R3", "purge-body", sample="gone = old keys - new keys; del reminders / reminder_keys")
    else:
        ctx.fail("C10.R3", "purge-body", rdr.file, rdr.node.lineno, rdr.qual,
                 "_remove_dead_reminders no longer deletes the reminders of "
                 "(old keys - new keys)")
    cc = meths["cache_clear"][0]
    ccfg = A.cfg(cc)
    pname = [a.arg for a in cc.node.args.args if a.arg != "self"][0]
    def receivers(c):
        # the object(s) a method is called on: itself, or - for a loop variable
        # ranging over a literal tuple/list of objects - each of them
        r = c.func.value
        if isinstance(r, ast.Name):
            for lp_ in ast.walk(cc.node):
                if isinstance(lp_, ast.For) and dotted(lp_.target) == r.id \
                        and any(x is c for x in ast.walk(lp_)):
                    it_ = deref(cc.node, lp_.iter)
                    if isinstance(it_, (ast.Tuple, ast.List)):
                        return {dotted(e_) for e_ in it_.elts}
        return {dotted(r)}
    clears = {r for c in calls_in(cc.node)
              if isinstance(c.func, ast.Attribute) and c.func.attr == "clear" for r in receivers(c)}
    pops = {r for c in calls_in(cc.node)
            if isinstance(c.func, ast.Attribute) and c.func.attr == "pop"
            and c.args and dotted(c.args[0]) == pname for r in receivers(c)}
    if clears == set(STATE) and pops == set(STATE):
        ctx.ok("C10.R3", "cache_clear", sample="clear()/pop(name) on all three maps")
    else:
        ctx.fail("C10.R3", "cache_clear", cc.file, cc.node.lineno, cc.qual,
                 f"cache_clear leaves history behind: clears {sorted(clears)}, pops "
                 f"{sorted(pops)} (all of {list(STATE)} required)")

    # ------------------------------------------------------------------- R4
    ctx.rule("C10.R4", "name table: the two public functions pass distinct constant "
             "names; each cache_clear partial binds the name its function passes; "
             "nowrap=False bypasses the wrapper", floor=4)
    names = {}

    def const_of(e):
        # a literal, or a module-level name bound once to a literal
        if isinstance(e, ast.Constant):
            return e.value
        if isinstance(e, ast.Name):
            vs_ = repo.mod("psutil").assigns.get(e.id, [])
            if len(vs_) == 1 and isinstance(vs_[0], ast.Constant):
                return vs_[0].value
        return None
    for fn in ("disk_io_counters", "net_io_counters"):
        f = repo.func("psutil", fn)
        fcfg = A.cfg(f)
        wc = [c for c in calls_in(f.node) if dotted(c.func) == "_wrap_numbers"]
        ctx.require(wc, f"{fn}: _wrap_numbers call vanished")
        c = wc[0]
        nmv = const_of(c.args[1]) if len(c.args) > 1 else None
        names[fn] = nmv
        guarded = all(("truthy", "nowrap", True) in facts(fcfg, n) for n in fcfg.owners(c))
        raw = dotted(c.args[0]) if c.args else None
        if nmv and guarded and raw:
            ctx.ok("C10.R4", f"{fn}:wrap-call", sample=f"if nowrap: {norm_stmt(c)}")
        else:
            ctx.fail("C10.R4", f"{fn}:wrap-call", f.file, c.lineno, f.qual,
                     "the wrap-around correction is not applied exactly when nowrap is "
                     "true, with a constant history name")
        # partial
        m = repo.mod("psutil")
        part = None
        for st in m.tree.body:
            if isinstance(st, ast.Assign) and dotted(st.targets[0]) == f"{fn}.cache_clear":
                part = st.value
        pok = isinstance(part, ast.Call) and dotted(part.func) == "functools.partial" \
            and len(part.args) == 2 and dotted(part.args[0]) == "_wrap_numbers.cache_clear" \
            and const_of(part.args[1]) is not None and const_of(part.args[1]) == nmv
        if pok:
            ctx.ok("C10.R4", f"{fn}:cache_clear", sample=norm_stmt(part))
        else:
            ctx.fail("C10.R4", f"{fn}:cache_clear", m.rel, getattr(part, "lineno", 0),
                     "<module>", f"{fn}.cache_clear does not clear the history named "
                     f"{nmv!r} that {fn}() uses")
    if len(set(names.values())) == 2 and None not in names.values():
        ctx.ok("C10.R4", "distinct-names", sample=names)
    else:
        ctx.fail("C10.R4", "distinct-names", "psutil/__init__.py", 0, "<module>",
                 f"disk and network counters share a history name: {names}")
    # the history is forgotten only at the caller's request: nothing inside the
    # library calls a cache_clear of the wrapper (a nowrap=False call, an error path
    # or a refresh that cleared it would let the next nowrap=True figure drop)
    callers = []
    for mn_ in ("psutil", "_common", "_pslinux"):
        for g_ in repo.all_funcs(mn_):
            for c_ in ast.walk(g_.node):
                if isinstance(c_, ast.Call) and isinstance(c_.func, ast.Attribute) \
                        and c_.func.attr == "cache_clear" \
                        and (dotted(c_.func.value) or "").split(".")[-1] in (
                            "disk_io_counters", "net_io_counters", "wrap_numbers",
                            "_wrap_numbers", "self"):
                    if dotted(c_.func.value) == "self" and g_.cls != "_WrapNumbers":
                        continue
                    if g_.cls == "_WrapNumbers" and g_.name == "cache_clear":
                        continue
                    callers.append((g_, c_))
    if callers:
        for g_, c_ in callers:
            ctx.fail("C10.R4", f"internal-clear:{g_.fq}", g_.file, c_.lineno, g_.qual,
                     f"`{norm_stmt(c_)}` inside {g_.qual}(): the nowrap history is dropped "
                     f"without the user asking, so the next nowrap=True value can be lower "
                     f"than the previous one")
    else:
        ctx.ok("C10.R4", "internal-clear", nontrivial=False,
               sample="no library function calls a wrap_numbers cache_clear")
    ctx.assume("raw counters are non-negative; with out = I + R and R' = R + O exactly "
               "when I < O: out' - out = I' - I >= 0 if no wrap, and = I' >= 0 after a "
               "wrap (inductive step documented in DESIGN.md)")
    ctx.assume("thread schedules are not explored beyond lock coverage")
    return ("Lock-coverage analysis of the three history maps (lexical `with` or "
            "call sites under the lock), structural match of the update rule "
            "(reminder += old under new < old; out = new + reminder; baseline "
            "replaced), purge-before-compare dominance, cache_clear coverage and the "
            "public name table.",
            "lock-coverage / shared-state discipline, CFG dominance, rule-template match")


def src_of(fnode, e):
    n = dotted(e)
    if not n:
        return e
    for s in ast.walk(fnode):
        if isinstance(s, ast.Assign) and dotted(s.targets[0]) == n:
            return s.value
    return e
