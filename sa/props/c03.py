"""C03 - a process vanishing or being denied mid-call yields only psutil errors."""

import ast

from ..core.analysis import Analysis, assigned_names, facts
from ..core.astutil import handler_catches, method_calls, path_templates
from ..core.cfg import handler_names
from ..core.escape import OS_FAMILY, Escape, Exc, State
from ..core.pyrepo import Repo, calls_in, dotted, norm_stmt

ARMED = ("FileNotFoundError", "ProcessLookupError", "PermissionError")


def frontend_proc_attrs(repo, A, plat="linux"):
    """Names X used as self._proc.X in live code of psutil/__init__.py."""
    out = set()
    for fi in repo.all_funcs("psutil"):
        if A.defined(fi, plat) is False:
            continue
        dead = A.dead_nodes(fi, plat)
        for n in ast.walk(fi.node):
            if isinstance(n, ast.Attribute) and dotted(n.value) == "self._proc" \
                    and id(n) not in dead:
                out.add(n.attr)
    return out


def run(ctx):
    repo = Repo(ctx.repo)
    A = Analysis(repo)
    E = Escape(repo, A, "linux")
    pm = "_pslinux"

    # ------------------------------------------------------------------- R1
    ctx.rule("C03.R1", "translation coverage: no FileNotFoundError / "
             "ProcessLookupError / PermissionError raised by a per-process OS "
             "access escapes a Linux Process method (platform layer or public "
             "front end) untranslated", floor=60)
    used = frontend_proc_attrs(repo, A)
    methods = repo.methods(pm, "Process")
    ctx.require(len(methods) > 35, "_pslinux.Process lost most of its methods")
    targets = []
    for name, fs in sorted(methods.items()):
        if name.startswith("__"):
            continue
        if name in used or not name.startswith("_"):
            for f in fs:
                if A.defined(f, "linux") is not False:
                    targets.append(f)
    for name in sorted(used - set(methods)):
        # attribute may be a class-level alias (memory_full_info = memory_info)
        t = repo._method(pm, "Process", name)
        ctx.require(t or name in ("_name", "pid", "_ppid"),
                    f"front end uses self._proc.{name} which _pslinux.Process lacks")
    for f in targets:
        es = E.escapes(f)
        bad = sorted({x for x in es if x.cls in ARMED and x.origin in ("process", "param")})
        key = f"{pm}:{f.qual}"
        if bad:
            for x in bad:
                ctx.fail("C03.R1", f"{key}:{x.cls}@{x.site.split(':', 2)[2]}", f.file,
                         f.node.lineno, f.qual,
                         f"{x.cls} from the per-process access at {x.site} escapes "
                         f"{f.qual}() untranslated (no wrap_exceptions frame / local "
                         f"handler on that path)")
        else:
            raw = E.escapes(f, decorated=False)
            nsites = len({x.site for x in raw if x.origin in ("process",)})
            ctx.ok("C03.R1", key, nontrivial=nsites > 0 or bool(es),
                   sample={"method": f.fq, "escapes": sorted({x.cls for x in es})})
    # public front end
    nfront = 0
    for name, fs in sorted(repo.methods("psutil", "Process").items()):
        if name.startswith("_") and name not in ("__init__", "__str__", "__eq__",
                                                 "__hash__", "_send_signal"):
            continue
        for f in fs:
            if A.defined(f, "linux") is False:
                continue
            es = E.escapes(f)
            nfront += 1
            bad = sorted({x for x in es if x.cls in ARMED and x.origin in ("process", "param")})
            key = f"psutil:{f.qual}"
            if bad:
                for x in bad:
                    ctx.fail("C03.R1", f"{key}:{x.cls}@{x.site.split(':', 2)[2]}", f.file,
                             f.node.lineno, f.qual,
                             f"{x.cls} from {x.site} escapes psutil.Process.{name}()")
            else:
                ctx.ok("C03.R1", key,
                       sample={"method": f.fq, "escapes": sorted({x.cls for x in es})},
                       nontrivial=bool(es))
    proc_sites = sorted(k for k, v in E.sites.items() if v == "process")
    ctx.stat("per_process_access_sites", len(proc_sites))
    ctx.stat("system_access_sites", len([1 for v in E.sites.values() if v == "system"]))
    ctx.stat("call_sites_resolved", E.resolved)
    ctx.stat("call_sites_unresolved", E.unresolved)
    ctx.stat("functions_analysed", len(E.memo))
    ctx.require(len(proc_sites) >= 30,
                f"only {len(proc_sites)} per-process OS access sites found (>= 30 expected)")

    # ------------------------------------------------------------------- R2
    ctx.rule("C03.R2", "the translator itself: PermissionError -> AccessDenied; "
             "ProcessLookupError -> ZombieProcess | NoSuchProcess; "
             "FileNotFoundError -> ZombieProcess | NoSuchProcess | re-raise only "
             "under a successful liveness probe; other OSError unchanged; all carry "
             "(self.pid, self._name)", floor=5)
    w = repo.func(pm, "wrap_exceptions.wrapper")
    oracle = {
        "PermissionError": {("AccessDenied", "explicit")},
        "ProcessLookupError": {("ZombieProcess", "explicit"), ("NoSuchProcess", "explicit")},
        "FileNotFoundError": {("ZombieProcess", "explicit"), ("NoSuchProcess", "explicit"),
                              ("FileNotFoundError", "alive")},
        "OSError": {("OSError", "process")},
    }
    for cls, want in oracle.items():
        st = State(w, fun_raises={Exc(cls, "process", "probe")})
        got = {(x.cls, x.origin) for x in E._body(w, st)}
        if got == want:
            ctx.ok("C03.R2", f"translate:{cls}", sample={cls: sorted(map(str, got))})
        else:
            ctx.fail("C03.R2", f"translate:{cls}", w.file, w.node.lineno, w.qual,
                     f"a {cls} from the wrapped method comes out as "
                     f"{sorted(got)}; contract: {sorted(want)}")
    # constructor arguments
    cfgw = A.cfg(w)
    asg = assigned_names(w.node)
    probs = []
    nr = 0
    for n in cfgw.nodes:
        if n.kind != "raise" or not isinstance(n.stmt.exc, ast.Call):
            continue
        c = n.stmt.exc
        cn = dotted(c.func)
        if cn not in ("AccessDenied", "NoSuchProcess", "ZombieProcess"):
            continue
        nr += 1
        a = [dotted(x) for x in c.args]
        srcs = []
        for x in a[:2]:
            if x in ("self.pid", "self._name"):
                srcs.append(x)
            else:
                v = [_val(s, x) for s in asg.get(x, [])]
                srcs.append(v[0] if len(v) == 1 else None)
        if srcs[:2] != ["self.pid", "self._name"]:
            probs.append(f"{cn}({', '.join(map(str, a))}) does not carry "
                         f"(self.pid, self._name)")
    if probs or nr < 3:
        ctx.fail("C03.R2", "translate:args", w.file, w.node.lineno, w.qual,
                 "; ".join(probs) or "translator raises vanished")
    else:
        ctx.ok("C03.R2", "translate:args", sample="(pid, name) = (self.pid, self._name)")
    # the liveness probe: what is looked at to decide that an ENOENT is not the
    # process vanishing.  /proc/<pid> itself (the directory) outlives its entries
    # while the task is being torn down (psutil issue 2418), so the probe must look
    # at an entry below it - <pid>/stat - not at the directory
    probes = [c for c in ast.walk(w.node) if isinstance(c, ast.Call)
              and dotted(c.func) in ("os.path.exists", "os.path.isfile", "os.path.lexists",
                                     "os.stat", "os.access", "pid_exists")]
    pt = set()
    for c in probes:
        if c.args:
            pt |= {t_ for t_ in path_templates(repo, w, c.args[0])}
    leafs = {t_.rsplit("}", 1)[-1] for t_ in pt if "{" in t_}
    if pt and leafs <= {"/stat", "/status"}:
        ctx.ok("C03.R2", "liveness-probe", sample=sorted(pt))
    else:
        ctx.fail("C03.R2", "liveness-probe", w.file, w.node.lineno, w.qual,
                 f"after ENOENT the translator decides the process is alive by probing "
                 f"{sorted(pt) or 'nothing'}: the /proc/<pid> directory still exists while the "
                 f"task is torn down, so every query would leak a bare FileNotFoundError "
                 f"instead of NoSuchProcess; the probe must be <pid>/stat")
    # the zombie probe
    iz = repo.func(pm, "Process._is_zombie")
    rz = repo.func(pm, "Process._raise_if_zombie")
    rets = [r for r in ast.walk(iz.node) if isinstance(r, ast.Return)]
    txt = [norm_stmt(r.value).replace(" ", "") for r in rets]
    zok = any("==b'Z'" in t or '==b"Z"' in t for t in txt) and "False" in txt
    uses_rfind = any(isinstance(c.func, ast.Attribute) and c.func.attr == "rfind"
                     for c in calls_in(iz.node))
    rzok = any(isinstance(s, ast.Raise) and isinstance(s.exc, ast.Call)
               and dotted(s.exc.func) == "ZombieProcess" for s in ast.walk(rz.node)) \
        and bool(method_calls(rz.node, "_is_zombie", "self"))
    if zok and uses_rfind and rzok:
        ctx.ok("C03.R2", "zombie-probe", sample="state letter after the last ')' == 'Z'")
    else:
        ctx.fail("C03.R2", "zombie-probe", iz.file, iz.node.lineno, iz.qual,
                 "the zombie probe no longer reads the state letter after the last ')' "
                 "of <pid>/stat (or no longer answers False when the file is gone)")

    # ------------------------------------------------------------------- R3
    ctx.rule("C03.R3", "partial-failure discipline: where a loop swallows "
             "ENOENT/ESRCH per entry (threads, open_files, socket inodes), every "
             "path from the swallowing handler to a normal return passes "
             "_raise_if_not_alive()", floor=3)
    _r3(ctx, repo, A, pm)

    # ------------------------------------------------------------------- R8
    ctx.rule("C03.R8", "sub-objects of a LIVE process come and go: every access to a "
             "per-descriptor or per-thread entry (<pid>/fd/<n>, <pid>/fdinfo/<n>, "
             "<pid>/task/<tid>/...) - opening it, reading what was opened, resolving "
             "the link - sits in a try that catches ENOENT and ESRCH locally (the "
             "translator would re-raise them bare, the process being alive)", floor=4)
    _r8(ctx, repo, A, pm)

    # ------------------------------------------------------------------- R4
    ctx.rule("C03.R4", "zombie-empty guards: a 'null' value ([] or the readlink "
             "fallback) for a file the kernel leaves empty is returned only after "
             "_raise_if_zombie()", floor=3)
    _r4(ctx, repo, A, pm)

    # ------------------------------------------------------------------- R5
    ctx.rule("C03.R5", "front-end policy: process_iter() lets no psutil error out "
             "(NoSuchProcess per PID -> dropped); ppid_map skips vanished PIDs; "
             "is_running() answers instead of raising", floor=3)
    pi = repo.func("psutil", "process_iter")
    es = E.escapes(pi)
    bad = sorted({x.cls for x in es if x.cls in ("NoSuchProcess", "ZombieProcess")})
    if bad:
        ctx.fail("C03.R5", "process_iter", pi.file, pi.node.lineno, pi.qual,
                 f"{bad} can escape process_iter(): a process vanishing while iterating "
                 f"is no longer skipped silently")
    else:
        ctx.ok("C03.R5", "process_iter", sample="NoSuchProcess/ZombieProcess never escape")
    pmf = repo.func(pm, "ppid_map")
    es = E.escapes(pmf)
    bad = sorted({(x.cls, x.site) for x in es
                  if x.cls in ("FileNotFoundError", "ProcessLookupError")
                  and x.origin == "process"})
    if bad:
        ctx.fail("C03.R5", "ppid_map", pmf.file, pmf.node.lineno, pmf.qual,
                 f"a PID vanishing while the table is built raises {bad}")
    else:
        ctx.ok("C03.R5", "ppid_map", sample="ENOENT/ESRCH per PID -> skipped")
    ir = repo.func("psutil", "Process.is_running")
    es = E.escapes(ir)
    bad = sorted({x.cls for x in es if x.cls in ("NoSuchProcess", "ZombieProcess")})
    if bad:
        ctx.fail("C03.R5", "is_running", ir.file, ir.node.lineno, ir.qual,
                 f"is_running() can raise {bad}")
    else:
        ctx.ok("C03.R5", "is_running", sample="ZombieProcess -> True, NoSuchProcess -> False")
    # gone is remembered
    hs = [h for t in ast.walk(ir.node) if isinstance(t, ast.Try) for h in t.handlers]
    nsp = [h for h in hs if (handler_names(h) or set()) == {"NoSuchProcess"}]
    zp = [h for h in hs if (handler_names(h) or set()) == {"ZombieProcess"}]
    order_ok = bool(nsp and zp) and hs.index(zp[0]) < hs.index(nsp[0])
    rz = zp and any(isinstance(s, ast.Return) and isinstance(s.value, ast.Constant)
                    and s.value.value is True for s in zp[0].body)
    rn = nsp and any(isinstance(s, ast.Return) and isinstance(s.value, ast.Constant)
                     and s.value.value is False for s in nsp[0].body) \
        and any(isinstance(s, ast.Assign) and dotted(s.targets[0]) == "self._gone"
                for s in nsp[0].body)
    if order_ok and rz and rn:
        ctx.ok("C03.R5", "is_running:handlers", sample="except ZombieProcess: True; except "
               "NoSuchProcess: _gone=True; False")
    else:
        ctx.fail("C03.R5", "is_running:handlers", ir.file, ir.node.lineno, ir.qual,
                 "is_running() handler table changed: ZombieProcess must answer True "
                 "(before the NoSuchProcess handler), NoSuchProcess must set _gone and "
                 "answer False")

    # ------------------------------------------------------------------- R6
    ctx.rule("C03.R6", "errors carry the OBJECT's pid: inside a Process method, "
             "building another Process (Process(x)) or querying one (a value that came "
             "from Process(x) / .parent()) happens in a try that catches NoSuchProcess, "
             "so a relative vanishing mid-call cannot surface as NoSuchProcess(<its "
             "pid>) from a query on a live process", floor=5)
    _r6(ctx, repo, A)

    # ------------------------------------------------------------------- R7
    ctx.rule("C03.R7", "a gone process is not answered from a cache: the per-object "
             "caches that oneshot()/as_dict() activate are deactivated in a `finally` "
             "around the yield, so an exception (e.g. NoSuchProcess) leaving the block "
             "cannot leave them active", floor=1)
    from .c16 import oneshot_cleanup_in_finally
    okc, where, one = oneshot_cleanup_in_finally(repo)
    if okc:
        ctx.ok("C03.R7", "oneshot-cleanup", sample="cache_deactivate / oneshot_exit in finally")
    else:
        ctx.fail("C03.R7", "oneshot-cleanup", one.file,
                 where.lineno if where is not None else one.node.lineno, one.qual,
                 "the caches activated by oneshot() are not deactivated in a `finally` "
                 "around the yield: if the process vanishes inside the block (or inside "
                 "as_dict()), every later query on the object keeps returning the values "
                 "read before, instead of raising NoSuchProcess")

    # ------------------------------------------------------------------- R9
    ctx.rule("C03.R9", "a public Process method does not absorb NoSuchProcess raised by a "
             "query on ITS OWN process: a try whose body queries self.<method>() and "
             "whose clause covers NoSuchProcess (NoSuchProcess / Error / Exception / "
             "bare) without re-raising is one of the confirmed instances, identified by "
             "(classes caught, queries made), not by position or name", floor=3)
    _r9(ctx, repo)

    ctx.assume("fault model as stated: errno failures (ENOENT/ESRCH/EACCES/EPERM) at "
               "any per-process OS access, and zombie state; malformed/truncated "
               "kernel text (parse errors) and system-wide file failures are outside it")
    ctx.assume("the bare re-raise in wrap_exceptions is reached only when "
               "<procfs>/<pid>/stat still exists (process alive); under the fault "
               "model (process removed => every later access fails) it is unreachable")
    ctx.assume("'every later query raises NoSuchProcess' needs the kernel and is not decided")
    return ("Exception-escape fix-point over the resolved call graph with real "
            "handler semantics (class hierarchy, order, bare re-raise, decorators "
            "analysed as wrappers): every per-process OS access site reachable from "
            "each Linux Process method is covered by a translator; the translator's "
            "own table is evaluated class by class; swallow-and-continue loops are "
            "checked path-sensitively for the liveness re-check.",
            "exception-escape analysis (effect fix-point) + path-sensitive CFG dataflow")


def _val(st, name):
    if isinstance(st, ast.Assign):
        t = st.targets[0]
        if isinstance(t, ast.Tuple) and isinstance(st.value, ast.Tuple):
            for a, b in zip(t.elts, st.value.elts):
                if dotted(a) == name:
                    return dotted(b)
        if dotted(t) == name:
            return dotted(st.value)
    return None


# --------------------------------------------------------------------------- R3
def _swallowing_handlers(fnode):
    """except clauses naming FileNotFoundError/ProcessLookupError inside a loop
    whose body does not always re-raise/return."""
    out = []

    def rec(body, inloop):
        for st in body:
            if isinstance(st, (ast.FunctionDef, ast.AsyncFunctionDef, ast.ClassDef)):
                continue
            if isinstance(st, ast.Try):
                for h in st.handlers:
                    names = handler_names(h) or set()
                    if inloop and names & {"FileNotFoundError", "ProcessLookupError"}:
                        last = h.body[-1] if h.body else None
                        if not isinstance(last, (ast.Raise, ast.Return)):
                            out.append(h)
                    rec(h.body, inloop)
                rec(st.body, inloop)
                rec(st.orelse, inloop)
                rec(st.finalbody, inloop)
            elif isinstance(st, (ast.For, ast.While)):
                rec(st.body, True)
                rec(st.orelse, inloop)
            else:
                for f in ("body", "orelse"):
                    b = getattr(st, f, None)
                    if isinstance(b, list):
                        rec(b, inloop)
    rec(fnode.body, False)
    return out


def _leaks(A, repo, fi, plat, memo, depth=0):
    """Does fi have a normal exit reachable with (swallowed, not re-checked)?
    State-set dataflow: (flag values, swallowed, rechecked)."""
    key = id(fi.node)
    if key in memo:
        return memo[key]
    memo[key] = False
    if depth > 6:
        return False
    cfg = A.cfg(fi)
    hs = _swallowing_handlers(fi.node) if fi.module == "_pslinux" else []
    hnodes = {n for h in hs for n in cfg.nodes_of(h)}
    # flags: names set to True inside a swallowing handler (or in the branch
    # where a per-entry failure is noted)
    flags = set()
    for st in ast.walk(fi.node):
        if isinstance(st, ast.Assign) and isinstance(st.value, ast.Constant) \
                and st.value.value is True and isinstance(st.targets[0], ast.Name):
            if any(st in list(ast.walk(h)) for h in hs):
                flags.add(st.targets[0].id)
    # also treat as swallowing: calls to callees that leak
    callee_leak = set()
    for c, tg in A.calls(fi, plat):
        for t in tg:
            if t[0] == "func" and t[1].node is not fi.node:
                if _leaks(A, repo, t[1], plat, memo, depth + 1):
                    for n in cfg.owners(c):
                        callee_leak.add(n)
    if not hnodes and not callee_leak:
        memo[key] = False
        return False

    def recheck(n):
        if n.kind not in ("stmt", "return"):
            return False
        return any(isinstance(c.func, ast.Attribute) and c.func.attr == "_raise_if_not_alive"
                   for c in calls_in(n.stmt))

    # worklist over (node, state)
    init = (frozenset(), False, False)
    seen = set()
    work = [(cfg.entry, init)]
    leak = False
    while work:
        n, st = work.pop()
        if (n, st) in seen:
            continue
        seen.add((n, st))
        fl, sw, rc = st
        fld = dict(fl)
        if n in hnodes or n in callee_leak:
            sw = True
        if recheck(n):
            rc = True
        if n.kind == "stmt" and isinstance(n.stmt, ast.Assign) \
                and isinstance(n.stmt.targets[0], ast.Name) \
                and n.stmt.targets[0].id in flags:
            v = n.stmt.value
            fld[n.stmt.targets[0].id] = v.value if isinstance(v, ast.Constant) else None
        if n.kind == "branch" and isinstance(n.expr, ast.Name) and n.expr.id in flags \
                and n.polarity in (True, False):
            known = fld.get(n.expr.id, "unset")
            if known in (True, False) and known != n.polarity:
                continue          # infeasible
        if n is cfg.exit:
            if sw and not rc:
                leak = True
            continue
        ns = (frozenset(fld.items()), sw, rc)
        for s, lab in n.succ:
            if s is cfg.raise_exit:
                continue
            # the re-check raising leaves through an exception edge: fine
            work.append((s, ns))
    memo[key] = leak
    return leak


def _r3(ctx, repo, A, pm):
    memo = {}
    n = 0
    for name, fs in sorted(repo.methods(pm, "Process").items()):
        for f in fs:
            has = bool(_swallowing_handlers(f.node))
            leak = _leaks(A, repo, f, "linux", memo)
            reaches = has
            if not has:
                # via callee (NetConnections.get_proc_inodes)
                for c, tg in A.calls(f, "linux"):
                    for t in tg:
                        if t[0] == "func" and _reaches_swallow(A, t[1], set()):
                            reaches = True
            if not reaches:
                continue
            n += 1
            if leak:
                ctx.fail("C03.R3", f"{pm}:{f.qual}", f.file, f.node.lineno, f.qual,
                         f"{f.qual}() can return normally after swallowing a per-entry "
                         f"ENOENT/ESRCH without calling _raise_if_not_alive(): a process "
                         f"that vanished mid-scan yields a partial result instead of "
                         f"NoSuchProcess")
            else:
                ctx.ok("C03.R3", f"{pm}:{f.qual}",
                       sample=f"{f.qual}: swallow -> _raise_if_not_alive() on every "
                              f"normal path")
    ctx.require(n >= 3, f"only {n} swallow-and-continue scanners found (threads, "
                f"open_files, net_connections expected)")


def _reaches_swallow(A, fi, seen):
    if id(fi.node) in seen or fi.module != "_pslinux":
        return False
    seen.add(id(fi.node))
    if _swallowing_handlers(fi.node):
        return True
    for c, tg in A.calls(fi, "linux"):
        for t in tg:
            if t[0] == "func" and _reaches_swallow(A, t[1], seen):
                return True
    return False


# --------------------------------------------------------------------------- R4
def _r4(ctx, repo, A, pm):
    found = 0
    for name, fs in sorted(repo.methods(pm, "Process").items()):
        for f in fs:
            cfg = A.cfg(f)
            for n in cfg.nodes:
                if n.kind != "return" or n.stmt.value is None:
                    continue
                v = n.stmt.value
                empty = (isinstance(v, (ast.List, ast.Dict, ast.Tuple)) and not
                         (getattr(v, "elts", None) or getattr(v, "keys", None))) \
                    or (isinstance(v, ast.Name) and v.id == "fallback")
                if not empty:
                    continue
                fs_ = facts(cfg, n)
                emptiness = [x for x in fs_ if x[0] == "truthy" and x[2] is False] \
                    + [x for x in fs_ if isinstance(v, ast.Name) and x[0] == "isnone"]
                if not emptiness and not isinstance(v, ast.Name):
                    continue
                found += 1
                zc = [m for c in method_calls(f.node, "_raise_if_zombie", "self")
                      for m in cfg.owners(c)]
                good = any(cfg.dominates(z, n) for z in zc)
                key = f"{f.qual}:return {norm_stmt(v)}"
                if good:
                    ctx.ok("C03.R4", key, sample=f"{f.qual}: _raise_if_zombie() dominates "
                           f"`return {norm_stmt(v)}`")
                else:
                    ctx.fail("C03.R4", key, f.file, n.line, f.qual,
                             f"`return {norm_stmt(v)}` on the empty-content branch is not "
                             f"preceded by _raise_if_zombie(): a zombie would get a "
                             f"'null' answer instead of ZombieProcess")
    ctx.require(found >= 3, f"only {found} empty-content returns found (cmdline, "
                f"memory_maps, _readlink fallback expected)")


def _r6(ctx, repo, A):
    from ..core.astutil import enclosing_trys, handler_catches
    n = 0
    for fi in repo.all_funcs("psutil"):
        if fi.cls != "Process" or fi.parent is not None:
            continue
        if fi.name in ("__init__", "_init"):
            continue
        foreign = set()
        # fix-point: names bound to another Process object
        changed = True
        while changed:
            changed = False
            for st in ast.walk(fi.node):
                if not isinstance(st, ast.Assign) or not isinstance(st.value, ast.Call):
                    continue
                c = st.value
                is_ctor = dotted(c.func) == "Process"
                is_parent = isinstance(c.func, ast.Attribute) and c.func.attr == "parent"
                if is_ctor or is_parent:
                    for t in st.targets:
                        if isinstance(t, ast.Name) and t.id not in foreign:
                            foreign.add(t.id)
                            changed = True
        sites = []
        for c in calls_in(fi.node):
            if dotted(c.func) == "Process":
                # Process(self.pid) is the object's own pid: its NoSuchProcess is about it
                if c.args and dotted(c.args[0]) in ("self.pid", "self._pid"):
                    continue
                sites.append((c, f"Process({norm_stmt(c.args[0]) if c.args else ''})"))
            elif isinstance(c.func, ast.Attribute) and isinstance(c.func.value, ast.Name) \
                    and c.func.value.id in foreign and c.func.value.id != "self":
                sites.append((c, norm_stmt(c)))
        for c, what in sites:
            n += 1
            key = f"{fi.qual}:{what}"
            trys = enclosing_trys(fi.node, c)
            caught = any(handler_catches(h, ["NoSuchProcess"]) for t in trys for h in t.handlers)
            if caught:
                ctx.ok("C03.R6", key, sample=f"{fi.qual}: `{what}` under except NoSuchProcess")
            else:
                ctx.fail("C03.R6", key, fi.file, c.lineno, fi.qual,
                         f"`{what}` concerns ANOTHER process and is not inside a try "
                         f"catching NoSuchProcess: if that process vanishes mid-call, "
                         f"{fi.name}() on a live process raises NoSuchProcess carrying the "
                         f"other process's pid")
    ctx.require(n >= 5, f"only {n} foreign-process sites found in psutil.Process")


SUBOBJ = ("/fd/", "/fdinfo/", "/task/")
ACCESS = {"open_binary", "open_text", "open", "readlink", "os.readlink", "bcat", "cat",
          "os.stat", "os.lstat", "os.listdir", "os.scandir"}


# (classes caught, self-queries in the try body) -> why absorbing is right there
R9_CONFIRMED = {
    (("NoSuchProcess",), ("name", "status")):
        "__str__: describes a gone process as terminated instead of raising",
    (("Error",), ("status",)):
        "__eq__: zombie test before comparing identities; any failure -> not equal path",
    (("NoSuchProcess", "ZombieProcess"), ("create_time",)):
        "children(): the caller's create_time is read inside the per-child try; "
        "C05.R5 decides what is skipped",
}


def _r9(ctx, repo):
    covers = {"NoSuchProcess", "Error", "Exception", "BaseException"}
    queries = None
    found = 0
    procs = [f for f in repo.all_funcs("psutil") if f.cls == "Process" and f.parent is None]
    queries = {f.name for f in procs if not f.name.startswith("_")}
    for f in procs:
        for tr in [n for n in ast.walk(f.node) if isinstance(n, ast.Try)]:
            q = sorted({c.func.attr for b in tr.body for c in ast.walk(b)
                        if isinstance(c, ast.Call) and isinstance(c.func, ast.Attribute)
                        and isinstance(c.func.value, ast.Name) and c.func.value.id == "self"
                        and c.func.attr in queries})
            if not q:
                continue
            for h in tr.handlers:
                hn = handler_names(h)
                if hn is not None and not (set(hn) & covers):
                    continue
                if h.body and isinstance(h.body[-1], ast.Raise) and h.body[-1].exc is None \
                        and not any(isinstance(x, (ast.If, ast.Return, ast.Continue, ast.Break))
                                    for b in h.body for x in ast.walk(b)):
                    continue                    # always re-raised
                if any(isinstance(x, ast.Raise) for x in h.body[-1:]):
                    continue                    # replaced by another error, not absorbed
                sig = (tuple(sorted(hn)) if hn is not None else ("<bare>",), tuple(q))
                key = f"absorbs:{'/'.join(sig[0])}:{','.join(sig[1])}"
                if sig in R9_CONFIRMED:
                    found += 1
                    ctx.ok("C03.R9", key, sample=f"{f.qual}: {R9_CONFIRMED[sig]}")
                else:
                    ctx.fail("C03.R9", key, f.file, h.lineno, f.qual,
                             f"`except {'/'.join(sig[0])}` around self.{'(), self.'.join(q)}() "
                             f"absorbs NoSuchProcess: if the process vanishes at that query "
                             f"the method answers (or raises a stale error) instead of "
                             f"raising NoSuchProcess")
    ctx.require(found >= 3, f"only {found} of the confirmed absorbing clauses found")


def _handler_exits(h, eno):
    """How control can leave except-clause h when the caught OSError carries errno
    `eno`: subset of {"raise", "fall", "continue", "break", "return"}.  Tests of
    `<bound name>.errno` against errno constants are decided; any other test is
    explored both ways.  A `raise` of another exception (raise X(...)) is not a
    re-raise of the caught one, except `raise <bound name>`."""
    name = h.name

    def econst(e):
        d = dotted(e) or ""
        return d.split(".")[-1] if d.startswith("errno.") or d.isupper() else None

    def decide(test):
        if isinstance(test, ast.UnaryOp) and isinstance(test.op, ast.Not):
            r = decide(test.operand)
            return None if r is None else not r
        if isinstance(test, ast.BoolOp):
            rs = [decide(v) for v in test.values]
            if isinstance(test.op, ast.Or):
                return True if True in rs else (None if None in rs else False)
            return False if False in rs else (None if None in rs else True)
        if isinstance(test, ast.Compare) and len(test.ops) == 1 and name \
                and dotted(test.left) == f"{name}.errno":
            op, rhs = test.ops[0], test.comparators[0]
            if isinstance(op, (ast.Eq, ast.NotEq)):
                c = econst(rhs)
                if c is None:
                    return None
                return (c == eno) == isinstance(op, ast.Eq)
            if isinstance(op, (ast.In, ast.NotIn)) and isinstance(rhs, (ast.Tuple, ast.Set, ast.List)):
                cs = [econst(x) for x in rhs.elts]
                if None in cs:
                    return None
                return (eno in cs) == isinstance(op, ast.In)
        return None

    def run(stmts):
        for st in stmts:
            if isinstance(st, ast.Raise):
                if st.exc is None or (name and dotted(st.exc) == name):
                    return {"raise"}
                return {"other"}
            if isinstance(st, ast.Continue):
                return {"continue"}
            if isinstance(st, ast.Break):
                return {"break"}
            if isinstance(st, ast.Return):
                return {"return"}
            if isinstance(st, ast.If):
                d = decide(st.test)
                outs = set()
                if d is not False:
                    outs |= run(st.body)
                if d is not True:
                    outs |= run(st.orelse)
                if "fall" not in outs:
                    return outs
                rest = outs - {"fall"}
                continue_with = rest
                tail = run(stmts[stmts.index(st) + 1:])
                return continue_with | tail
        return {"fall"}
    return run(h.body)


def _r8(ctx, repo, A, pm, rule="C03.R8", only=None, floor=4):
    from ..core.astutil import deref, enclosing_trys, handler_catches

    def is_subobj(e, fnode):
        d = deref(fnode, e)
        if isinstance(d, ast.Name):
            # re-used path variable: take the closest assignment before the use
            defs = [st for st in ast.walk(fnode) if isinstance(st, ast.Assign)
                    and len(st.targets) == 1 and dotted(st.targets[0]) == d.id
                    and st.lineno <= getattr(e, "lineno", 10 ** 9)]
            if defs:
                d = max(defs, key=lambda st: st.lineno).value
        def flat(js):
            """parts of an f-string with nested f-strings spliced and adjacent
            constants merged: [str | None(placeholder)]"""
            out = []
            for v in js.values:
                if isinstance(v, ast.Constant):
                    out.append(str(v.value))
                elif isinstance(v, ast.FormattedValue) and isinstance(v.value, ast.JoinedStr):
                    out.extend(flat(v.value))
                elif isinstance(v, ast.FormattedValue) and isinstance(v.value, ast.Constant):
                    out.append(str(v.value.value))
                else:
                    out.append(None)
            merged = []
            for p_ in out:
                if p_ is not None and merged and merged[-1] is not None:
                    merged[-1] += p_
                else:
                    merged.append(p_)
            return merged
        for x in ast.walk(d):
            if isinstance(x, ast.JoinedStr):
                parts = flat(x)
                for i, v in enumerate(parts[:-1]):
                    if v is not None and v.endswith(SUBOBJ) and parts[i + 1] is None:
                        return v
        return None
    nsites = 0
    funcs = [f for f in repo.all_funcs(pm) if f.parent is None
             and (f.cls in ("Process", "NetConnections") or f.cls is None)
             and (only is None or f.qual in only)]
    for f in funcs:
        fobj = {}
        sites = []
        for c in calls_in(f.node):
            nm = dotted(c.func) or ""
            if (nm in ACCESS or nm.split(".")[-1] in ACCESS) and c.args:
                kind = is_subobj(c.args[0], f.node)
                if kind:
                    sites.append((c, f"{nm}(<pid>{kind}<x>)"))
        # file objects opened on a sub-object, and the reads made on them
        for w in ast.walk(f.node):
            pairs = []
            if isinstance(w, ast.With):
                pairs = [(i.optional_vars, i.context_expr) for i in w.items if i.optional_vars]
            elif isinstance(w, ast.Assign) and len(w.targets) == 1:
                pairs = [(w.targets[0], w.value)]
            for tgt, val in pairs:
                if isinstance(tgt, ast.Name) and isinstance(val, ast.Call) and val.args \
                        and (dotted(val.func) or "").split(".")[-1] in ("open_binary", "open_text", "open"):
                    k = is_subobj(val.args[0], f.node)
                    if k:
                        fobj[tgt.id] = k
        for c in calls_in(f.node):
            if isinstance(c.func, ast.Attribute) and c.func.attr in ("read", "readline", "readlines") \
                    and dotted(c.func.value) in fobj:
                sites.append((c, f"{dotted(c.func.value)}.{c.func.attr}() on <pid>{fobj[dotted(c.func.value)]}<x>"))
        for lp in ast.walk(f.node):
            if isinstance(lp, ast.For) and dotted(lp.iter) in fobj:
                sites.append((lp.iter, f"iteration over <pid>{fobj[dotted(lp.iter)]}<x>"))
        for c, what in sites:
            nsites += 1
            key = f"{f.qual}:{what}"
            trys = enclosing_trys(f.node, c)
            ok = any(handler_catches(h, ["FileNotFoundError"]) for t in trys for h in t.handlers) \
                and any(handler_catches(h, ["ProcessLookupError"]) for t in trys for h in t.handlers)
            # the clause that actually receives the error (first match, innermost
            # try first) must not hand it on: `except OSError as e: if e.errno in
            # (...): continue; raise` is evaluated for that errno
            rethrown = None
            if ok:
                for cls, eno in (("FileNotFoundError", "ENOENT"), ("ProcessLookupError", "ESRCH")):
                    h = next((h for t in trys for h in t.handlers
                              if handler_catches(h, [cls])), None)
                    if h is not None and "raise" in _handler_exits(h, eno):
                        rethrown = (cls, eno, h.lineno)
                        break
            if rethrown:
                ctx.fail(rule, key, f.file, rethrown[2], f.qual,
                         f"{what}: {rethrown[0]} ({rethrown[1]}) reaches the handler at line "
                         f"{rethrown[2]}, which re-raises it: a descriptor closed / thread "
                         f"ended while the process is alive is reported as the process "
                         f"being gone")
            elif ok:
                ctx.ok(rule, key, sample=f"{f.qual}: {what} under except (ENOENT, ESRCH)")
            else:
                ctx.fail(rule, key, f.file, getattr(c, "lineno", f.node.lineno), f.qual,
                         f"{what} is not inside a try catching FileNotFoundError and "
                         f"ProcessLookupError: a descriptor closed / thread ended while the "
                         f"process is alive makes the call fail with a bare OSError (the "
                         f"translator re-raises ENOENT when <pid>/stat still exists)")
    ctx.require(nsites >= floor, f"only {nsites} per-descriptor / per-thread accesses found")
