"""C19 - sensors, battery, CPU frequency/count, boot time mirror the kernel's tables."""

import ast
import os

from ..core.absint import Interp, alternatives, pretty
from ..core.analysis import Analysis, facts
from ..core.astutil import deref, enclosing_trys, handler_catches, path_templates
from ..core.forms import (DIMLESS, NotPolynomial, Poly, Rat, U, UnitError, canon, expand,
                          to_rat, unit_of, ustr)
from ..core.pyrepo import Repo, calls_in, dotted, norm_stmt
from ..core.report import AnalysisError
from .c06 import collect
from .c15 import eval_pred

# sysfs units (Documentation/hwmon/sysfs-interface.rst, thermal/sysfs-api.rst,
# cpu-freq/user-guide.rst, power/power_supply_class.rst)
SUFFIX_UNITS = [
    ("_input", None),           # decided by prefix below
    ("_max", U(mC=1)), ("_crit", U(mC=1)), ("/temp", U(mC=1)), ("_temp", U(mC=1)),
    ("scaling_cur_freq", U(kHz=1)), ("cpuinfo_cur_freq", U(kHz=1)),
    ("scaling_max_freq", U(kHz=1)), ("scaling_min_freq", U(kHz=1)),
]


def file_unit(t, kind):
    """Unit of the content of a sysfs file term, from its path suffix."""
    if not (isinstance(t, tuple) and t and t[0] == "file"):
        return None
    p = t[1][1] if t[1][0] in ("tmpl", "const") else pretty(t[1])
    p = str(p)
    if p.endswith("_input"):
        return U(mC=1) if kind == "temp" else U(rpm=1)
    for suf, u in SUFFIX_UNITS:
        if u is not None and p.endswith(suf):
            return u
    return None


def five_tuples(t):
    return collect(t, lambda x: x and x[0] == "tuple" and len(x) == 5)


def run(ctx):
    repo = Repo(ctx.repo)
    A = Analysis(repo)
    pm = "_pslinux"

    # ------------------------------------------------------------------- R1
    ctx.rule("C19.R1", "units: hwmon / thermal temperatures and thresholds are "
             "millidegrees / 1000 = degrees C (a loop-carried value keeps one unit); "
             "cpufreq kHz / 1000 = MHz; Fahrenheit = C*9/5+32", floor=10)
    I = Interp(repo, A)
    st = repo.func(pm, "sensors_temperatures")
    t = canon(I.call_function(st, []))
    tups = list(dict.fromkeys(five_tuples(t)))
    ctx.require(len(tups) >= 2, f"sensors_temperatures: {len(tups)} record shapes (hwmon + "
                f"thermal_zone expected)")

    def au(x):
        return file_unit(x, "temp")
    for tp in tups:
        origin = "thermal_zone" if "/temp'" in pretty(tp[2]) else "hwmon"
        for i, name in ((2, "current"), (3, "high"), (4, "critical")):
            v = tp[i]
            key = f"temp:{origin}:{name}"
            try:
                units = set()
                for a in alternatives(v) if v[0] != "loopdep" else [v]:
                    if a == ("const", None):
                        continue
                    units.add(unit_of(a, au))
                units.discard("lit")
                if units == {U(C=1)}:
                    ctx.ok("C19.R1", key, sample=f"{origin} {name}: m°C / 1000 -> °C")
                else:
                    ctx.fail("C19.R1", key, st.file, st.node.lineno, st.qual,
                             f"{origin} {name} has unit "
                             f"{sorted(ustr(u) for u in units)}, expected degrees C "
                             f"(millidegrees / 1000)")
            except UnitError as e:
                ctx.fail("C19.R1", key, st.file, st.node.lineno, st.qual,
                         f"{origin} {name}: {e}")
    # cpufreq
    cf = [f for f in repo.funcs(pm, "cpu_freq")]
    ctx.require(cf, "cpu_freq vanished")
    for f in cf:
        It = Interp(repo, A)
        tt = canon(It.call_function(f, []))
        recs = [x for a in alternatives(tt) if a[0] in ("listof", "comp")
                for x in (alternatives(a[1]) if a[0] == "listof" else [])
                if x[0] == "nt"]
        if not recs:
            # the /proc/cpuinfo-only variant builds its list with a comprehension
            comps = collect(tt, lambda x: x and x[0] == "comp")
            for c in comps:
                v = It.comp_value(c)
                recs += [x for x in alternatives(v[1]) if x[0] == "nt"] if v[0] == "listof" else []
        variant = "sysfs" if any("scaling_" in pretty(r) for r in recs) else "cpuinfo"

        def auf(x):
            u = file_unit(x, "freq")
            if u is not None:
                return u
            if x and x[0] in ("filtered",) and "cpu mhz" in pretty(x):
                return U(MHz=1)
            if x and x[0] == "idx" and "cpuinfo" in pretty(x):
                return U(MHz=1)
            return None
        for r in recs:
            if all(v in (("const", 0.0),) for v in r[3]):
                continue
            for fld, v in zip(r[2], r[3]):
                key = f"cpufreq:{variant}:{fld}"
                try:
                    us = {unit_of(a, auf) for a in expand(v) if a[0] != "const"}
                    us.discard("lit")
                    if variant == "cpuinfo":
                        us.discard(None)     # /proc/cpuinfo already reports MHz
                        if not us:
                            continue
                    if us == {U(MHz=1)}:
                        ctx.ok("C19.R1", key, sample=f"{fld}: kHz/1000 -> MHz")
                    else:
                        ctx.fail("C19.R1", key, f.file, f.node.lineno, f.qual,
                                 f"cpu_freq().{fld} has unit {sorted(ustr(u) for u in us)}, "
                                 f"expected MHz (kHz / 1000)")
                except UnitError as e:
                    ctx.fail("C19.R1", key, f.file, f.node.lineno, f.qual, f"{fld}: {e}")
    # Fahrenheit
    cv = repo.func("psutil", "sensors_temperatures.convert")
    Ic = Interp(repo, A)
    tc = Ic.call_function(cv, [("param", "n")])
    forms = []
    for a in expand(tc):
        if a == ("const", None):
            continue
        try:
            forms.append(to_rat(a))
        except NotPolynomial:
            pass
    n = Rat(Poly.atom("n"))
    want = n * Rat(Poly.const(9)) / Rat(Poly.const(5)) + Rat(Poly.const(32))
    if any(f.same(want) for f in forms) and any(f.same(n) for f in forms) and len(forms) == 2:
        ctx.ok("C19.R1", "fahrenheit", sample="n*9/5+32 if fahrenheit else n")
    else:
        ctx.fail("C19.R1", "fahrenheit", cv.file, cv.node.lineno, cv.qual,
                 f"convert(n) = {[repr(f) for f in forms]}; documented C*9/5+32")

    # ... for EVERY reading, 0 included (0 degrees C is 32 F): the conversion is reached
    # iff the reading is not None - evaluated on the guards of the returned formula
    from .c15 import eval_pred as _ep
    ccfg = A.cfg(cv)
    npar = cv.node.args.args[0].arg if cv.node.args.args else "n"
    verdicts = []
    for rn in [x for x in ccfg.nodes if x.kind == "return" and x.stmt.value is not None
               and any(isinstance(y, ast.BinOp) for y in ast.walk(x.stmt.value))]:
        gs = [(e_, p_) for e_, p_, _ in ccfg.guards(rn) if p_ in (True, False)]
        v_ = rn.stmt.value
        if isinstance(v_, ast.IfExp):       # `F(n) if fahrenheit else n`
            gs.append((v_.test, True if any(isinstance(y, ast.BinOp) for y in ast.walk(v_.body))
                       else False))
        for val, want_ in ((0, True), (0.0, True), (-5.5, True), (25, True), (None, False)):
            reach, und = True, False
            for e_, p_ in gs:
                r_ = _ep(e_, {npar: val, "fahrenheit": True})
                if r_ not in (True, False):
                    und = True
                elif r_ is not p_:
                    reach = False
            verdicts.append((val, want_, reach, und))
    if verdicts and all(not u and r == w for _, w, r, u in verdicts):
        ctx.ok("C19.R1", "fahrenheit:every-reading", sample="converted for 0, 0.0, negative and "
               "positive readings; None stays None")
    elif not verdicts or any(u for *_, u in verdicts):
        ctx.advisory("C19.R1 fahrenheit:every-reading: guard outside the evaluated subset; not decided")
        ctx.ok("C19.R1", "fahrenheit:every-reading", sample="not decided", nontrivial=False)
    else:
        bad_ = [v for v, w, r, u in verdicts if r != w]
        ctx.fail("C19.R1", "fahrenheit:every-reading", cv.file, cv.node.lineno, cv.qual,
                 f"with fahrenheit=True the reading(s) {bad_} are not converted like the others "
                 f"(a reading of 0 degrees C must come out as 32 F; truthiness is not the test)")

    # ------------------------------------------------------------------- R2
    ctx.rule("C19.R2", "per-entry tolerance: each read of a sensor's reading file "
             "sits in the loop inside a try whose handler covers OSError and skips "
             "the entry; discovery takes the UNION of the flat hwmon*/ and the nested "
             "hwmon*/device/ layouts for temperatures and for fans alike", floor=5)
    _discovery(ctx, repo, A, pm)
    for q in ("sensors_temperatures", "sensors_fans"):
        f = repo.func(pm, q)
        reads = []
        for loop in [n for n in ast.walk(f.node) if isinstance(n, ast.For)]:
            conv = [x for x in calls_in(loop) if dotted(x.func) in ("int", "float")]
            # a raw read held in a temporary before the conversion counts too
            via = {dotted(st.targets[0]): st.value for st in ast.walk(loop)
                   if isinstance(st, ast.Assign) and len(st.targets) == 1
                   and isinstance(st.targets[0], ast.Name) and isinstance(st.value, ast.Call)}
            conv_names = {x.id for cv in conv for a_ in cv.args for x in ast.walk(a_)
                          if isinstance(x, ast.Name)}
            for c in calls_in(loop):
                if dotted(c.func) in ("bcat", "cat") and not c.keywords and len(c.args) == 1 \
                        and (any(c in list(ast.walk(x)) for x in conv)
                             or any(v is c and k in conv_names for k, v in via.items())):
                    # a read without fallback= raises on a missing/unreadable file
                    inner = any(c in list(ast.walk(l2)) for l2 in ast.walk(loop)
                                if isinstance(l2, ast.For) and l2 is not loop)
                    if not inner:
                        reads.append((loop, c))
        for loop, c in reads:
            trys = [t for t in enclosing_trys(f.node, c) if t in list(ast.walk(loop))]
            good = any(handler_catches(h, ["OSError"]) and
                       any(isinstance(s, ast.Continue) for s in h.body)
                       for t in trys for h in t.handlers)
            key = f"{q}:{norm_stmt(c)}"
            if good:
                ctx.ok("C19.R2", key, sample=f"{norm_stmt(c)} under except OSError: continue")
            else:
                ctx.fail("C19.R2", key, f.file, c.lineno, f.qual,
                         f"`{norm_stmt(c)}` is read without a per-entry OSError handler: "
                         f"one missing or unreadable sensor file makes the whole call fail")
    # ------------------------------------------------------------------- R5
    ctx.rule("C19.R5", "optional files: a threshold file whose content is not a number "
             "yields None for that threshold (the sensor is kept); an offline CPU is "
             "recognised through /sys/devices/system/cpu/cpu<N>/online whatever cpufreq "
             "layout was globbed", floor=3)
    _r5(ctx, repo, A, pm)

    # ------------------------------------------------------------------- R4
    ctx.rule("C19.R4", "/proc/stat keys: cpu_stats() takes ctx_switches, interrupts and "
             "soft_interrupts from column 1 of the `ctxt`, `intr` and `softirq` lines; "
             "boot_time() is column 1 of the `btime` line", floor=4)
    _r4(ctx, repo, A, pm)

    # ------------------------------------------------------------------- R3
    ctx.rule("C19.R3", "conventions: a missing high/critical threshold is filled "
             "from the other; battery percent = 100*now/full, secsleft = "
             "now/power*3600 | time_to_empty*60, UNLIMITED on mains, UNKNOWN when "
             "not computable, None without a battery; cpu_freq() mean = sum/num; "
             "cpu_count < 1 -> None", floor=8)
    ft = repo.func("psutil", "sensors_temperatures")
    fills = []
    for n in ast.walk(ft.node):
        if isinstance(n, ast.If):
            t1 = norm_stmt(n.test).replace(" ", "")
            body = [norm_stmt(s).replace(" ", "") for s in n.body]
            fills.append((t1, body))
            for e in n.orelse:
                if isinstance(e, ast.If):
                    fills.append((norm_stmt(e.test).replace(" ", ""),
                                  [norm_stmt(s).replace(" ", "") for s in e.body]))
    fills = [(t.replace("(", "").replace(")", ""), b) for t, b in fills]
    f1 = ("highandnotcritical", ["critical=high"]) in fills
    f2 = ("criticalandnothigh", ["high=critical"]) in fills
    if f1 and f2:
        ctx.ok("C19.R3", "backfill", sample="high<->critical back-fill")
    else:
        ctx.fail("C19.R3", "backfill", ft.file, ft.node.lineno, ft.qual,
                 "a missing high (critical) threshold is no longer filled from critical "
                 "(high)")
    rets = [s for s in ast.walk(ft.node) if isinstance(s, ast.Return)
            and s.value is not None and "dict(ret)" in norm_stmt(s.value)]
    if rets:
        ctx.ok("C19.R3", "temps-empty", sample="dict(ret) ({} when nothing found)",
               nontrivial=False)
    else:
        ctx.fail("C19.R3", "temps-empty", ft.file, ft.node.lineno, ft.qual,
                 "sensors_temperatures no longer returns a plain dict")
    # battery
    sb = repo.func(pm, "sensors_battery")
    Ib = Interp(repo, A)
    Ib.opaque = {f"{pm}:sensors_battery.multi_bcat"}
    tb = canon(Ib.call_function(sb, []))
    alts = alternatives(tb)
    recs = [a for a in alts if a[0] == "nt"]
    ctx.require(recs, f"sensors_battery(): no sbattery record: {pretty(tb)[:100]}")
    rec = dict(zip(recs[0][2], recs[0][3]))
    if ("const", None) in alts:
        ctx.ok("C19.R3", "battery:none", sample="no battery -> None")
    else:
        ctx.fail("C19.R3", "battery:none", sb.file, sb.node.lineno, sb.qual,
                 "without a battery the result is not None")

    def sample_named(x, *names):
        return x and x[0] == "sample" and all(any(nm in pretty(a) for a in x[3]) for nm in names)
    pforms = []
    for a in expand(rec["percent"]):
        try:
            pforms.append((a, to_rat(a)))
        except NotPolynomial:
            pass
    okp = False
    for a, r in pforms:
        at = sorted(r.num.atoms() | r.den.atoms())
        now = [x for x in at if "energy_now" in x and "charge_now" in x]
        full = [x for x in at if "energy_full" in x and "charge_full" in x]
        if len(now) == 1 and len(full) == 1 and \
                r.same(Rat(Poly.const(100)) * Rat(Poly.atom(now[0])) / Rat(Poly.atom(full[0]))):
            okp = True
    cap = any("capacity" in pretty(a) for a, _ in pforms) or "capacity" in pretty(rec["percent"])
    if okp and cap:
        ctx.ok("C19.R3", "battery:percent", sample="100.0 * energy_now / energy_full | capacity")
    else:
        ctx.fail("C19.R3", "battery:percent", sb.file, sb.node.lineno, sb.qual,
                 f"battery percent = `{pretty(rec['percent'])[:140]}`; documented "
                 f"now/full*100 (or the capacity file)")
    sl = rec["secsleft"]
    txt = pretty(sl)
    sforms = []
    for a in expand(sl):
        inner = a[2] if a[0] == "call" and a[1] == "int" and len(a) == 3 else a
        try:
            sforms.append(to_rat(inner))
        except NotPolynomial:
            pass
    ok1 = ok2 = False
    for r in sforms:
        at = sorted(r.num.atoms() | r.den.atoms())
        now = [x for x in at if "energy_now" in x]
        pw = [x for x in at if "power_now" in x and "current_now" in x]
        tte = [x for x in at if "time_to_empty_now" in x]
        if len(now) == 1 and len(pw) == 1 and \
                r.same(Rat(Poly.atom(now[0])) / Rat(Poly.atom(pw[0])) * Rat(Poly.const(3600))):
            ok1 = True
        if len(tte) == 1 and r.same(Rat(Poly.atom(tte[0])) * Rat(Poly.const(60))):
            ok2 = True
    ok3 = "POWER_TIME_UNLIMITED" in txt and "POWER_TIME_UNKNOWN" in txt
    if ok1 and ok2 and ok3:
        ctx.ok("C19.R3", "battery:secsleft", sample="now/power*3600 | tte*60 | UNLIMITED | UNKNOWN")
    else:
        ctx.fail("C19.R3", "battery:secsleft", sb.file, sb.node.lineno, sb.qual,
                 "seconds left is not (energy_now/power_now*3600 | time_to_empty*60 | "
                 f"UNLIMITED | UNKNOWN): {'' if ok1 else 'energy/power form changed; '}"
                 f"{'' if ok2 else 'time_to_empty form changed; '}"
                 f"{'' if ok3 else 'UNLIMITED/UNKNOWN convention changed'}")
    cfg = A.cfg(sb)
    # domain of the energy/power formula: used for EVERY known reading (a gauge
    # reading 0 means 0 seconds left, it is not "unknown"), never with a missing one
    form = [n for n in cfg.nodes if n.kind == "stmt" and isinstance(n.stmt, ast.Assign)
            and any(isinstance(x, ast.Constant) and x.value == 3600 for x in ast.walk(n.stmt.value))
            and any(isinstance(x, ast.Div) for x in ast.walk(n.stmt.value))]
    if form:
        fnode = form[0]
        div = [x for x in ast.walk(fnode.stmt.value) if isinstance(x, ast.BinOp)
               and isinstance(x.op, ast.Div)][0]
        num_v = [x.id for x in ast.walk(div.left) if isinstance(x, ast.Name)]
        den_v = [x.id for x in ast.walk(div.right) if isinstance(x, ast.Name)]
        gs = [g for g in cfg.guards(fnode)
              if {x.id for x in ast.walk(g[0]) if isinstance(x, ast.Name)}
              & set(num_v + den_v)]      # the other guards (mains, no battery) are assumed met
        probs, undecided = [], False
        if len(num_v) == 1 and len(den_v) == 1:
            others = {x.id for e, _, _ in gs for x in ast.walk(e) if isinstance(x, ast.Name)} \
                - {num_v[0], den_v[0]}
            for now in (None, 0, 0.0, 5):
                for pw in (None, 0, 7):
                    env = {num_v[0]: now, den_v[0]: pw}
                    env.update({o: None for o in others})    # e.g. power_plugged unknown
                    reach = True
                    for e, pol, _ in gs:
                        v = eval_pred(e, env)
                        if v not in (True, False):
                            undecided = True
                            continue
                        if v is not pol:
                            reach = False
                    if undecided:
                        continue
                    if (now is None or pw is None) and reach:
                        probs.append(f"the formula is evaluated with {num_v[0]}={now!r}, "
                                     f"{den_v[0]}={pw!r} (a missing reading)")
                    if now is not None and pw not in (None, 0) and not reach:
                        probs.append(f"the formula is skipped for {num_v[0]}={now!r}, "
                                     f"{den_v[0]}={pw!r}: a known reading (an empty gauge "
                                     f"means 0 seconds left) is reported as unknown")
                    if now is not None and pw == 0 and reach:
                        trys = [t_ for t_ in ast.walk(sb.node) if isinstance(t_, ast.Try)
                                and any(fnode.stmt is x for b in t_.body for x in ast.walk(b))]
                        if not any(handler_catches(h, ["ZeroDivisionError"])
                                   for t_ in trys for h in t_.handlers):
                            probs.append(f"{den_v[0]}=0 reaches the division with no "
                                         f"ZeroDivisionError handler")
        else:
            undecided = True
        if probs:
            ctx.fail("C19.R3", "battery:secsleft-domain", sb.file, fnode.line, sb.qual,
                     "; ".join(sorted(set(probs))[:3]))
        elif undecided:
            ctx.advisory("C19.R3 battery:secsleft-domain: guard outside the evaluated subset; "
                         "not decided")
            ctx.ok("C19.R3", "battery:secsleft-domain", sample="not decided", nontrivial=False)
        else:
            ctx.ok("C19.R3", "battery:secsleft-domain",
                   sample="formula reached iff both readings are known; /0 handled")
    unl = [n for n in cfg.nodes if n.kind == "stmt" and isinstance(n.stmt, ast.Assign)
           and "POWER_TIME_UNLIMITED" in norm_stmt(n.stmt.value)]
    if unl and all(("truthy", "power_plugged", True) in facts(cfg, n) for n in unl):
        ctx.ok("C19.R3", "battery:unlimited", sample="power_plugged -> POWER_TIME_UNLIMITED")
    else:
        ctx.fail("C19.R3", "battery:unlimited", sb.file, sb.node.lineno, sb.qual,
                 "POWER_TIME_UNLIMITED is not reported exactly when on mains")
    # cpu_freq mean
    fq = repo.func("psutil", "cpu_freq")
    cur = [s for s in ast.walk(fq.node) if isinstance(s, ast.Assign)
           and dotted(s.targets[0]) in ("current", "min_", "max_")
           and isinstance(s.value, ast.BinOp)]
    txts = {dotted(s.targets[0]): norm_stmt(s.value).replace(" ", "") for s in cur}
    acc = [s for s in ast.walk(fq.node) if isinstance(s, ast.AugAssign)]
    acct = {norm_stmt(s).replace(" ", "") for s in acc}
    nc = [s for s in ast.walk(fq.node) if isinstance(s, ast.Assign)
          and dotted(s.targets[0]) == "num_cpus"]
    good = txts == {"current": "currs/num_cpus", "min_": "mins/num_cpus", "max_": "maxs/num_cpus"} \
        and {"currs+=cpu.current", "mins+=cpu.min", "maxs+=cpu.max"} <= acct \
        and nc and norm_stmt(deref(fq.node, nc[0].value)) == norm_stmt(
            deref(fq.node, ast.parse("float(len(ret))", mode="eval").body))
    if good:
        ctx.ok("C19.R3", "cpu_freq:mean", sample="sum(cpu.x) / len(ret) for current/min/max")
    else:
        ctx.fail("C19.R3", "cpu_freq:mean", fq.file, fq.node.lineno, fq.qual,
                 f"cpu_freq() without percpu is not the mean over CPUs: {txts} {sorted(acct)}")
    cc = repo.func("psutil", "cpu_count")
    ccfg = A.cfg(cc)
    # decided on what is returned for each kind of platform answer (None, 0, negative,
    # positive), whatever the spelling: the variable holding the platform answer is the
    # one assigned from the _psplatform call(s)
    from .c15 import eval_pred as _ep2
    cvars = {r_.value.id for r_ in ast.walk(cc.node) if isinstance(r_, ast.Return)
             and isinstance(r_.value, ast.Name)}
    okc = bool(cvars)
    for val, want_none in ((None, True), (0, True), (-1, True), (1, False), (8, False)):
        outcome = None
        for n in ccfg.nodes:
            if n.kind != "return":
                continue
            reach = True
            for e_, p_, _ in ccfg.guards(n):
                if not ({x_.id for x_ in ast.walk(e_) if isinstance(x_, ast.Name)} & cvars):
                    continue
                r_ = _ep2(e_, {v_: val for v_ in cvars})
                if r_ in (True, False) and r_ is not p_:
                    reach = False
            if not reach:
                continue
            v_ = n.stmt.value
            # was the variable overwritten with None on this path?
            setnone = any(m.kind == "stmt" and isinstance(m.stmt, ast.Assign)
                          and dotted(m.stmt.targets[0]) in cvars
                          and isinstance(m.stmt.value, ast.Constant) and m.stmt.value.value is None
                          and all((_ep2(e2, {x: val for x in cvars}) in (p2, None, "TypeError"))
                                  for e2, p2, _ in ccfg.guards(m))
                          and ccfg.path_exists(m, n) for m in ccfg.nodes)
            is_none = v_ is None or (isinstance(v_, ast.Constant) and v_.value is None) or setnone \
                or (val is None and dotted(v_) in cvars)
            outcome = is_none if outcome is None else (outcome and is_none if want_none else outcome or is_none)
        if outcome is None or outcome != want_none:
            okc = False
    if okc:
        ctx.ok("C19.R3", "cpu_count", sample="ret < 1 -> None")
    else:
        ctx.fail("C19.R3", "cpu_count", cc.file, cc.node.lineno, cc.qual,
                 "a CPU count below 1 is no longer reported as None")
    # fans
    sf = repo.func(pm, "sensors_fans")
    If = Interp(repo, A)
    tf = canon(If.call_function(sf, []))
    frecs = collect(tf, lambda x: x and x[0] == "nt" and "sfan" in x[1])
    okf = frecs and all(pretty(dict(zip(r[2], r[3]))["current"]).startswith("int(file(")
                        and "_input" in pretty(dict(zip(r[2], r[3]))["current"]) for r in frecs)
    if okf:
        ctx.ok("C19.R3", "fans", sample="sfan(label, int(<fanN_input>))")
    else:
        ctx.fail("C19.R3", "fans", sf.file, sf.node.lineno, sf.qual,
                 "fan speed is not the integer content of fan*_input")
    ctx.assume("sysfs units per the kernel's hwmon/thermal/cpufreq/power_supply ABI docs")
    return ("Unit analysis over the abstract-interpreted sensor readers (file units "
            "from sysfs path suffixes; a loop-carried value must be a unit fixed point), "
            "polynomial forms of the Fahrenheit and battery formulas, per-entry handler "
            "inventory, control-dependence of the conventions.",
            "abstract interpretation (units incl. loop fixed point, forms), handler "
            "inventory")


def _glob_sites(repo, A, pm, f, binding=None, depth=0):
    """[(pattern text, function, call node, guarded_by_glob_result)] for the
    glob.glob calls of f and of the same-module helpers it calls with constant
    arguments (their f-string patterns instantiated)."""
    out = []
    binding = binding or {}
    cfg = A.cfg(f)
    globvars = {dotted(st.targets[0]) for st in ast.walk(f.node)
                if isinstance(st, (ast.Assign,)) and any(
                    isinstance(x, ast.Call) and dotted(x.func) == "glob.glob"
                    for x in ast.walk(st.value))}

    def text(e):
        if isinstance(e, ast.Constant) and isinstance(e.value, str):
            return e.value
        if isinstance(e, ast.JoinedStr):
            parts = []
            for v in e.values:
                if isinstance(v, ast.Constant):
                    parts.append(v.value)
                elif isinstance(v, ast.FormattedValue) and dotted(v.value) in binding:
                    parts.append(str(binding[dotted(v.value)]))
                elif isinstance(v, ast.FormattedValue) and isinstance(v.value, ast.Constant):
                    parts.append(str(v.value.value))
                else:
                    return None
            return "".join(parts)
        if isinstance(e, ast.BinOp) and isinstance(e.op, (ast.Add, ast.Mod)):
            return None
        return None
    for c in calls_in(f.node):
        if dotted(c.func) == "glob.glob" and c.args:
            t = text(c.args[0])
            dep = False
            for n in cfg.owners(c):
                for e, pol, _ in cfg.guards(n):
                    if {x.id for x in ast.walk(e) if isinstance(x, ast.Name)} & globvars:
                        dep = True
            out.append((t, f, c, dep))
        elif depth < 2 and isinstance(c.func, ast.Name):
            callee = repo.func(pm, c.func.id, required=False)
            if callee is not None and callee.node is not f.node:
                params = [a.arg for a in callee.node.args.args]
                b = {}
                for p_, a in zip(params, c.args):
                    if isinstance(a, ast.Constant):
                        b[p_] = a.value
                for k in c.keywords:
                    if isinstance(k.value, ast.Constant):
                        b[k.arg] = k.value
                if any(dotted(x.func) == "glob.glob" for x in calls_in(callee.node)):
                    out += _glob_sites(repo, A, pm, callee, b, depth + 1)
    return out


def _discovery(ctx, repo, A, pm):
    for q, kind in (("sensors_temperatures", "temp"), ("sensors_fans", "fan")):
        f = repo.func(pm, q)
        sites = _glob_sites(repo, A, pm, f)
        flat = [s_ for s_ in sites if s_[0] == f"/sys/class/hwmon/hwmon*/{kind}*_*"]
        nest = [s_ for s_ in sites if s_[0] == f"/sys/class/hwmon/hwmon*/device/{kind}*_*"]
        key = f"discovery:{q}"
        if not flat or not nest:
            ctx.fail("C19.R2", key, f.file, f.node.lineno, f.qual,
                     f"{q}() does not look at both hwmon layouts (flat: {bool(flat)}, "
                     f"nested device/: {bool(nest)}); patterns seen: "
                     f"{sorted(str(s_[0]) for s_ in sites)}")
        elif any(s_[3] for s_ in flat + nest):
            bad = [s_ for s_ in flat + nest if s_[3]][0]
            ctx.fail("C19.R2", key, bad[1].file, bad[2].lineno, bad[1].qual,
                     f"`{norm_stmt(bad[2])}` only runs depending on what the other layout "
                     f"found: on a tree where one chip is flat and another nested under "
                     f"device/, the chips of the second layout silently disappear")
        else:
            ctx.ok("C19.R2", key, sample="glob(hwmon*/X) + glob(hwmon*/device/X), unconditionally")


def _keyed_line_value(v):
    """[(key bytes, column)] for every `int/float(split(line)[col])` selected by
    `line.startswith(key)` inside v."""
    out = []
    for w in collect(v, lambda x: x and x[0] == "when"):
        conds, val = w[1], w[2]
        keys = []
        for c, pol in conds:
            if pol is True and c and c[0] == "call" and c[1] == "startswith" \
                    and c[-1][0] == "const":
                keys.append(c[-1][1])
        cols = [a[2] for a in collect(val, lambda x: x and x[0] == "idx"
                                      and isinstance(x[2], int) and x[1][0] == "split")]
        for k in keys:
            for col in cols:
                out.append((k, col))
    return out


def _r4(ctx, repo, A, pm):
    from ..oracles import linux as OL
    I = Interp(repo, A)
    cs = repo.func(pm, "cpu_stats")
    t = canon(I.call_function(cs, []))
    nts = [a for a in alternatives(t) if a[0] == "nt"]
    ctx.require(nts, f"cpu_stats(): no scpustats record: {pretty(t)[:100]}")
    rec = dict(zip(nts[0][2], nts[0][3]))
    for fld, keyb in OL.PROC_STAT_KEYS.items():
        got = _keyed_line_value(rec.get(fld))
        if "stat" not in pretty(rec.get(fld)):
            got = []
        if got and all(k == keyb and c == 1 for k, c in got):
            ctx.ok("C19.R4", f"cpu_stats:{fld}", sample={fld: f"`{keyb.decode()}` line, column 1"})
        else:
            ctx.fail("C19.R4", f"cpu_stats:{fld}", cs.file, cs.node.lineno, cs.qual,
                     f"cpu_stats().{fld} comes from {got or pretty(rec.get(fld))[:80]}; "
                     f"proc(5): column 1 of the `{keyb.decode()}` line of /proc/stat")
    bt = repo.func(pm, "boot_time")
    tb = canon(I.call_function(bt, []))
    got = _keyed_line_value(tb)
    if got and all(k == b"btime" and c == 1 for k, c in got) and "stat" in pretty(tb):
        ctx.ok("C19.R4", "boot_time", sample="`btime` line of /proc/stat, column 1")
    else:
        ctx.fail("C19.R4", "boot_time", bt.file, bt.node.lineno, bt.qual,
                 f"boot_time() comes from {got or pretty(tb)[:80]}; proc(5): column 1 of the "
                 f"`btime` line of /proc/stat")


def _r5(ctx, repo, A, pm):
    import re as _re
    f = repo.func(pm, "sensors_temperatures")
    # threshold variables: read from a path ending in _max / _crit with a fallback
    thr = {}
    for st in ast.walk(f.node):
        if isinstance(st, ast.Assign) and len(st.targets) == 1 and isinstance(st.targets[0], ast.Name) \
                and isinstance(st.value, ast.Call) and dotted(st.value.func) in ("bcat", "cat") \
                and st.value.args:
            tmpls = path_templates(repo, f, st.value.args[0])
            for suf in ("_max", "_crit"):
                if tmpls and all(t.endswith(suf) for t in tmpls):
                    thr[st.targets[0].id] = suf

    def converter(call):
        """call: `g(x)` where g is a function of this module that converts its
        argument with float(): None if a non-number makes g return None, else why not."""
        g = repo.func(pm, dotted(call.func) or "", required=False)
        if g is None or not g.node.args.args:
            return "?"
        par = g.node.args.args[0].arg
        fl = [c for c in ast.walk(g.node) if isinstance(c, ast.Call) and dotted(c.func) == "float"
              and c.args and dotted(c.args[0]) == par]
        if not fl:
            return "?"
        for c in fl:
            st_ = next(s_ for s_ in ast.walk(g.node) if isinstance(s_, ast.stmt)
                       and any(x is c for x in ast.walk(s_))
                       and not isinstance(s_, (ast.Try, ast.If, ast.For, ast.While, ast.With,
                                               ast.FunctionDef)))
            hs = [h for t_ in reversed(enclosing_trys(g.node, st_)) for h in t_.handlers
                  if handler_catches(h, ["ValueError"])]
            if not hs:
                return "no ValueError handler: the whole call fails"
            h = hs[0]
            if any(isinstance(x, ast.Raise) for b in h.body for x in ast.walk(b)):
                return "the ValueError handler raises: the whole call fails"
            rets = [x for b in h.body for x in ast.walk(b) if isinstance(x, ast.Return)]
            if not rets or not all(r.value is None or (isinstance(r.value, ast.Constant)
                                                       and r.value.value is None) for r in rets):
                return "the ValueError handler does not answer None"
        return None

    n = 0
    for st in ast.walk(f.node):
        if not (isinstance(st, ast.Assign) and len(st.targets) == 1
                and dotted(st.targets[0]) in thr):
            continue
        v = dotted(st.targets[0])
        if isinstance(st.value, ast.Call) and any(dotted(a) == v for a in st.value.args):
            why = converter(st.value)
            if why != "?":
                n += 1
                key = f"threshold-not-a-number:{v}({thr[v]})"
                if why is None:
                    ctx.ok("C19.R5", key, sample=f"{dotted(st.value.func)}({v}): float() fails "
                                                 f"-> None, sensor kept")
                else:
                    ctx.fail("C19.R5", key, f.file, st.lineno, f.qual,
                             f"a non-numeric {thr[v]} file: {why} (in {dotted(st.value.func)})")
                continue
        if not any(isinstance(c, ast.Call) and dotted(c.func) == "float"
                   for c in ast.walk(st.value)):
            continue
        n += 1
        key = f"threshold-not-a-number:{v}({thr[v]})"
        trys = enclosing_trys(f.node, st)
        verdict = "no ValueError handler: the whole call fails"
        for t_ in reversed(trys):
            hs = [h for h in t_.handlers if handler_catches(h, ["ValueError"])]
            if not hs:
                continue
            h = hs[0]
            leaves = any(isinstance(x, (ast.Continue, ast.Break, ast.Return, ast.Raise))
                         for b in h.body for x in ast.walk(b))
            sets_none = any(isinstance(x, ast.Assign) and dotted(x.targets[0]) == v
                            and isinstance(x.value, ast.Constant) and x.value.value is None
                            for b in h.body for x in ast.walk(b))
            if leaves:
                verdict = ("the ValueError handler skips the whole sensor: its valid current "
                           "reading (and the other threshold) are lost")
            elif sets_none:
                verdict = None
            else:
                verdict = f"the ValueError handler does not set {v} to None"
            break
        if verdict is None:
            ctx.ok("C19.R5", key, sample=f"float({v}) fails -> {v} = None, sensor kept")
        else:
            ctx.fail("C19.R5", key, f.file, st.lineno, f.qual,
                     f"a non-numeric {thr[v]} file: {verdict}")
    ctx.require(n >= 2, f"only {n} threshold conversions found in sensors_temperatures()")
    # every reading is built from ITS sensor/zone only: nothing appended inside a
    # per-sensor loop may still hold a value left by the previous sensor
    from ..core.analysis import stale_in_loop
    nloops = 0
    for fname in ("sensors_temperatures", "sensors_fans"):
        sf = repo.func(pm, fname, required=False)
        if sf is None:
            continue
        scfg = A.cfg(sf)
        for lp in [x for x in ast.walk(sf.node) if isinstance(x, ast.For)]:
            for st_ in lp.body:
                for y_ in ast.walk(st_):
                    if isinstance(y_, ast.Expr) and isinstance(y_.value, ast.Call) \
                            and isinstance(y_.value.func, ast.Attribute) \
                            and y_.value.func.attr == "append" \
                            and any(isinstance(a_, ast.Tuple) for a_ in y_.value.args):
                        if any(isinstance(z_, ast.For) and z_ is not lp
                               and any(w_ is y_ for w_ in ast.walk(z_))
                               for b_ in lp.body for z_ in ast.walk(b_)):
                            continue
                        nloops += 1
                        stale = stale_in_loop(scfg, lp, y_, sf.node)
                        key = f"per-sensor-state:{fname}:{norm_stmt(lp.iter)[:30]}"
                        if stale:
                            ctx.fail("C19.R5", key, sf.file, y_.lineno, sf.qual,
                                     f"the reading appended for a sensor can carry {stale} over "
                                     f"from the PREVIOUS sensor (not assigned on every path of "
                                     f"the iteration): a zone without that threshold reports its "
                                     f"neighbour's")
                        else:
                            ctx.ok("C19.R5", key, nontrivial=True,
                                   sample="every appended name is assigned in the iteration")
    ctx.require(nloops >= 2, f"only {nloops} per-sensor reading loops found")
    # ... and the same for the per-CPU loops of cpu_freq() on every platform
    from ..core.pyrepo import PLATFORM_MODULES
    for mn_ in sorted(set(PLATFORM_MODULES.values())):
        for cf_ in repo.funcs(mn_, "cpu_freq"):
            ccfg_ = A.cfg(cf_)
            for lp in [x for x in ast.walk(cf_.node) if isinstance(x, ast.For)]:
                for y_ in [z for b_ in lp.body for z in ast.walk(b_)
                           if isinstance(z, ast.Expr) and isinstance(z.value, ast.Call)
                           and isinstance(z.value.func, ast.Attribute)
                           and z.value.func.attr == "append"]:
                    stale = stale_in_loop(ccfg_, lp, y_, cf_.node)
                    conds_ = "|".join(norm_stmt(t_) for t_, _ in cf_.conds) or "-"
                    key = f"per-cpu-state:{mn_}:{conds_}"
                    if stale:
                        ctx.fail("C19.R5", key, cf_.file, y_.lineno, cf_.qual,
                                 f"{mn_}.cpu_freq(): the entry appended for a CPU can use {stale} "
                                 f"without assigning them in that iteration: unbound for the "
                                 f"first CPU (UnboundLocalError), the previous CPU's limits "
                                 f"afterwards")
                    else:
                        ctx.ok("C19.R5", key, nontrivial=True,
                               sample="every appended name is assigned in the iteration")
    # entry i of cpu_freq(percpu=True) describes CPU i: the cpufreq directories are
    # ordered by CPU NUMBER (policy10 sorts before policy2 as text)
    for cf in repo.funcs(pm, "cpu_freq"):
        gl = [st_ for st_ in ast.walk(cf.node) if isinstance(st_, ast.Assign)
              and any(isinstance(c_, ast.Call) and dotted(c_.func) == "glob.glob"
                      for c_ in ast.walk(st_.value))
              and isinstance(st_.targets[0], ast.Name)]
        if not gl:
            continue
        pv = gl[0].targets[0].id
        numeric = False
        for c_ in ast.walk(cf.node):
            if not isinstance(c_, ast.Call):
                continue
            is_sort = isinstance(c_.func, ast.Attribute) and c_.func.attr == "sort" \
                and dotted(c_.func.value) == pv
            is_sorted = dotted(c_.func) == "sorted" and (
                c_ is gl[0].value or any(dotted(a_) == pv for a_ in c_.args))
            if (is_sort or is_sorted) and any(
                    k_.arg == "key" and any(isinstance(z_, ast.Call) and dotted(z_.func) == "int"
                                             for z_ in ast.walk(k_.value))
                    for k_ in c_.keywords):
                numeric = True
        if numeric:
            ctx.ok("C19.R5", "cpu_freq:cpu-order", sample=f"{pv} sorted by the CPU number")
        else:
            ctx.fail("C19.R5", "cpu_freq:cpu-order", cf.file, gl[0].lineno, cf.qual,
                     f"the cpufreq directories in `{pv}` are not sorted by CPU number (key=int(...)): "
                     f"with more than 10 CPUs entry i of cpu_freq(percpu=True) is not CPU i and "
                     f"the /proc/cpuinfo frequency is paired with another CPU's limits")
    # offline CPU probe
    for cf in repo.funcs(pm, "cpu_freq"):
        probes = [c for c in calls_in(cf.node) if dotted(c.func) in ("cat", "bcat") and c.args
                  and "online" in norm_stmt(deref(cf.node, c.args[0]))]
        if not probes:
            continue
        globs = [c.args[0].value for c in calls_in(cf.node) if dotted(c.func) == "glob.glob"
                 and c.args and isinstance(c.args[0], ast.Constant)]
        loopvars = {}
        for lp in ast.walk(cf.node):
            if isinstance(lp, ast.For):
                tg = lp.target.elts[-1] if isinstance(lp.target, ast.Tuple) else lp.target
                if isinstance(tg, ast.Name):
                    loopvars[tg.id] = globs

        def paths(e):
            e = deref(cf.node, e)
            if isinstance(e, ast.Constant) and isinstance(e.value, str):
                return [e.value]
            if isinstance(e, ast.JoinedStr):
                outs = [""]
                for v_ in e.values:
                    if isinstance(v_, ast.Constant):
                        outs = [o + v_.value for o in outs]
                    else:
                        outs = [o + "<N>" for o in outs]
                return outs
            if isinstance(e, ast.Name) and e.id in loopvars:
                return list(loopvars[e.id])
            if isinstance(e, ast.Call):
                fn_ = (dotted(deref(cf.node, e.func)) or "").split(".")[-1]
                if fn_ == "dirname" and e.args:
                    return [os.path.dirname(p_) for p_ in paths(e.args[0])]
                if fn_ in ("join", "pjoin") and e.args:
                    acc = paths(e.args[0])
                    for a_ in e.args[1:]:
                        acc = [os.path.join(x, y) for x in acc for y in paths(a_)]
                    return acc
            return ["?"]
        for c in probes:
            got = paths(c.args[0])
            key = "offline-cpu-probe"
            pat = _re.compile(r"^/sys/devices/system/cpu/cpu(<N>|\[0-9\]\*)/online$")
            bad = [g for g in got if not pat.match(g)]
            if "?" in got:
                ctx.advisory(f"C19.R5 {key}: probe path `{norm_stmt(c.args[0])}` is outside the "
                             f"evaluated subset; not decided")
                ctx.ok("C19.R5", key, sample="not decided", nontrivial=False)
            elif bad:
                ctx.fail("C19.R5", key, cf.file, c.lineno, cf.qual,
                         f"the offline-CPU probe reads {bad} for some cpufreq layout: that is "
                         f"not /sys/devices/system/cpu/cpu<N>/online, so an offline CPU is not "
                         f"recognised (NotImplementedError instead of zeros)")
            else:
                ctx.ok("C19.R5", key, sample=got)
