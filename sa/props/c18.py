"""C18 - nice/ionice/cpu_affinity/rlimit: get reads the kernel, set changes exactly that."""

import ast

from ..core import cfront as C
from ..core.analysis import Analysis, assigned_names, facts
from ..core.astutil import deref
from ..core.cfg import decompose_guard
from ..core.pyrepo import Repo, calls_in, dotted, norm_stmt
from ..core.report import AnalysisError
from .c15 import eval_pred


def run(ctx):
    repo = Repo(ctx.repo)
    A = Analysis(repo)
    pm = "_pslinux"

    # ------------------------------------------------------------------- R1
    ctx.rule("C18.R1", "validation dominates the native call: ionice level outside "
             "0-7 / level given for IDLE|NONE -> ValueError; level without class -> "
             "ValueError; rlimit limits not a pair -> ValueError; affinity errors are "
             "diagnosed per CPU; cpu_affinity([]) selects the eligible CPUs", floor=7)
    f = repo.func(pm, "Process.ionice_set")
    cfg = A.cfg(f)
    nat = [c for c in calls_in(f.node) if dotted(c.func) == "cext.proc_ioprio_set"]
    ctx.require(nat, "ionice_set: native call vanished")
    natn = [n for c in nat for n in cfg.owners(c)]
    params = [a.arg for a in f.node.args.args if a.arg != "self"]
    cls_p, val_p = params[0], params[1]
    raises = [n for n in cfg.nodes if n.kind == "raise" and "ValueError" in norm_stmt(n.stmt)]
    rng = idle = False
    for r in raises:
        gs = cfg.guards(r)
        if not gs or gs[-1][1] is not True:
            continue
        test = gs[-1][0]
        tn = [x for x in cfg.nodes if x.kind == "test" and x.expr is test][0]
        dom = all(cfg.dominates(tn, n) for n in natn)
        samples = {-1: True, 0: False, 3: False, 7: False, 8: True, 100: True}
        res = {k: eval_pred(test, {val_p: k}) for k in samples}
        if res == samples and dom:
            rng = True
        txt = norm_stmt(test).replace(" ", "")
        if dom and txt.startswith(f"{val_p}and{cls_p}in") and "IOPRIO_CLASS_IDLE" in txt \
                and "IOPRIO_CLASS_NONE" in txt:
            idle = True
    if rng:
        ctx.ok("C18.R1", "ionice:level-range", sample="value < 0 or value > 7 -> ValueError first")
    else:
        ctx.fail("C18.R1", "ionice:level-range", f.file, f.node.lineno, f.qual,
                 "an I/O priority level outside 0-7 is not rejected (ValueError) before "
                 "the native call")
    # the rejection itself must work for the plain integers the API documents
    # (ionice(3, 1) as well as ionice(IOPRIO_CLASS_IDLE, 1)): building the message may
    # format a parameter, not read attributes an int does not have
    params_ = {a_.arg for a_ in f.node.args.args if a_.arg != "self"}
    bad_attr = None
    def feeders(r_):
        # the raise expression and the assignments of its block that build what it uses
        used = {a_.id for a_ in ast.walk(r_.exc) if isinstance(a_, ast.Name)}
        out_ = [r_.exc]
        for blk in ast.walk(f.node):
            for fld in ("body", "orelse", "finalbody"):
                sub = getattr(blk, fld, None)
                if isinstance(sub, list) and r_ in sub:
                    for st_ in sub[:sub.index(r_)]:
                        if isinstance(st_, (ast.Assign, ast.AugAssign)) and any(
                                isinstance(t_, ast.Name) and t_.id in used
                                for t_ in (st_.targets if isinstance(st_, ast.Assign) else [st_.target])):
                            out_.append(st_.value)
        return out_
    for r_ in [x for x in ast.walk(f.node) if isinstance(x, ast.Raise) and x.exc is not None]:
        for e_ in feeders(r_):
            for at_ in [x for x in ast.walk(e_) if isinstance(x, ast.Attribute)
                        and isinstance(x.value, ast.Name) and x.value.id in params_]:
                if at_.attr not in ("real", "imag", "numerator", "denominator", "bit_length",
                                    "__class__", "to_bytes", "conjugate"):
                    bad_attr = (r_, at_)
    if bad_attr:
        ctx.fail("C18.R1", "ionice:error-for-plain-int", f.file, bad_attr[0].lineno, f.qual,
                 f"the error path evaluates `{norm_stmt(bad_attr[1])}`: for a class or level given "
                 f"as a plain int (ionice(3, 1)) that raises AttributeError instead of the "
                 f"documented ValueError")
    else:
        ctx.ok("C18.R1", "ionice:error-for-plain-int", nontrivial=False,
               sample="messages only format their parameters")
    if idle:
        ctx.ok("C18.R1", "ionice:level-for-idle-none", sample="value and ioclass in {IDLE, NONE} "
               "-> ValueError first")
    else:
        ctx.fail("C18.R1", "ionice:level-for-idle-none", f.file, f.node.lineno, f.qual,
                 "a level given for the IDLE/NONE class is not rejected before the native call")
    zero = [st for st in ast.walk(f.node) if isinstance(st, ast.Assign)
            and dotted(st.targets[0]) == val_p and isinstance(st.value, ast.Constant)
            and st.value.value == 0]
    zok = zero and all(("isnone", val_p, True) in facts(cfg, n)
                       for st in zero for n in cfg.nodes_of(st))
    if not zok:
        from ..core.astutil import none_to_default
        zok = any(none_to_default(st, val_p, 0) for st in ast.walk(f.node))
    if zok:
        ctx.ok("C18.R1", "ionice:none-is-0", sample="value is None -> 0")
    else:
        ctx.fail("C18.R1", "ionice:none-is-0", f.file, f.node.lineno, f.qual,
                 "a missing level is no longer treated as 0")
    args = [dotted(a) for a in nat[0].args]
    if args == ["self.pid", cls_p, val_p]:
        ctx.ok("C18.R1", "ionice:args", sample="proc_ioprio_set(self.pid, ioclass, value)")
    else:
        ctx.fail("C18.R1", "ionice:args", f.file, nat[0].lineno, f.qual,
                 f"native call receives {args}")
    fe = repo.func("psutil", "Process.ionice")
    fcfg = A.cfg(fe)
    ok = False
    for n in fcfg.nodes:
        if n.kind == "raise" and "ValueError" in norm_stmt(n.stmt):
            fparams = [a.arg for a in fe.node.args.args if a.arg != "self"]
            fs = facts(fcfg, n)
            if len(fparams) >= 2 and ("isnone", fparams[0], True) in fs \
                    and ("isnone", fparams[1], False) in fs:
                ok = True
    if ok:
        ctx.ok("C18.R1", "ionice:level-without-class", sample="ioclass is None and value is not "
               "None -> ValueError")
    else:
        ctx.fail("C18.R1", "ionice:level-without-class", fe.file, fe.node.lineno, fe.qual,
                 "a level without a class is no longer rejected")
    rl = repo.func(pm, "Process.rlimit")
    rcfg = A.cfg(rl)
    sets = [c for c in calls_in(rl.node) if dotted(c.func) == "resource.prlimit"
            and len(c.args) == 3]
    gets = [c for c in calls_in(rl.node) if dotted(c.func) == "resource.prlimit"
            and len(c.args) == 2]
    ctx.require(sets and gets, "rlimit: prlimit get/set calls vanished")
    lp = [a.arg for a in rl.node.args.args][2]
    good = False
    for n in rcfg.nodes:
        if n.kind == "raise" and "ValueError" in norm_stmt(n.stmt):
            gs = rcfg.guards(n)
            tx = [norm_stmt(e).replace(" ", "") for e, p, _ in gs if p is True]
            if f"len({lp})!=2" in tx:
                tn = [x for x in rcfg.nodes if x.kind == "test"
                      and norm_stmt(x.expr).replace(" ", "") == f"len({lp})!=2"][0]
                if all(rcfg.dominates(tn, m) for c in sets for m in rcfg.owners(c)):
                    good = True
    if good:
        ctx.ok("C18.R1", "rlimit:pair", sample="len(limits) != 2 -> ValueError before prlimit(set)")
    else:
        ctx.fail("C18.R1", "rlimit:pair", rl.file, rl.node.lineno, rl.qual,
                 "limits that are not a (soft, hard) pair are not rejected before the "
                 "kernel is asked to change anything")
    gs_ok = all(("isnone", lp, True) in facts(rcfg, m) for c in gets for m in rcfg.owners(c)) and \
        all(("isnone", lp, False) in facts(rcfg, m) for c in sets for m in rcfg.owners(c))
    a_ok = [dotted(a) for a in sets[0].args] == ["self.pid", "resource_", lp] and \
        [dotted(a) for a in gets[0].args] == ["self.pid", "resource_"]
    if gs_ok and a_ok:
        ctx.ok("C18.R1", "rlimit:get-set-split", sample="limits is None -> get; else set, on "
               "self.pid with the caller's resource and limits")
    else:
        ctx.fail("C18.R1", "rlimit:get-set-split", rl.file, rl.node.lineno, rl.qual,
                 "rlimit no longer reads when limits is None and writes exactly the "
                 "caller's (resource, limits) otherwise")
    ca = repo.func(pm, "Process.cpu_affinity_set")
    acfg = A.cfg(ca)
    vraise = [n for n in acfg.nodes if n.kind == "raise" and isinstance(n.stmt.exc, ast.Call)
              and dotted(n.stmt.exc.func) == "ValueError"]
    # facts, not spellings: a ValueError is raised under `cpu not in all_cpus`, another
    # under `cpu not in eligible_cpus`, both only when the failure was EINVAL/ValueError
    fsets = [set(facts(acfg, n)) for n in vraise]
    def einval(fs):
        # the diagnosis branch: not (err is neither a ValueError nor EINVAL)
        return not (("isinstance", "err", "ValueError", False) in fs
                    and ("eq", "err.errno", "errno.EINVAL", False) in fs) and any(
            f[0] in ("isinstance", "eq") and "err" in f[1] or f[0] == "expr" and "err" in f[1]
            for f in fs)
    diag = any(("in", "cpu", "all_cpus", False) in fs and einval(fs) for fs in fsets) \
        and any(("in", "cpu", "eligible_cpus", False) in fs and einval(fs) for fs in fsets)
    last_reraise = any(n.kind == "raise" and n.stmt.exc is None for n in acfg.nodes)
    if diag and last_reraise:
        ctx.ok("C18.R1", "affinity:diagnosis", sample="EINVAL/ValueError -> ValueError naming the "
               "invalid / ineligible CPU; otherwise re-raise")
    else:
        ctx.fail("C18.R1", "affinity:diagnosis", ca.file, ca.node.lineno, ca.qual,
                 "an affinity request naming nonexistent or ineligible CPUs no longer "
                 "raises ValueError")
    fa = repo.func("psutil", "Process.cpu_affinity")
    facfg = A.cfg(fa)
    cp = [a.arg for a in fa.node.args.args if a.arg != "self"]
    cp = cp[0] if cp else "cpus"
    el = [st for st in ast.walk(fa.node) if isinstance(st, ast.Assign)
          and dotted(st.targets[0]) == cp
          and "_get_eligible_cpus" in norm_stmt(deref(fa.node, st.value))]
    eok = el and all(("truthy", cp, False) in facts(facfg, n)
                     for st in el for n in facfg.nodes_of(st))
    # what "eligible" means: the kernel's Cpus_allowed_list, or every CPU - never
    # the process's CURRENT mask (then cpu_affinity([]) would change nothing)
    from ..core.absint import Interp, alternatives, pretty
    from ..core.forms import canon
    ge = repo.func(pm, "Process._get_eligible_cpus", required=False)
    if eok and ge is not None:
        Ie = Interp(repo, A)
        te = canon(Ie.call_function(ge, []))
        for alt in alternatives(te):
            txt = pretty(alt)
            if "affinity" in txt:
                eok = False
                ctx.fail("C18.R1", "affinity:empty-list", ge.file, ge.node.lineno, ge.qual,
                         f"the 'eligible CPUs' can be `{txt[:90]}`, i.e. the process's current "
                         f"affinity: cpu_affinity([]) then re-applies the current mask instead "
                         f"of selecting all eligible CPUs")
                break
            if "Cpus_allowed_list" not in txt and "stat" not in txt and "cpu_count" not in txt:
                eok = False
                ctx.fail("C18.R1", "affinity:empty-list", ge.file, ge.node.lineno, ge.qual,
                         f"the 'eligible CPUs' `{txt[:90]}` come neither from the kernel's "
                         f"Cpus_allowed_list nor from the CPU table")
                break
        if not eok:
            pass
    if ge is not None and not eok and any(f_.key == "C18.R1:affinity:empty-list"
                                          for f_ in ctx.findings):
        pass
    elif eok:
        ctx.ok("C18.R1", "affinity:empty-list", sample="not cpus -> _get_eligible_cpus()")
    else:
        ctx.fail("C18.R1", "affinity:empty-list", fa.file, fa.node.lineno, fa.qual,
                 "cpu_affinity([]) no longer selects all eligible CPUs")

    # lists with duplicates select the same CPUs: either the front end hands the
    # platform a duplicate-free collection, or every platform builds its mask
    # idempotently (OR-ing bits; adding them turns [0, 0] into CPU 1)
    setcalls = [c for c in ast.walk(fa.node) if isinstance(c, ast.Call)
                and isinstance(c.func, ast.Attribute) and c.func.attr == "cpu_affinity_set"]
    dedup = bool(setcalls) and all(
        any(isinstance(x, ast.Call) and dotted(x.func) in ("set", "frozenset", "dict.fromkeys")
            or isinstance(x, (ast.Set, ast.SetComp))
            for a_ in c.args for x in ast.walk(deref(fa.node, a_)))
        for c in setcalls)
    additive = []
    for wf in repo.all_funcs("_pswindows"):
        if "affinity" not in wf.qual or "set" not in wf.qual:
            continue
        for x in ast.walk(wf.node):
            if isinstance(x, ast.Call) and dotted(x.func) == "sum":
                additive.append((wf, x))
            elif isinstance(x, ast.AugAssign) and isinstance(x.op, ast.Add) \
                    and any(isinstance(y, (ast.Pow, ast.LShift)) for y in ast.walk(x.value)):
                additive.append((wf, x))
    if dedup or not additive:
        ctx.ok("C18.R1", "affinity:duplicates", nontrivial=True,
               sample="front end passes list(set(cpus))" if dedup else
               "platform masks are built by OR-ing bits")
    else:
        wf, x = additive[0]
        ctx.fail("C18.R1", "affinity:duplicates", wf.file, x.lineno, wf.qual,
                 f"cpu_affinity() hands the CPU list to the platform with its duplicates and "
                 f"`{norm_stmt(x)}` ADDS one bit per entry: [0, 0] selects CPU 1, [5, 5] an "
                 f"invalid mask")

    # ------------------------------------------------------------------- R3
    ctx.rule("C18.R3", "get forms read the matching native for the object's pid and "
             "wrap it in the documented type", floor=4)
    table = {
        "Process.nice_get": ("cext_posix.getpriority", ["self.pid"]),
        "Process.nice_set": ("cext_posix.setpriority", ["self.pid", "value"]),
        "Process.ionice_get": ("cext.proc_ioprio_get", ["self.pid"]),
        "Process.cpu_affinity_get": ("cext.proc_cpu_affinity_get", ["self.pid"]),
        "Process.cpu_affinity_set": ("cext.proc_cpu_affinity_set", ["self.pid", "cpus"]),
    }
    for q, (native, wargs) in table.items():
        fq = repo.func(pm, q)
        cs = [c for c in calls_in(fq.node) if dotted(c.func) == native]
        if len(cs) == 1 and [dotted(a) for a in cs[0].args] == wargs:
            ctx.ok("C18.R3", q, sample=f"{q} -> {native}({', '.join(wargs)})")
        else:
            ctx.fail("C18.R3", q, fq.file, fq.node.lineno, fq.qual,
                     f"{q} no longer calls {native}({', '.join(wargs)}) exactly once: "
                     f"{[norm_stmt(c) for c in cs]}")
    ig = repo.func(pm, "Process.ionice_get")
    r = [s for s in ast.walk(ig.node) if isinstance(s, ast.Return)]
    txt = norm_stmt(ig.node).replace(" ", "")
    if r and norm_stmt(r[0].value).replace(" ", "") == "_common.pionice(ioclass,value)" \
            and "ioclass,value=cext.proc_ioprio_get(self.pid)" in txt \
            and "ioclass=IOPriority(ioclass)" in txt:
        ctx.ok("C18.R3", "ionice_get:type", sample="pionice(IOPriority(ioclass), value)")
    else:
        ctx.fail("C18.R3", "ionice_get:type", ig.file, ig.node.lineno, ig.qual,
                 "ionice() no longer returns pionice(IOPriority(class), value) in that order")
    fa_get = [n for n in ast.walk(fa.node) if isinstance(n, ast.Return) and n.value is not None]
    if fa_get and norm_stmt(deref(fa.node, fa_get[0].value)).replace(" ", "") == \
            "sorted(set(self._proc.cpu_affinity_get()))":
        ctx.ok("C18.R3", "cpu_affinity:get", sample="sorted(set(native list))")
    else:
        ctx.fail("C18.R3", "cpu_affinity:get", fa.file, fa.node.lineno, fa.qual,
                 "cpu_affinity() get form changed")

    # ------------------------------------------------------------------- R2/R4 (C)
    ctx.rule("C18.R2", "ioprio pack/unpack agree: the class shift used to pack "
             "equals the one used to unpack and the data mask is (1 << shift) - 1; "
             "get passes the syscall result through both", floor=3)
    ctx.rule("C18.R4", "affinity sizing: the CPU-set growth loop doubles only under "
             "the INT_MAX/2 guard and frees the set before re-allocating; "
             "getpriority uses the errno protocol", floor=3)
    tus = C.load_all(ctx.repo)
    fns = {}
    for tu in tus:
        for fn in tu["functions"]:
            C.assign_lines(fn)
            fns[fn["name"]] = fn
    g, s = fns.get("psutil_proc_ioprio_get"), fns.get("psutil_proc_ioprio_set")
    ctx.require(g and s, "ioprio C functions vanished")
    shr = [n for n in C.walk(g) if n.get("kind") == "BinaryOperator" and n.get("opcode") == ">>"]
    andm = [n for n in C.walk(g) if n.get("kind") == "BinaryOperator" and n.get("opcode") == "&"]
    shl = [n for n in C.walk(s) if n.get("kind") == "BinaryOperator" and n.get("opcode") == "<<"
           and C.int_value(C.kids(n)[1]) is not None
           and C.int_value(C.kids(n)[0]) is None]
    sh_get = C.int_value(C.kids(shr[0])[1]) if shr else None
    sh_set = C.int_value(C.kids(shl[0])[1]) if shl else None
    mask = C.int_value(C.kids(andm[0])[1]) if andm else None
    if sh_get is not None and sh_get == sh_set == 13:
        ctx.ok("C18.R2", "shift", sample={"pack": sh_set, "unpack": sh_get})
    else:
        ctx.fail("C18.R2", "shift", s["_file"], s["_line"], s["name"],
                 f"class is packed with << {sh_set} but unpacked with >> {sh_get} (kernel: "
                 f"IOPRIO_CLASS_SHIFT = 13)")
    if mask is not None and sh_get is not None and mask == (1 << sh_get) - 1:
        ctx.ok("C18.R2", "mask", sample=hex(mask))
    else:
        ctx.fail("C18.R2", "mask", g["_file"], g["_line"], g["name"],
                 f"data mask is {mask}, expected (1 << {sh_get}) - 1")
    # packing is (class << shift) | data with both parsed arguments
    orn = [n for n in C.walk(s) if n.get("kind") == "BinaryOperator" and n.get("opcode") == "|"]
    names = set()
    for n in orn:
        names |= {(x.get("referencedDecl") or {}).get("name") for x in C.walk(n)} - {None}
    parsed = []
    for n in C.walk(s):
        if n.get("kind") == "CallExpr" and C.callee(n) == "PyArg_ParseTuple":
            for a in C.call_args(n)[2:]:
                core = C.strip_all(a)
                if core.get("kind") == "UnaryOperator" and core.get("opcode") == "&":
                    parsed.append((C.strip_all(C.kids(core)[0]).get("referencedDecl") or {})
                                  .get("name"))
    shifted = set()
    for n in shl:
        shifted |= {(x.get("referencedDecl") or {}).get("name")
                    for x in C.walk(C.kids(n)[0])} - {None}
    # Python passes (pid, ioclass, value): the 2nd parsed argument is the class
    if len(parsed) == 3 and parsed[1] in shifted and parsed[2] not in shifted \
            and {parsed[1], parsed[2]} <= names:
        ctx.ok("C18.R2", "pack", sample=f"({parsed[1]} << 13) | {parsed[2]}")
    else:
        ctx.fail("C18.R2", "pack", s["_file"], s["_line"], s["name"],
                 f"packed value is built from {sorted(names)}")
    # affinity growth loop
    ag = fns.get("psutil_proc_cpu_affinity_get")
    ctx.require(ag, "psutil_proc_cpu_affinity_get vanished")
    loops = [n for n in C.walk(ag) if n.get("kind") == "WhileStmt"]
    ok_guard = ok_free = False
    if loops:
        body = loops[0]
        dbl = []
        for n in C.walk(body):
            if n.get("kind") == "BinaryOperator" and n.get("opcode") == "=":
                l, r = C.kids(n)
                lv = (C.strip_all(l).get("referencedDecl") or {}).get("name")
                rr = C.strip_all(r)
                if rr.get("kind") == "BinaryOperator" and rr.get("opcode") in ("*", "<<") and \
                        lv in {(x.get("referencedDecl") or {}).get("name") for x in C.walk(rr)}:
                    dbl.append(n)
            if n.get("kind") == "CompoundAssignOperator" and n.get("opcode") in ("*=", "<<="):
                dbl.append(n)
        guards = [n for n in C.walk(body) if n.get("kind") == "IfStmt" and any(
            x.get("kind") == "BinaryOperator" and x.get("opcode") == ">" and
            any(y.get("kind") == "BinaryOperator" and y.get("opcode") == "/" for y in C.walk(x))
            for x in C.walk(C.kids(n)[0]))]
        if dbl and guards and guards[0]["_ord"] < dbl[0]["_ord"] and any(
                x.get("kind") == "ReturnStmt" for x in C.walk(guards[0])):
            ok_guard = True
        frees = [n for n in C.walk(body) if n.get("kind") == "CallExpr"
                 and C.callee(n) == "__sched_cpufree"]
        allocs = [n for n in C.walk(body) if n.get("kind") == "CallExpr"
                  and C.callee(n) == "__sched_cpualloc"]
        if frees and allocs and dbl and allocs[0]["_ord"] < frees[0]["_ord"] < dbl[0]["_ord"]:
            ok_free = True
    if ok_guard:
        ctx.ok("C18.R4", "growth-guard", sample="ncpus > INT_MAX / 2 -> OverflowError before ncpus * 2")
    else:
        ctx.fail("C18.R4", "growth-guard", ag["_file"], ag["_line"], ag["name"],
                 "the CPU-set size is doubled without the INT_MAX/2 overflow guard")
    if ok_free:
        ctx.ok("C18.R4", "free-before-realloc", sample="CPU_FREE(mask) before the next CPU_ALLOC")
    else:
        ctx.fail("C18.R4", "free-before-realloc", ag["_file"], ag["_line"], ag["name"],
                 "the CPU set is not freed before being re-allocated (leak per retry)")
    gp = fns.get("psutil_posix_getpriority")
    ctx.require(gp, "psutil_posix_getpriority vanished")
    zero = [n for n in C.walk(gp) if n.get("kind") == "BinaryOperator" and n.get("opcode") == "="
            and "errno" in _txt(C.kids(n)[0]) and C.int_value(C.kids(n)[1]) == 0]
    call = [n for n in C.walk(gp) if n.get("kind") == "CallExpr" and C.callee(n) == "getpriority"]
    chk = [n for n in C.walk(gp) if n.get("kind") == "IfStmt" and "errno" in _txt(C.kids(n)[0])]
    if zero and call and chk and zero[0]["_ord"] < call[0]["_ord"] < chk[0]["_ord"]:
        ctx.ok("C18.R4", "getpriority:errno", sample="errno = 0; getpriority(); if (errno != 0) error")
    else:
        ctx.fail("C18.R4", "getpriority:errno", gp["_file"], gp["_line"], gp["name"],
                 "getpriority() may legitimately return -1: errno must be cleared before "
                 "and tested after the call")
    ctx.assume("that the kernel reports back what was set is a run-time fact, not decided")
    return ("Dominance of the Python-side validation over the native setters (guard "
            "predicates evaluated over the sign/level partition), exact forwarding of "
            "pid and value, typed-AST constant folding of the ioprio shift/mask macros "
            "and ordering rules in the affinity growth loop and the getpriority errno "
            "protocol.",
            "CFG dominance, typed-AST constant folding and ordering rules")


def _txt(n):
    return " ".join(str((x.get("referencedDecl") or {}).get("name") or x.get("name") or "")
                    for x in C.walk(n)) + " " + " ".join(
        str(x.get("value", "")) for x in C.walk(n))
