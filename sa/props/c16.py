"""C16 - oneshot() and as_dict() change speed, never answers."""

import ast

from ..core.analysis import Analysis, facts
from ..core.astutil import enclosing_trys, handler_catches, method_calls, path_templates
from ..core.cfg import handler_names
from ..core.pyrepo import Repo, calls_in, dotted, norm_stmt

PLAT_MODS = ["_pslinux", "_psbsd", "_psosx", "_pssunos", "_psaix", "_pswindows"]


_METHODS = {}       # class methods in scope, set by run(): name -> [FuncInfo]


def _reader_set(e, mod=None):
    """Names m for an expression denoting a collection of `self.m` bound methods: a
    literal tuple/list, or `self.<meth>()` whose body is `return (self.a, self.b, ...)`."""
    if isinstance(e, (ast.Tuple, ast.List)) and e.elts and all(
            isinstance(x, ast.Attribute) and dotted(x.value) == "self" for x in e.elts):
        return [x.attr for x in e.elts]
    if isinstance(e, ast.Call) and isinstance(e.func, ast.Attribute) \
            and dotted(e.func.value) == "self" and not e.args:
        for mn_, mods in _METHODS.items():
            if mod is not None and mn_ != mod:
                continue
            for f_ in mods.get(e.func.attr, []):
                rets = [r for r in ast.walk(f_.node) if isinstance(r, ast.Return)]
                if len(rets) == 1 and rets[0].value is not None:
                    got = _reader_set(rets[0].value, mod)
                    if got:
                        return got
    return None


def _activations(stmts, which, mod=None):
    """{(method, condition-text)} for X.cache_activate(self) / cache_deactivate."""
    out = set()

    def rec(body, cond):
        for st in body:
            if isinstance(st, ast.For) and isinstance(st.target, ast.Name) and not st.orelse:
                # for reader in (self.a, self.b) / self._sources(): reader.cache_activate(self)
                names_ = _reader_set(st.iter, mod)
                if names_:
                    for c in [x for b_ in st.body for x in ast.walk(b_) if isinstance(x, ast.Call)]:
                        if isinstance(c.func, ast.Attribute) and c.func.attr == which \
                                and dotted(c.func.value) == st.target.id:
                            for m_ in names_:
                                out.add((m_, cond))
                    continue
            if isinstance(st, ast.If):
                rec(st.body, cond + (norm_stmt(st.test),))
                rec(st.orelse, cond + ("not " + norm_stmt(st.test),))
                continue
            compound = False
            for f in ("body", "orelse", "finalbody"):
                b = getattr(st, f, None)
                if isinstance(b, list) and b and isinstance(b[0], ast.stmt):
                    compound = True
                    rec(b, cond)
            for h in getattr(st, "handlers", []) or []:
                rec(h.body, cond)
            if compound:
                continue
            for c in calls_in(st):
                if isinstance(c.func, ast.Attribute) and c.func.attr == which \
                        and isinstance(c.func.value, ast.Attribute) \
                        and dotted(c.func.value.value) == "self":
                    out.add((c.func.value.attr, cond))
    rec(stmts, ())
    return out


def oneshot_cleanup_in_finally(repo):
    """(ok, where): every cache deactivation / oneshot_exit of Process.oneshot()
    sits in the `finally` of a try whose body holds the activating yield.
    Shared with C03: without it an exception inside the block leaves the caches
    active and a gone process keeps answering from them."""
    one = repo.func("psutil", "Process.oneshot")
    fin = set()
    for t in ast.walk(one.node):
        if isinstance(t, ast.Try) and t.finalbody and any(
                isinstance(x, ast.Yield) for b in t.body for x in ast.walk(b)):
            for b in t.finalbody:
                fin |= {id(x) for x in ast.walk(b)}
    de = [c for c in calls_in(one.node) if isinstance(c.func, ast.Attribute)
          and c.func.attr in ("cache_deactivate", "oneshot_exit")]
    out = [c for c in de if id(c) not in fin]
    return (bool(de) and not out), (out[0] if out else None), one


def run(ctx):
    repo = Repo(ctx.repo)
    A = Analysis(repo)
    one = repo.func("psutil", "Process.oneshot")
    _METHODS.clear()
    for mn_ in ["psutil"] + list(PLAT_MODS):
        try:
            _METHODS[mn_] = repo.methods(mn_, "Process")
        except Exception:  # noqa: BLE001
            pass

    # ------------------------------------------------------------------- R1
    ctx.rule("C16.R1", "typestate pairing: what oneshot() activates in its try is "
             "exactly what its finally deactivates (same conditions), "
             "_proc.oneshot_enter pairs with oneshot_exit; per platform module "
             "enter/exit name the same methods; activated <=> decorated "
             "memoize_when_activated", floor=8)
    trys = [t for t in ast.walk(one.node) if isinstance(t, ast.Try) and t.finalbody
            and any(isinstance(x, ast.Yield) for b in t.body for x in ast.walk(b))]
    act = set()
    if not trys:
        act_any = _activations(one.node.body, "cache_activate", "psutil")
        ctx.require(act_any, "oneshot(): cache activation vanished")
        act = act_any
        ctx.fail("C16.R1", "frontend:pairs", one.file, one.node.lineno, one.qual,
                 "the caches oneshot() activates are not deactivated in a `finally` around "
                 "the yield: when the block is left by an exception they stay active and "
                 "every later call keeps answering from the stale snapshot")
    else:
        t = trys[0]
        act = _activations(t.body, "cache_activate", "psutil")
        deact = _activations(t.finalbody, "cache_deactivate", "psutil")
        act_any = _activations(one.node.body, "cache_activate", "psutil")
        deact_any = _activations(one.node.body, "cache_deactivate", "psutil")
        names = lambda xs: {m for m, _ in xs}  # noqa: E731
        if act == deact and act and names(act_any) == names(act) \
                and names(deact_any) == names(deact):
            ctx.ok("C16.R1", "frontend:pairs", sample={"activate/deactivate": sorted(map(str, act))})
        else:
            ctx.fail("C16.R1", "frontend:pairs", one.file, t.lineno, one.qual,
                     f"activated in try: {sorted(map(str, act_any))}; deactivated in finally: "
                     f"{sorted(map(str, deact))}; (deactivations outside finally: "
                     f"{sorted(map(str, deact_any - deact))}) - after the block some method "
                     f"would keep answering from a stale cache or leak on exception")
        enter_in_try = any(method_calls(s, "oneshot_enter", "self._proc") for s in t.body)
        exit_in_fin = any(method_calls(s, "oneshot_exit", "self._proc") for s in t.finalbody)
        # yield inside try, after the activations
        yields = [s for s in t.body if isinstance(s, ast.Expr) and isinstance(s.value, ast.Yield)]
        order_ok = bool(yields) and t.body.index(yields[0]) == len(t.body) - 1
        if enter_in_try and exit_in_fin and order_ok:
            ctx.ok("C16.R1", "frontend:enter-exit", sample="oneshot_enter in try, yield last, "
                   "oneshot_exit in finally")
        else:
            ctx.fail("C16.R1", "frontend:enter-exit", one.file, t.lineno, one.qual,
                     "self._proc.oneshot_enter()/oneshot_exit() are not paired around the "
                     "yield by try/finally")
    # decorated <=> activated (front end)
    deco = {n for n, fs in repo.methods("psutil", "Process").items()
            for f in fs if "memoize_when_activated" in f.decorators}
    actn = {m for m, _ in act}
    if deco == actn:
        ctx.ok("C16.R1", "frontend:decorated=activated", sample=sorted(deco))
    else:
        ctx.fail("C16.R1", "frontend:decorated=activated", one.file, one.node.lineno,
                 one.qual, f"decorated but never activated: {sorted(deco - actn)}; "
                 f"activated but not decorated: {sorted(actn - deco)}")
    for pm in PLAT_MODS:
        en = repo.func(pm, "Process.oneshot_enter", required=False)
        ex = repo.func(pm, "Process.oneshot_exit", required=False)
        ctx.require(en and ex, f"{pm}: oneshot_enter/oneshot_exit vanished")
        a = {m for m, _ in _activations(en.node.body, "cache_activate", pm)}
        d = {m for m, _ in _activations(ex.node.body, "cache_deactivate", pm)}
        dec = {n for n, fs in repo.methods(pm, "Process").items()
               for f in fs if "memoize_when_activated" in f.decorators}
        if a == d == dec and a:
            ctx.ok("C16.R1", f"{pm}:pairs", sample={pm: sorted(a)})
        else:
            ctx.fail("C16.R1", f"{pm}:pairs", en.file, en.node.lineno, en.qual,
                     f"{pm}: activated {sorted(a)}, deactivated {sorted(d)}, decorated "
                     f"{sorted(dec)} - these three sets must coincide")

    # ------------------------------------------------------------------- R2
    ctx.rule("C16.R2", "read-once sources: in _pslinux.Process only memoised readers "
             "open <pid>/stat, <pid>/status and <pid>/smaps (uncached zombie probe "
             "_is_zombie excepted, reached only via _raise_if_zombie)", floor=3)
    openers = {"open_binary", "open_text", "bcat", "cat", "open"}
    found = {}
    for fi in repo.all_funcs("_pslinux"):
        if fi.cls != "Process":
            continue
        for c in calls_in(fi.node):
            if dotted(c.func) in openers and c.args:
                # every path the argument can denote: temporaries, string building
                # and parameters (default + constants passed by callers) resolved
                for tmpl in sorted(path_templates(repo, fi, c.args[0])):
                    if "{self.pid}" not in tmpl:
                        continue
                    tail = tmpl.split("{self.pid}", 1)[1]   # <pid>/task/<tid>/stat is another record
                    if tail in ("/stat", "/status", "/smaps"):
                        found.setdefault(tail, []).append((fi, c))
    ctx.require(set(found) == {"/stat", "/status", "/smaps"},
                f"per-process record readers not found: {sorted(found)}")
    enter = {m for m, _ in _activations(
        repo.func("_pslinux", "Process.oneshot_enter").node.body, "cache_activate", "_pslinux")}
    for tail, sites in sorted(found.items()):
        for fi, c in sites:
            key = f"{fi.qual}:{tail}"
            if "memoize_when_activated" in fi.decorators and fi.name in enter:
                ctx.ok("C16.R2", key, sample=f"{fi.qual} (memoised, activated) opens <pid>{tail}")
            elif fi.name == "_is_zombie":
                callers = [g.qual for g in repo.all_funcs("_pslinux")
                           if g is not fi and method_calls(g.node, "_is_zombie")]
                if set(callers) <= {"Process._raise_if_zombie"}:
                    ctx.ok("C16.R2", key, sample="_is_zombie: uncached liveness probe, "
                           "only via _raise_if_zombie", nontrivial=False)
                else:
                    ctx.fail("C16.R2", key, fi.file, c.lineno, fi.qual,
                             f"the uncached zombie probe is used by {callers}")
            else:
                ctx.fail("C16.R2", key, fi.file, c.lineno, fi.qual,
                         f"{fi.qual} opens <pid>{tail} directly: inside oneshot() the "
                         f"record would be read more than once and methods would "
                         f"answer from different snapshots")
    # memoised readers keep a wrap_exceptions frame *outside* the cache
    for name in sorted(enter):
        f = repo.func("_pslinux", f"Process.{name}")
        d = f.decorators
        if "wrap_exceptions" in d and "memoize_when_activated" in d \
                and d.index("wrap_exceptions") < d.index("memoize_when_activated"):
            ctx.ok("C16.R2", f"decorator-order:{name}", nontrivial=False)
        else:
            ctx.fail("C16.R2", f"decorator-order:{name}", f.file, f.node.lineno, f.qual,
                     f"decorators {d}: the translator must wrap the memoiser")

    # ------------------------------------------------------------------- R3
    ctx.rule("C16.R3", "the whole oneshot() body runs under self._lock; a nested "
             "block (hasattr(self, '_cache')) yields without touching the caches",
             floor=2)
    # everything that touches the per-object cache state, and the yield itself,
    # is lexically inside `with self._lock` (statements that do neither - logging -
    # may sit anywhere)
    TOUCH = ("cache_activate", "cache_deactivate", "oneshot_enter", "oneshot_exit")

    def sensitive(x):
        if isinstance(x, (ast.Yield, ast.YieldFrom)):
            return True
        if isinstance(x, ast.Call) and isinstance(x.func, ast.Attribute) and x.func.attr in TOUCH:
            return True
        if isinstance(x, ast.Attribute) and dotted(x) == "self._cache":
            return True
        if isinstance(x, ast.Call) and dotted(x.func) in ("hasattr", "getattr", "delattr") \
                and len(x.args) > 1 and isinstance(x.args[1], ast.Constant) \
                and x.args[1].value == "_cache":
            return True
        return False
    locked = set()
    for w_ in ast.walk(one.node):
        if isinstance(w_, ast.With) and any(dotted(i.context_expr) == "self._lock"
                                            for i in w_.items):
            for b in w_.body:
                locked |= {id(x) for x in ast.walk(b)}
    sens = [x for x in ast.walk(one.node) if sensitive(x)]
    out = [x for x in sens if id(x) not in locked]
    if sens and not out:
        ctx.ok("C16.R3", "lock", sample=f"with self._lock: {len(sens)} cache accesses + yield")
    else:
        ctx.fail("C16.R3", "lock", one.file, (out[0].lineno if out else one.node.lineno), one.qual,
                 "oneshot() no longer holds self._lock around enter/yield/exit"
                 + (f": `{norm_stmt(out[0])[:60]}` is outside the lock" if out else ""))
    cfg = A.cfg(one)
    nested_ok = False
    for n in cfg.nodes:
        if n.kind == "stmt" and isinstance(n.stmt, ast.Expr) and isinstance(n.stmt.value, ast.Yield):
            fs = [(norm_stmt(e), p) for e, p, _ in cfg.guards(n)]
            if ("hasattr(self, '_cache')", True) in fs:
                # nothing but the yield in that branch
                br = [s for s in ast.walk(one.node) if isinstance(s, ast.If)
                      and norm_stmt(s.test) == "hasattr(self, '_cache')"]
                if br and not any(sensitive(x) and not isinstance(x, (ast.Yield, ast.YieldFrom))
                                  for b_ in br[0].body for x in ast.walk(b_)):
                    nested_ok = True
    # the activating branch must be the else of that test
    act_nodes = [n for n in cfg.nodes if n.kind == "stmt" for c in calls_in(n.stmt)
                 if isinstance(c.func, ast.Attribute) and c.func.attr == "cache_activate"]
    act_guarded = bool(act_nodes) and all(
        ("hasattr(self, '_cache')", False) in [(norm_stmt(e), p) for e, p, _ in cfg.guards(n)]
        for n in act_nodes)
    if nested_ok and act_guarded:
        ctx.ok("C16.R3", "nested-noop", sample="hasattr(self,'_cache') -> bare yield")
    else:
        ctx.fail("C16.R3", "nested-noop", one.file, one.node.lineno, one.qual,
                 "a nested oneshot() would re-activate (dropping the outer cache) or "
                 "deactivate the outer block's caches on exit")

    # ------------------------------------------------------------------- R4
    ctx.rule("C16.R4", "memoiser tolerates concurrent deactivation: AttributeError on "
             "lookup -> direct call; KeyError -> compute, store with AttributeError "
             "tolerated; fun's own exceptions propagate; deactivate tolerates a "
             "missing cache", floor=3)
    w = repo.func("_common", "memoize_when_activated.wrapper")
    t = [x for x in w.node.body if isinstance(x, ast.Try)]
    probs = []
    # `fun(self)` itself, or a sibling closure that only passes the call through
    # (returns fun(<its parameter>); its handlers around that call only re-raise)
    passthru = set()
    deco = repo.func("_common", "memoize_when_activated")
    for g_ in [x for x in deco.node.body if isinstance(x, ast.FunctionDef) and x is not w.node]:
        rets_ = [r for r in ast.walk(g_) if isinstance(r, ast.Return)]
        par_ = [a_.arg for a_ in g_.args.args]
        if rets_ and len(par_) == 1 and all(
                isinstance(r.value, ast.Call) and dotted(r.value.func) == "fun"
                and [dotted(a_) for a_ in r.value.args] == par_ for r in rets_) \
                and all(len(h_.body) == 1 and isinstance(h_.body[0], ast.Raise)
                        for x_ in ast.walk(g_) if isinstance(x_, ast.Try) for h_ in x_.handlers):
            passthru.add(g_.name)

    def is_fun_call(c_):
        return isinstance(c_, ast.Call) and (dotted(c_.func) == "fun" or dotted(c_.func) in passthru)
    if not t:
        probs.append("lookup try vanished")
    else:
        t = t[0]
        look = norm_stmt(t.body[0]).replace(" ", "") if t.body else ""
        if "self._cache[fun]" not in look:
            probs.append("lookup is not self._cache[fun]")
        hs = {tuple(sorted(handler_names(h) or ["*"])): h for h in t.handlers}
        ha = hs.get(("AttributeError",))
        hk = hs.get(("KeyError",))
        if ha is None or hk is None or len(t.handlers) != 2:
            probs.append(f"handlers are {list(hs)}; expected AttributeError and KeyError")
        else:
            if not any(isinstance(s, ast.Return) and is_fun_call(s.value)
                       for st in ha.body for s in ast.walk(st)):
                probs.append("AttributeError case does not call fun(self) directly")
            stores = [s for st in hk.body for s in ast.walk(st) if isinstance(s, ast.Assign)
                      and norm_stmt(s.targets[0]).replace(" ", "") == "self._cache[fun]"]
            if not stores:
                probs.append("KeyError case does not store the result")
            else:
                et = enclosing_trys(w.node, stores[0])
                tol = any(handler_catches(h, ["AttributeError"]) and
                          not any(isinstance(s, ast.Raise) for b in h.body for s in ast.walk(b))
                          for x in et for h in x.handlers if x is not t)
                if not tol:
                    probs.append("storing into a cache deleted by another thread would "
                                 "raise AttributeError")
            # exceptions from fun: handlers around fun(self) only re-raise
            for h in (ha, hk):
                for x in ast.walk(h):
                    if isinstance(x, ast.Try) and any(
                            isinstance(c, ast.Call) and dotted(c.func) == "fun"
                            for b in x.body for c in ast.walk(b)):
                        for hh in x.handlers:
                            if not (len(hh.body) == 1 and isinstance(hh.body[0], ast.Raise)):
                                probs.append("an exception raised by the wrapped method "
                                             "is swallowed or replaced")
    if probs:
        ctx.fail("C16.R4", "wrapper", w.file, w.node.lineno, w.qual, "; ".join(probs))
    else:
        ctx.ok("C16.R4", "wrapper", sample="try self._cache[fun] / AttributeError -> "
               "fun(self) / KeyError -> compute+store (AttributeError tolerated)")
    d = repo.func("_common", "memoize_when_activated.cache_deactivate")
    dels = [s for s in ast.walk(d.node) if isinstance(s, ast.Delete)]
    good = bool(dels) and any(handler_catches(h, ["AttributeError"])
                              for x in enclosing_trys(d.node, dels[0]) for h in x.handlers)
    if good:
        ctx.ok("C16.R4", "deactivate", sample="del proc._cache under except AttributeError")
    else:
        ctx.fail("C16.R4", "deactivate", d.file, d.node.lineno, d.qual,
                 "cache_deactivate no longer deletes the cache tolerantly")
    a = repo.func("_common", "memoize_when_activated.cache_activate")
    st = [s for s in ast.walk(a.node) if isinstance(s, ast.Assign)]
    ap0 = a.node.args.args[0].arg if a.node.args.args else "proc"
    if st and any(isinstance(s_.targets[0], ast.Attribute) and s_.targets[0].attr == "_cache"
                  and dotted(s_.targets[0].value) == ap0
                  and (isinstance(s_.value, ast.Dict) and not s_.value.keys
                       or isinstance(s_.value, ast.Call) and dotted(s_.value.func) == "dict"
                       and not s_.value.args and not s_.value.keywords) for s_ in st):
        ctx.ok("C16.R4", "activate", sample="proc._cache = {}")
    else:
        ctx.fail("C16.R4", "activate", a.file, a.node.lineno, a.qual,
                 "cache_activate does not start from an empty per-object cache")

    # ------------------------------------------------------------------- R5
    ctx.rule("C16.R5", "as_dict: the queries run inside one oneshot() block; type and name validation dominate the first query; "
             "exactly the iterated names become keys; AccessDenied/ZombieProcess -> "
             "ad_value; NoSuchProcess is not swallowed", floor=4)
    ad = repo.func("psutil", "Process.as_dict")
    cfg = A.cfg(ad)
    withs = [n for n in cfg.nodes if n.kind == "with"
             and any("oneshot" in norm_stmt(i.context_expr) for i in n.stmt.items)]
    if withs:
        wn = withs[0]
    else:
        # no block: "before querying anything" is then "before the attribute loop"
        loops0 = [s_ for s_ in ast.walk(ad.node) if isinstance(s_, ast.For)]
        ctx.require(loops0, "as_dict: neither a oneshot() block nor an attribute loop found")
        wn = cfg.nodes_of(loops0[0])[0]
    raises = {("TypeError" if "TypeError" in norm_stmt(n.stmt) else
               "ValueError" if "ValueError" in norm_stmt(n.stmt) else "?"): n
              for n in cfg.nodes if n.kind == "raise"}
    okv = True
    for exc in ("TypeError", "ValueError"):
        n = raises.get(exc)
        if n is None:
            okv = False
            continue
        gs = cfg.guards(n)
        tests = [b for _, _, b in gs]
        # the test node of the innermost guard dominates the with
        tn = [x for x in cfg.nodes if x.kind == "test" and x.expr is gs[-1][0]]
        if not tn or not cfg.dominates(tn[0], wn):
            # validation nested under `attrs is not None`: the outer test must
            # dominate and the raise must not be reachable after the with
            outer = [x for x in cfg.nodes if x.kind == "test" and x.expr is gs[0][0]]
            if not outer or not cfg.dominates(outer[0], wn) or n in cfg.reachable(wn):
                okv = False
    if okv:
        ctx.ok("C16.R5", "validation-first", sample="TypeError/ValueError before oneshot()")
    else:
        ctx.fail("C16.R5", "validation-first", ad.file, ad.node.lineno, ad.qual,
                 "as_dict no longer rejects a bad attrs argument before querying")
    # type test covers list/tuple/set/frozenset; names checked against valid set
    tn = raises.get("TypeError")
    if tn is not None:
        txt = norm_stmt(cfg.guards(tn)[-1][0]).replace(" ", "")
        if txt == "notisinstance(attrs,(list,tuple,set,frozenset))":
            ctx.ok("C16.R5", "type-test", sample=txt)
        else:
            ctx.fail("C16.R5", "type-test", ad.file, tn.line, ad.qual,
                     f"type validation is `{txt}`")
    if tn is not None:
        # the type test is skipped for `attrs is None` ONLY: every outer guard of
        # the raise is that test (a truthiness test lets '', 0, b'' through as if
        # they were None)
        bad = []
        for g_expr, g_branch, _ in cfg.guards(tn)[:-1]:
            t_ = norm_stmt(g_expr).replace(" ", "")
            if not ((t_ == "attrsisnotNone" and g_branch) or (t_ == "attrsisNone" and not g_branch)
                    or (t_ == "not(attrsisNone)" and g_branch)):
                bad.append(f"{norm_stmt(g_expr)} is {bool(g_branch)}")
        if bad:
            ctx.fail("C16.R5", "type-test-reached", ad.file, tn.line, ad.qual,
                     f"the type validation of attrs is reached only when {'; '.join(bad)}: a "
                     f"non-None argument that fails this test is treated like None (all "
                     f"attributes queried) instead of raising TypeError")
        else:
            ctx.ok("C16.R5", "type-test-reached", sample="skipped for `attrs is None` only")
    vn = raises.get("ValueError")
    if vn is not None:
        from ..core.analysis import assigned_names
        test = cfg.guards(vn)[-1][0]
        asg = assigned_names(ad.node)
        okn = False
        if isinstance(test, ast.Name) and len(asg.get(test.id, [])) == 1:
            v = asg[test.id][0].value
            if isinstance(v, ast.BinOp) and isinstance(v.op, ast.Sub):
                right = dotted(v.right)
                rsrc = [norm_stmt(x.value) for x in asg.get(right, [])] or [right]
                if "_as_dict_attrnames" in rsrc and cfg.guards(vn)[-1][1] is True:
                    okn = True
        if okn:
            ctx.ok("C16.R5", "name-test", sample="attrs - _as_dict_attrnames non-empty -> ValueError")
        else:
            ctx.fail("C16.R5", "name-test", ad.file, vn.line, ad.qual,
                     f"unknown names are tested with `{norm_stmt(test)}`, not the "
                     f"difference with the valid attribute names")
    # keys
    loop = [s for s in ast.walk(ad.node) if isinstance(s, ast.For)]
    ctx.require(loop, "as_dict: attribute loop vanished")
    lp = loop[0]
    var = dotted(lp.target)
    stores = [s for s in ast.walk(lp) if isinstance(s, ast.Assign)
              and isinstance(s.targets[0], ast.Subscript)]
    ret = ad.node.body[-1]
    # every store into the result is keyed by the loop's name (one shared store, or one
    # per branch), and that mapping is what is returned
    good = len(stores) >= 1 and all(dotted(s_.targets[0].slice) == var for s_ in stores) \
        and isinstance(ret, ast.Return) \
        and len({dotted(s_.targets[0].value) for s_ in stores}) == 1 \
        and dotted(ret.value) == dotted(stores[0].targets[0].value)
    src = norm_stmt(lp.iter).replace(" ", "")
    if good and src in ("ls", "attrsorvalid_names"):
        ctx.ok("C16.R5", "keys", sample=f"for {var} in {src}: retdict[{var}] = ret")
    else:
        ctx.fail("C16.R5", "keys", ad.file, lp.lineno, ad.qual,
                 "returned keys are no longer exactly the requested names")
    # the queries run inside one oneshot() block (sources read once for the dict)
    inwith = [w_ for w_ in ast.walk(ad.node) if isinstance(w_, ast.With)
              and any(isinstance(i.context_expr, ast.Call)
                      and dotted(i.context_expr.func) == "self.oneshot" for i in w_.items)
              and any(x is lp for b in w_.body for x in ast.walk(b))]
    if inwith:
        ctx.ok("C16.R5", "in-oneshot", sample="with self.oneshot(): for name in ...")
    else:
        ctx.fail("C16.R5", "in-oneshot", ad.file, lp.lineno, ad.qual,
                 "as_dict() no longer queries the attributes inside `with self.oneshot()`: "
                 "the shared records are read once per attribute and the values come from "
                 "different snapshots")
    # handler policy
    tr = [x for x in ast.walk(lp) if isinstance(x, ast.Try)]
    ctx.require(tr, "as_dict: per-attribute try vanished")
    probs = []
    ad_ok = False
    for h in tr[0].handlers:
        names = handler_names(h)
        swallow = not any(isinstance(s, ast.Raise) for b in h.body for s in ast.walk(b))
        if names is None or names & {"Exception", "BaseException", "Error", "NoSuchProcess"}:
            if swallow:
                probs.append(f"handler `{norm_stmt(h.type) if h.type else 'bare'}` swallows "
                             f"NoSuchProcess")
        if names and {"AccessDenied", "ZombieProcess"} <= names:
            asg = [s for b in h.body for s in ast.walk(b) if isinstance(s, ast.Assign)]
            if asg and dotted(asg[0].value) == "ad_value" and swallow:
                ad_ok = True
    if not ad_ok:
        probs.append("(AccessDenied, ZombieProcess) no longer map to ad_value")
    if probs:
        ctx.fail("C16.R5", "handlers", ad.file, tr[0].lineno, ad.qual, "; ".join(probs))
    else:
        ctx.ok("C16.R5", "handlers", sample="(AccessDenied, ZombieProcess) -> ad_value; "
               "NoSuchProcess propagates")
    ctx.assume("thread interleavings are not explored; only lock coverage, pairing "
               "and the memoiser's tolerance branches are decided")
    return ("Typestate pairing of cache activation/deactivation (front end and six "
            "platform modules), who-may-open rule for the per-process stat/status/"
            "smaps records, lock coverage of oneshot(), handler shape of the "
            "memoiser, and as_dict's validation order and exception policy.",
            "AST/CFG pairing, who-may-open, handler tables")


def _template(js):
    out = ""
    for v in js.values:
        if isinstance(v, ast.Constant):
            out += str(v.value)
        elif isinstance(v, ast.FormattedValue):
            out += "{" + norm_stmt(v.value) + "}"
    return out
