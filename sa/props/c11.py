"""C11 - net_connections(): every socket once, right kind, right addresses, right owner."""

import ast

from ..core.absint import Interp, alternatives, pretty
from ..core.analysis import Analysis, facts
from ..core.cfg import decompose_guard
from ..core.forms import canon, srcinfo
from ..core.pyrepo import Repo, calls_in, dotted, norm_stmt
from ..core.report import AnalysisError
from ..oracles import linux as O
from .c06 import collect


def _walk(t):
    yield t
    if isinstance(t, tuple):
        for x in t:
            if isinstance(x, tuple):
                yield from _walk(x)


# formatters whose spelling differs from inet_ntop for part of the address space
DIVERGENT = {
    "ipaddress.IPv6Address": "str(ipaddress.IPv6Address) spells IPv4-mapped addresses as hex "
                             "groups (::ffff:a00:5) on Python < 3.13; inet_ntop prints "
                             "::ffff:10.0.0.5",
    "ipaddress.ip_address": "str(ipaddress.ip_address) spells IPv4-mapped addresses as hex "
                            "groups on Python < 3.13; inet_ntop prints the dotted quad",
    "binascii.hexlify": "a hex dump is not a textual IP address",
    "socket.inet_ntoa": "inet_ntoa only formats 4-byte IPv4 addresses",
}


def _perm(term, n):
    """Evaluate a byte-reordering pipeline on the n distinct bytes 0..n-1 of the
    decoded hex column.  Returns the resulting bytes or None (outside the subset)."""
    import struct
    if not isinstance(term, tuple):
        return None
    if term[0] == "call" and term[1] in ("base64.b16decode", "binascii.unhexlify",
                                         "bytes.fromhex"):
        return bytes(range(n))
    if term[0] == "slice":
        b = _perm(term[1], n)
        if b is None:
            return None
        lo, hi, st = (x[1] if isinstance(x, tuple) and x[0] == "const" else "?"
                      for x in term[2:5])
        if "?" in (lo, hi, st):
            return None
        return b[slice(lo, hi, st)]
    if term[0] == "call" and term[1] == "struct.pack" and len(term) == 4 \
            and term[2][0] == "const" and term[3][0] == "star":
        inner = term[3][1]
        if inner[0] == "call" and inner[1] == "struct.unpack" and inner[2][0] == "const":
            b = _perm(inner[3], n)
            if b is None:
                return None
            try:
                return struct.pack(term[2][1], *struct.unpack(inner[2][1], b))
            except struct.error:
                return None
    if term[0] == "call" and term[1] == "bytes" and len(term) == 3:
        inner = term[2]
        if inner[0] == "call" and inner[1] == "reversed":
            b = _perm(inner[2], n)
            return b[::-1] if b is not None else None
    return None


def _r5(ctx, repo, A, I, pm):
    f = repo.func(pm, "NetConnections.decode_address")
    t = canon(I.call_function(f, [("param", "addr"), ("param", "family")]))
    recs = [a for a in alternatives(t) if a and a[0] == "nt"]
    ctx.require(recs, "decode_address: no addr(ip, port) record")
    ip = recs[0][3][0]

    def select(term, fam4, little):
        """Specialise the guarded term to one (family, endianness) configuration."""
        if not isinstance(term, tuple):
            return term
        if term[0] == "gphi":
            c = term[1]
            v = None
            if c == ("glob", "_pslinux.LITTLE_ENDIAN") or (c and c[0] == "glob"
                                                          and c[1].endswith("LITTLE_ENDIAN")):
                v = little
            elif c[0] == "cmp" and c[1] in ("==", "!=") and ("param", "family") in c[2:4]:
                other = c[3] if c[2] == ("param", "family") else c[2]
                if other == ("ext", "socket.AF_INET"):
                    v = fam4 if c[1] == "==" else not fam4
                elif other == ("ext", "socket.AF_INET6"):
                    v = (not fam4) if c[1] == "==" else fam4
            if v is None:
                return term
            return select(term[2] if v else term[3], fam4, little)
        return term
    # kernel: each 32-bit word printed with %08X in HOST order
    want = {
        (True, True): bytes([3, 2, 1, 0]),
        (True, False): bytes([0, 1, 2, 3]),
        (False, True): bytes([3, 2, 1, 0, 7, 6, 5, 4, 11, 10, 9, 8, 15, 14, 13, 12]),
        (False, False): bytes(range(16)),
    }
    for fam4 in (True, False):
        for little in (True, False):
            key = f"{'v4' if fam4 else 'v6'}:{'little' if little else 'big'}-endian"
            v = select(ip, fam4, little)
            if v[0] in ("gphi", "phi"):
                ctx.advisory(f"C11.R5 {key}: the address expression is not a single "
                             f"pipeline (`{pretty(v)[:80]}`); not decided")
                ctx.ok("C11.R5", key, sample="not decided", nontrivial=False)
                continue
            fmt, arg = None, None
            cur = v
            if cur[0] == "call" and cur[1] == "str" and len(cur) == 3:
                cur = cur[2]
            if cur[0] == "call":
                fmt = cur[1]
                arg = cur[-1]
            if fmt == "socket.inet_ntop":
                fam = cur[2]
                famok = fam == ("param", "family") or \
                    fam == ("ext", "socket.AF_INET" if fam4 else "socket.AF_INET6")
                got = _perm(arg, 4 if fam4 else 16)
                if got is None:
                    ctx.advisory(f"C11.R5 {key}: byte pipeline `{pretty(arg)[:80]}` is outside "
                                 f"the evaluated subset; not decided")
                    ctx.ok("C11.R5", key, sample="not decided", nontrivial=False)
                elif got == want[(fam4, little)] and famok:
                    ctx.ok("C11.R5", key, sample=f"inet_ntop(bytes {list(got)})")
                else:
                    ctx.fail("C11.R5", key, f.file, f.node.lineno, f.qual,
                             f"{key}: the hex column's bytes reach inet_ntop in order "
                             f"{list(got)}, the kernel's format needs {list(want[(fam4, little)])}"
                             + ("" if famok else "; wrong address family passed"))
            elif fmt in DIVERGENT and not (fam4 and fmt.startswith("ipaddress.")):
                ctx.fail("C11.R5", key, f.file, f.node.lineno, f.qual,
                         f"{key}: address rendered with {fmt}: {DIVERGENT[fmt]}")
            else:
                ctx.advisory(f"C11.R5 {key}: formatter `{pretty(v)[:80]}` is not one this "
                             f"rule knows; not decided")
                ctx.ok("C11.R5", key, sample="not decided", nontrivial=False)


def cols(v):
    out = []
    for a in collect(v, lambda x: x and x[0] == "idx"):
        d = srcinfo(a)
        if d is not None:
            out.append(d)
    return out


def lit(e, env):
    """Evaluate a tuple/list/name literal expression to python data (names of
    socket constants stay as strings)."""
    if isinstance(e, ast.Constant):
        return e.value
    if isinstance(e, (ast.Tuple, ast.List)):
        return tuple(lit(x, env) for x in e.elts)
    d = dotted(e)
    if d in env:
        return env[d]
    if d:
        return d.split(".")[-1]
    raise AnalysisError(f"cannot evaluate {norm_stmt(e)}")


def run(ctx):
    repo = Repo(ctx.repo)
    A = Analysis(repo)
    pm = "_pslinux"

    # ------------------------------------------------------------------- R1
    ctx.rule("C11.R1", "kind tables agree: the Linux tmap has exactly the 11 kinds "
             "of _common.conn_tmap, and for each kind its (family, type) set equals "
             "families x types of conn_tmap (unix: any type)", floor=12)
    init = repo.func(pm, "NetConnections.__init__")
    env = {}
    tmap = None
    for st in init.node.body:
        if isinstance(st, ast.Assign) and isinstance(st.targets[0], ast.Name):
            env[st.targets[0].id] = lit(st.value, env)
        if isinstance(st, ast.Assign) and dotted(st.targets[0]) == "self.tmap":
            tmap = {lit(k, env): lit(v, env) for k, v in zip(st.value.keys, st.value.values)}
    if tmap is None:
        # the tables kept as class attributes (`tmap = {...}` in the class body)
        for cl_ in ast.walk(repo.mod(pm).tree):
            if isinstance(cl_, ast.ClassDef) and cl_.name == "NetConnections":
                env = {}
                for st in cl_.body:
                    if isinstance(st, ast.Assign) and isinstance(st.targets[0], ast.Name):
                        if st.targets[0].id == "tmap" and isinstance(st.value, ast.Dict):
                            tmap = {lit(k, env): lit(v, env)
                                    for k, v in zip(st.value.keys, st.value.values)}
                        else:
                            env[st.targets[0].id] = lit(st.value, env)
    ctx.require(tmap, "NetConnections.tmap vanished")
    cm = repo.mod("_common")
    ct = {}
    for st in ast.walk(cm.tree):
        if isinstance(st, ast.Assign) and dotted(st.targets[0]) == "conn_tmap" \
                and isinstance(st.value, ast.Dict):
            for k, v in zip(st.value.keys, st.value.values):
                ct[lit(k, {})] = lit(v, {})
        if isinstance(st, ast.Call) and dotted(st.func) == "conn_tmap.update" and st.args \
                and isinstance(st.args[0], ast.Dict):
            for k, v in zip(st.args[0].keys, st.args[0].values):
                ct[lit(k, {})] = lit(v, {})
    ctx.require(len(ct) >= 8, "conn_tmap vanished")
    if set(tmap) == set(ct) and len(ct) == 11:
        ctx.ok("C11.R1", "kinds", sample=sorted(ct))
    else:
        ctx.fail("C11.R1", "kinds", init.file, init.node.lineno, init.qual,
                 f"kind sets differ: only in tmap {sorted(set(tmap) - set(ct))}, only in "
                 f"conn_tmap {sorted(set(ct) - set(tmap))}")
    for kind in sorted(set(tmap) & set(ct)):
        fams, types = ct[kind]
        want = set()
        for f in fams:
            if f == "AF_UNIX":
                want.add((f, None))
            else:
                for t in types:
                    want.add((f, t))
        got = {(fam, typ) for _, fam, typ in tmap[kind]}
        files = {(name, fam, typ) for name, fam, typ in tmap[kind]}
        wantfiles = {("tcp", "AF_INET", "SOCK_STREAM"), ("tcp6", "AF_INET6", "SOCK_STREAM"),
                     ("udp", "AF_INET", "SOCK_DGRAM"), ("udp6", "AF_INET6", "SOCK_DGRAM"),
                     ("unix", "AF_UNIX", None)}
        key = f"kind:{kind}"
        if got == want and files <= wantfiles:
            ctx.ok("C11.R1", key, sample={kind: sorted(map(str, got))})
        else:
            ctx.fail("C11.R1", key, init.file, init.node.lineno, init.qual,
                     f"kind {kind!r}: Linux reads {sorted(map(str, files))}, documented "
                     f"families x types = {sorted(map(str, want))}")

    # ------------------------------------------------------------------- R2
    ctx.rule("C11.R2", "an unknown kind raises ValueError before the platform layer "
             "is consulted (both public entry points)", floor=3)
    ck = repo.func("psutil", "_check_conn_kind")
    ccfg = A.cfg(ck)
    good = False
    kparam = ck.node.args.args[0].arg if ck.node.args.args else "kind"
    for n in ccfg.nodes:
        if n.kind == "raise" and "ValueError" in norm_stmt(n.stmt):
            gs = ccfg.guards(n)
            # any spelling of the test: `kind not in K` true, `kind in K` false,
            # behind `not`, an early return, ...
            atoms = [(a, t) for e_, p_, _ in gs if p_ in (True, False)
                     for a, t in decompose_guard(e_, p_)]
            for g, t_ in atoms:
                if not (isinstance(g, ast.Compare) and len(g.ops) == 1
                        and isinstance(g.ops[0], (ast.In, ast.NotIn))
                        and isinstance(g.ops[0], ast.NotIn) == bool(t_)
                        and dotted(g.left) == kparam):
                    continue
                rhs = g.comparators[0]
                srcs = [rhs] + [st.value for st in ast.walk(ck.node) if isinstance(st, ast.Assign)
                                and dotted(rhs) and dotted(st.targets[0]) == dotted(rhs)]
                # membership must be tested against the COLLECTION of valid kinds
                # (dict / keys view / tuple / list / set of it), not against text
                # built from them (substring test)
                def is_collection(x):
                    d_ = dotted(x)
                    if d_ and d_.endswith("conn_tmap"):
                        return True
                    if isinstance(x, ast.Call):
                        fn_ = dotted(x.func) or ""
                        if fn_ in ("tuple", "list", "set", "frozenset", "sorted") and x.args:
                            return is_collection(x.args[0])
                        if fn_.endswith("conn_tmap.keys"):
                            return True
                    return False
                if any(is_collection(x) for x in srcs):
                    good = True
    if good:
        ctx.ok("C11.R2", "_check_conn_kind", sample="kind not in tuple(conn_tmap) -> ValueError")
    else:
        ctx.fail("C11.R2", "_check_conn_kind", ck.file, ck.node.lineno, ck.qual,
                 "_check_conn_kind no longer raises ValueError for a kind outside conn_tmap")
    for q, callee in (("Process.net_connections", "self._proc.net_connections"),
                      ("net_connections", "_psplatform.net_connections")):
        f = repo.func("psutil", q)
        cfg = A.cfg(f)
        kp_ = [a.arg for a in f.node.args.args if a.arg != "self"][0]
        chk = [c for c in calls_in(f.node) if dotted(c.func) == "_check_conn_kind"]
        plat = [c for c in calls_in(f.node) if dotted(c.func) == callee]
        ok = chk and plat and all(any(cfg.dominates(a, b) for a in cfg.owners(chk[0]))
                                  for c in plat for b in cfg.owners(c)) \
            and dotted(chk[0].args[0]) == kp_ and dotted(plat[0].args[0]) == kp_
        if ok:
            ctx.ok("C11.R2", q, sample=f"_check_conn_kind(kind) dominates {callee}(kind)")
        else:
            ctx.fail("C11.R2", q, f.file, f.node.lineno, f.qual,
                     f"{q}() consults the platform layer without validating `kind` first")

    # ------------------------------------------------------------------- R3
    ctx.rule("C11.R3", "record columns: inet laddr<-1 raddr<-2 state<-3 inode<-9 "
             "(header skipped, port base 16, port 0 -> ()); unix type<-4 inode<-6 "
             "path<-7 taken with a bounded split (the path is free text); a table is skipped "
             "only when its file does not exist", floor=9)
    I = Interp(repo, A)
    pi = repo.func(pm, "NetConnections.process_inet")
    t = canon(I.call_function(pi, [("param", "file"), ("param", "family"),
                                   ("param", "type_"), ("param", "inodes"),
                                   ("param", "filter_pid")]))
    tups = collect(t, lambda x: x and x[0] == "tuple" and len(x) == 8)
    ctx.require(tups, f"process_inet: no 7-slot record: {pretty(t)[:100]}")
    tp = tups[0]
    slots = {"fd": tp[1], "family": tp[2], "type": tp[3], "laddr": tp[4], "raddr": tp[5],
             "status": tp[6], "pid": tp[7]}
    for name, want in (("laddr", O.NET_INET["laddr"]), ("raddr", O.NET_INET["raddr"]),
                       ("status", O.NET_INET["status"]), ("fd", O.NET_INET["inode"]),
                       ("pid", O.NET_INET["inode"])):
        ds = cols(slots[name])
        outer = [d for d in ds if d["sep"] is None]      # columns of the line itself
        key = f"inet:{name}"
        good = outer and {d["col"] for d in outer} == {want} and \
            all(d["cut"] == ("line", ("from", 1)) for d in outer)
        if good:
            ctx.ok("C11.R3", key, sample={name: f"column {want}"})
        else:
            ctx.fail("C11.R3", key, pi.file, pi.node.lineno, pi.qual,
                     f"inet {name} is derived from column(s) "
                     f"{sorted({d['col'] for d in outer})} of /proc/net/tcp|udp (documented: "
                     f"{want}; header line skipped)")
    for name in ("laddr", "raddr"):
        v = slots[name]
        txt = pretty(v)
        empty = any(a[0] == "tuple" and len(a) == 1 for a in alternatives(v))
        base16 = ", 16)" in txt
        key = f"inet:{name}:port"
        if empty and base16:
            ctx.ok("C11.R3", key, sample="port = int(hex, 16); port 0 -> ()")
        else:
            ctx.fail("C11.R3", key, pi.file, pi.node.lineno, pi.qual,
                     f"{name}: " + ("the port is not parsed as hexadecimal" if not base16
                                    else "a zero port no longer yields the empty address ()"))
    # both end-points are decoded for EVERY inet row: a connected UDP socket has a
    # remote address too, so neither may depend on the socket type (only `status` does)
    for name in ("laddr", "raddr"):
        v = slots[name]
        conds_ = [c_ for c_ in _walk(v) if isinstance(c_, tuple) and c_ and c_[0] == "gphi"]
        typed = [c_ for c_ in conds_ if "SOCK_STREAM" in pretty(c_[1]) or "SOCK_DGRAM" in pretty(c_[1])
                 or any(isinstance(x_, tuple) and len(x_) == 2 and x_[0] == "param"
                        and str(x_[1]).startswith("type") for x_ in _walk(c_[1]))]
        key = f"inet:{name}:every-row"
        if typed:
            ctx.fail("C11.R3", key, pi.file, pi.node.lineno, pi.qual,
                     f"inet {name} depends on the socket type (`{pretty(typed[0][1])[:60]}`): a "
                     f"connect()ed UDP socket would lose its remote end-point")
        else:
            ctx.ok("C11.R3", key, nontrivial=False, sample=f"{name} decoded whatever the socket type")
    # a table is skipped without being read only when its file does not exist
    picfg = A.cfg(pi)
    fparam = pi.node.args.args[0].arg if pi.node.args.args else "file"
    opens = [n for c in calls_in(pi.node) if (dotted(c.func) or "").split(".")[-1] in
             ("open_text", "open_binary", "open") for n in picfg.owners(c)]
    early = [n for n in picfg.nodes if n.kind == "return"
             and not any(picfg.dominates(o, n) for o in opens)]
    bad_early = None
    for n in early:
        atoms = [(norm_stmt(a_).replace(" ", ""), t_) for e, pol, _ in picfg.guards(n)
                 for a_, t_ in decompose_guard(e, pol)]
        if not any(t_ is False and x.endswith(f"exists({fparam})") for x, t_ in atoms):
            bad_early = (n, atoms)
    if opens and bad_early is None:
        ctx.ok("C11.R3", "inet:no-silent-skip", sample="early return only if the table file "
               "does not exist")
    else:
        ctx.fail("C11.R3", "inet:no-silent-skip", pi.file,
                 bad_early[0].line if bad_early else pi.node.lineno, pi.qual,
                 "process_inet() returns without reading its table under "
                 f"{[a for a, _ in bad_early[1]] if bad_early else '?'}: the rows of an "
                 "existing /proc/net table are dropped (the only legitimate reason is that "
                 "the file does not exist)")
    pu = repo.func(pm, "NetConnections.process_unix")
    tu = canon(I.call_function(pu, [("param", "file"), ("param", "family"),
                                    ("param", "inodes"), ("param", "filter_pid")]))
    utups = collect(tu, lambda x: x and x[0] == "tuple" and len(x) == 8)
    ctx.require(utups, "process_unix: no 7-slot record")
    up = utups[0]
    uslots = {"fd": up[1], "type": up[3], "path": up[4], "raddr": up[5], "status": up[6],
              "pid": up[7]}
    for name, want in (("type", O.NET_UNIX["type"]), ("fd", O.NET_UNIX["inode"]),
                       ("pid", O.NET_UNIX["inode"])):
        ds = cols(uslots[name])
        key = f"unix:{name}"
        if ds and {d["col"] for d in ds} == {want}:
            ctx.ok("C11.R3", key, sample={name: f"column {want}"})
        else:
            ctx.fail("C11.R3", key, pu.file, pu.node.lineno, pu.qual,
                     f"unix {name} comes from column(s) {sorted({d['col'] for d in ds})}, "
                     f"documented {want}")
    pds = cols(uslots["path"])
    probs = []
    if not pds:
        probs.append("no source")
    for d in pds:
        if d["maxsplit"] is None:
            probs.append("the path is cut out of an UNBOUNDED whitespace split: a bound "
                         "path containing a space splits into several tokens and is lost "
                         "(reported as '')")
        elif d["maxsplit"] != 7 or d["col"] not in (7, -1):
            probs.append(f"path is column {d['col']} of split(maxsplit={d['maxsplit']}); "
                         f"expected column 7 of a split bounded at 7")
    if not any(a == ("const", "") for a in alternatives(uslots["path"])):
        probs.append("an unbound socket no longer has the empty path")
    if probs:
        ctx.fail("C11.R3", "unix:path", pu.file, pu.node.lineno, pu.qual,
                 "unix path: " + "; ".join(sorted(set(probs))))
    else:
        ctx.ok("C11.R3", "unix:path", sample="line.split(None, 7)[7] | ''")

    # ------------------------------------------------------------------- R4
    ctx.rule("C11.R4", "state and owner: TCP_STATUSES is the kernel's code table; "
             "status is NONE for non-stream sockets; inet owner = first (pid, fd) "
             "holder, unix one row per holder, (None, -1) when unknown; the "
             "per-process form filters on the pid and builds pconn", floor=15)
    m = repo.mod(pm)
    tbl = [v for v in m.assigns.get("TCP_STATUSES", []) if isinstance(v, ast.Dict)]
    ctx.require(tbl, "TCP_STATUSES vanished")
    got = {k.value: (dotted(v) or "").split(".")[-1] for k, v in zip(tbl[0].keys, tbl[0].values)
           if isinstance(k, ast.Constant)}
    for code, cname in O.TCP_STATES.items():
        if got.get(code) == cname:
            ctx.ok("C11.R4", f"tcp:{code}", sample={code: cname})
        else:
            ctx.fail("C11.R4", f"tcp:{code}", m.rel, tbl[0].lineno, "TCP_STATUSES",
                     f"kernel TCP state {code} maps to {got.get(code)}, documented {cname}")
    for cname, val in O.CONN_VALUES.items():
        vs = cm.assigns.get(cname, [])
        if not (len(vs) == 1 and isinstance(vs[0], ast.Constant) and vs[0].value == val):
            ctx.fail("C11.R4", f"const:{cname}", cm.rel, 0, cname, f"{cname} is no longer {val!r}")
    st = slots["status"]
    ok_st = st[0] == "gphi" and "SOCK_STREAM" in pretty(st[1]) and "TCP_STATUSES" in pretty(st[2]) \
        and st[3] == ("const", "NONE")
    if ok_st and uslots["status"] == ("const", "NONE") and uslots["raddr"] == ("const", ""):
        ctx.ok("C11.R4", "status", sample="TCP_STATUSES[st] if SOCK_STREAM else NONE; unix NONE")
    else:
        ctx.fail("C11.R4", "status", pi.file, pi.node.lineno, pi.qual,
                 f"status = `{pretty(st)[:100]}` / unix `{pretty(uslots['status'])}`")
    # owner
    fd, pid = slots["fd"], slots["pid"]

    def owner_ok(term, pos, dflt):
        """alternatives: TABLE[x][0][pos] (TABLE = the inodes argument, looked up
        by subscript or .get) | the default; chosen by a test on the table."""
        alts = alternatives(term)
        have_tbl = have_d = False
        for a in alts:
            # TABLE.get(x, [(None, -1)])[0][pos]: both alternatives in one lookup
            if a[0] == "idx" and a[2] == pos and a[1][0] == "idx" and a[1][2] == 0 \
                    and a[1][1][0] == "dget" and a[1][1][1] == ("param", "inodes") \
                    and a[1][1][3][0] in ("list", "tuple") and len(a[1][1][3]) == 2 \
                    and a[1][1][3][1][0] == "tuple" and len(a[1][1][3][1]) == 3 \
                    and a[1][1][3][1][1 + pos] == ("const", dflt):
                have_tbl = have_d = True
                continue
            if a == ("const", dflt):
                have_d = True
            elif a[0] == "idx" and a[2] == pos and a[1][0] == "idx" and a[1][2] == 0 \
                    and a[1][1][0] in ("idx", "dget") and a[1][1][1] == ("param", "inodes"):
                have_tbl = True
            else:
                return False
        cond_ok = term[0] in ("gphi", "phi") and ("param", "inodes") in list(_walk(term[1])) \
            if term[0] == "gphi" else True
        return have_tbl and have_d and cond_ok
    ok_o = owner_ok(fd, 1, -1) and owner_ok(pid, 0, None)
    if ok_o:
        ctx.ok("C11.R4", "inet-owner", sample="inodes[inode][0] -> (pid, fd) | (None, -1)")
    else:
        ctx.fail("C11.R4", "inet-owner", pi.file, pi.node.lineno, pi.qual,
                 f"inet owner fd=`{pretty(fd)[:80]}` pid=`{pretty(pid)[:80]}`")
    # unix: the loop enclosing the yield iterates the holders of the inode, or the
    # single unknown holder (None, -1) - decided on the definitions reaching the
    # loop's iterable, whatever the variables are called
    inodes_p = [a.arg for a in pu.node.args.args][2] if len(pu.node.args.args) > 2 else "inodes"
    ylds = [y for y in ast.walk(pu.node) if isinstance(y, ast.Yield)]
    loop = None
    for fl in ast.walk(pu.node):
        if isinstance(fl, ast.For) and any(y is x for y in ylds for x in ast.walk(fl)):
            if isinstance(fl.target, ast.Tuple) and len(fl.target.elts) == 2:
                loop = fl
    forms = set()

    _seen = set()

    def owner_forms(e):
        if isinstance(e, ast.Name) and e.id != inodes_p:
            if e.id in _seen:
                return
            _seen.add(e.id)
            defs = [s_.value for s_ in ast.walk(pu.node) if isinstance(s_, ast.Assign)
                    and any(dotted(t_) == e.id for t_ in s_.targets)]
            if not defs:
                forms.add("?" + e.id)
            for d_ in defs:
                owner_forms(d_)
        elif isinstance(e, ast.IfExp):
            owner_forms(e.body)
            owner_forms(e.orelse)
        elif isinstance(e, ast.Call) and (dotted(e.func) or "").split(".")[-1] in {
                g_.name for g_ in repo.all_funcs(pm) if g_.cls == "NetConnections"} \
                and (dotted(e.func) or "").split(".")[-1] not in ("get_proc_inodes", "get_all_inodes"):
            # a helper of the class that looks the holders up: what it returns
            for g_ in repo.all_funcs(pm):
                if g_.cls == "NetConnections" and g_.name == (dotted(e.func) or "").split(".")[-1]:
                    gp_ = [a_.arg for a_ in g_.node.args.args if a_.arg not in ("self", "cls")]
                    ren_ = {p_: dotted(a_) for p_, a_ in zip(gp_, e.args) if dotted(a_)}
                    for r_ in [x for x in ast.walk(g_.node) if isinstance(x, ast.Return) and x.value]:
                        import copy as _cp
                        rv_ = _cp.deepcopy(r_.value)
                        for n_ in ast.walk(rv_):
                            if isinstance(n_, ast.Name) and n_.id in ren_:
                                n_.id = ren_[n_.id]
                        owner_forms(rv_)
        elif isinstance(e, ast.ListComp) and len(e.generators) == 1 \
                and isinstance(e.generators[0].target, ast.Name) \
                and dotted(e.elt) == e.generators[0].target.id:
            # a filtered copy of the holders is still made of holders
            it_ = e.generators[0].iter
            if isinstance(it_, ast.Name) and it_.id in _seen:
                pass
            else:
                owner_forms(it_)
        elif isinstance(e, ast.BoolOp) and isinstance(e.op, ast.Or):
            for v_ in e.values:
                owner_forms(v_)
        elif isinstance(e, ast.Subscript) and dotted(e.value) == inodes_p:
            forms.add("TABLE[x]")
        elif isinstance(e, ast.Call) and isinstance(e.func, ast.Attribute) and e.func.attr == "get" \
                and dotted(e.func.value) == inodes_p:
            forms.add("TABLE[x]")
            if len(e.args) > 1:
                owner_forms(e.args[1])
        elif isinstance(e, (ast.List, ast.Tuple)) and len(e.elts) == 1 \
                and norm_stmt(e.elts[0]).replace(" ", "") == "(None,-1)":
            forms.add("[(None,-1)]")
        elif isinstance(e, ast.Constant) and e.value is None:
            pass        # `.get(x)` miss, replaced by an `or` alternative
        else:
            forms.add(norm_stmt(e))
    if loop is not None:
        owner_forms(loop.iter)
    pid_first = loop is not None and [dotted(x) for x in loop.target.elts] and True
    if loop is not None and forms == {"TABLE[x]", "[(None,-1)]"}:
        ctx.ok("C11.R4", "unix-owner", sample="one row per (pid, fd) in inodes[inode] | [(None, -1)]")
    else:
        ctx.fail("C11.R4", "unix-owner", pu.file, pu.node.lineno, pu.qual,
                 f"unix owners iterate {sorted(forms)}; expected the holders "
                 f"inodes[inode] or the single unknown holder [(None, -1)]")
    # filter
    from .c15 import eval_pred
    for f, term in ((pi, t), (pu, tu)):
        # a row is yielded iff no filter is given or the filter equals the row's
        # owner: evaluated on the guards of the yield, whatever their spelling
        fcfg_ = A.cfg(f)
        fpn = [a.arg for a in f.node.args.args if a.arg in ("filter_pid",)] or \
            [a.arg for a in f.node.args.args][-1:]
        fpn = fpn[0]
        ys = [n for n in fcfg_.nodes if n.kind == "stmt" and isinstance(n.stmt, ast.Expr)
              and isinstance(n.stmt.value, ast.Yield)]
        okf = bool(ys)
        for y in ys:
            yv = y.stmt.value.value
            owner = dotted(yv.elts[-1]) if isinstance(yv, ast.Tuple) and yv.elts else None
            if not owner:
                okf = False
                continue
            # holders filtered BEFORE the loop (`pairs = [x for x in pairs if x[0] ==
            # filter_pid]` under `filter_pid is not None`): the row is reached iff that
            # assignment did not run or its condition holds for the row's owner
            extra = []
            lp_ = [fl for fl in ast.walk(f.node) if isinstance(fl, ast.For)
                   and any(x is y.stmt for x in ast.walk(fl))]
            if lp_ and isinstance(lp_[-1].iter, ast.Name) and isinstance(lp_[-1].target, ast.Tuple):
                itn = lp_[-1].iter.id
                opos = [i_ for i_, t_ in enumerate(lp_[-1].target.elts) if dotted(t_) == owner]
                for st_ in ast.walk(f.node):
                    if isinstance(st_, ast.Assign) and dotted(st_.targets[0]) == itn \
                            and isinstance(st_.value, ast.ListComp) \
                            and len(st_.value.generators) == 1 and st_.value.generators[0].ifs \
                            and isinstance(st_.value.generators[0].target, ast.Name) \
                            and dotted(st_.value.elt) == st_.value.generators[0].target.id and opos:
                        xv = st_.value.generators[0].target.id

                        class _S(ast.NodeTransformer):
                            def visit_Subscript(self, n_):
                                if dotted(n_.value) == xv and isinstance(n_.slice, ast.Constant) \
                                        and n_.slice.value == opos[0]:
                                    return ast.Name(owner, ast.Load())
                                return self.generic_visit(n_)
                        import copy as _copy
                        cond = ast.BoolOp(ast.And(), [_S().visit(_copy.deepcopy(c_))
                                                      for c_ in st_.value.generators[0].ifs])
                        gs_ = [(_copy.deepcopy(e_), p_) for n_ in fcfg_.nodes_of(st_)
                               for e_, p_, _x in fcfg_.guards(n_) if p_ in (True, False)]
                        ran = ast.BoolOp(ast.And(), [e_ if p_ else ast.UnaryOp(ast.Not(), e_)
                                                     for e_, p_ in gs_] or [ast.Constant(True)])
                        extra.append((ast.BoolOp(ast.Or(), [ast.UnaryOp(ast.Not(), ran), cond]), True))
            for flt, own, want in ((None, 7, True), (None, None, True), (7, 7, True),
                                   (7, 8, False), (7, None, False), (0, 0, True)):
                reach = True
                decided = False
                for e, pol, _ in list(fcfg_.guards(y)) + [(e_, p_, None) for e_, p_ in extra]:
                    names_ = {x.id for x in ast.walk(e) if isinstance(x, ast.Name)}
                    if fpn not in names_:
                        continue
                    v = eval_pred(e, {fpn: flt, owner: own})
                    if v in (True, False):
                        decided = True
                        if v is not pol:
                            reach = False
                if not decided or reach is not want:
                    okf = False
        key = f"filter:{f.name}"
        if okf:
            ctx.ok("C11.R4", key, sample="skip when filter_pid is not None and != pid")
        else:
            ctx.fail("C11.R4", key, f.file, f.node.lineno, f.qual,
                     "the per-process form no longer keeps only the process's own sockets")
    rt = repo.func(pm, "NetConnections.retrieve")
    rcfg = A.cfg(rt)
    pc = [c for c in calls_in(rt.node) if dotted(c.func) == "_common.pconn"]
    sc = [c for c in calls_in(rt.node) if dotted(c.func) == "_common.sconn"]
    rparams = [a.arg for a in rt.node.args.args]
    pid_p = rparams[2] if len(rparams) > 2 else "pid"
    # the 7-slot record is unpacked by the loop header or by an assignment in it
    rec = [fl.target for fl in ast.walk(rt.node) if isinstance(fl, ast.For)
           and isinstance(fl.target, ast.Tuple) and len(fl.target.elts) == 7]
    rec += [st_.targets[0] for st_ in ast.walk(rt.node) if isinstance(st_, ast.Assign)
            and isinstance(st_.targets[0], ast.Tuple) and len(st_.targets[0].elts) == 7]
    names = [dotted(x) for x in rec[0].elts] if rec else []
    okr = pc and sc and rec \
        and all(("truthy", pid_p, True) in facts(rcfg, n) for n in rcfg.owners(pc[0])) \
        and [dotted(a) for a in pc[0].args] == names[:6] \
        and [dotted(a) for a in sc[0].args] == names
    if okr:
        ctx.ok("C11.R4", "retrieve", sample="pconn(6 slots) if pid else sconn(..., pid)")
    else:
        ctx.fail("C11.R4", "retrieve", rt.file, rt.node.lineno, rt.qual,
                 "retrieve() no longer builds pconn/sconn from the 7 slots in order")
    # the shared record builder of the other platforms: the system-wide form
    # (sconn, with the owner) is chosen by `pid is not None` - PID 0 owns sockets on
    # Windows (System Idle Process) and the BSDs, so truthiness is not the test
    cn = repo.func("_common", "conn_to_ntuple")
    ccfg_ = A.cfg(cn)
    cparams = [a.arg for a in cn.node.args.args + cn.node.args.kwonlyargs]
    pidp = "pid" if "pid" in cparams else (cparams[-1] if cparams else "pid")
    okc, nrec_ = True, 0
    whyc = ""
    for c in calls_in(cn.node):
        nm_ = (dotted(c.func) or "").split(".")[-1]
        if nm_ not in ("pconn", "sconn"):
            continue
        nrec_ += 1
        for n in ccfg_.owners(c):
            fs = facts(ccfg_, n)
            want = ("isnone", pidp, nm_ == "pconn")
            if want not in fs:
                okc = False
                whyc = (f"{nm_}(...) is chosen by {[f for f in fs if pidp in str(f)] or 'no test'} "
                        f"instead of `{pidp} is{'' if nm_ == 'pconn' else ' not'} None`")
    if okc and nrec_ >= 2:
        ctx.ok("C11.R4", "conn_to_ntuple:owner", sample="pconn iff pid is None; sconn carries pid "
                                                        "(0 included)")
    else:
        ctx.fail("C11.R4", "conn_to_ntuple:owner", cn.file, cn.node.lineno, cn.qual,
                 f"conn_to_ntuple(): {whyc or 'pconn/sconn construction vanished'}: a socket "
                 f"held by PID 0 loses its owner in the system-wide listing")
    # inode collection (def-use, independent of variable names)
    gi = repo.func(pm, "NetConnections.get_proc_inodes")
    gparams = [a.arg for a in gi.node.args.args]
    gpid = gparams[1] if len(gparams) > 1 else "pid"
    links = {dotted(s_.targets[0]) for s_ in ast.walk(gi.node) if isinstance(s_, ast.Assign)
             and isinstance(s_.value, ast.Call) and (dotted(s_.value.func) or "").endswith("readlink")}
    fdv = {dotted(fl.target) for fl in ast.walk(gi.node) if isinstance(fl, ast.For)
           and isinstance(fl.iter, ast.Call) and dotted(fl.iter.func) == "os.listdir"}
    sw = [c for c in calls_in(gi.node) if isinstance(c.func, ast.Attribute)
          and c.func.attr == "startswith" and dotted(c.func.value) in links and c.args
          and isinstance(c.args[0], ast.Constant) and c.args[0].value == "socket:["]

    def strips_wrapper(e, depth=0):
        """e == link[8:][:-1] or link[8:-1] (possibly through one re-assignment)."""
        def sl(x):
            def lo_(e_):
                if e_ is None:
                    return None
                if isinstance(e_, ast.Constant):
                    return e_.value
                if isinstance(e_, ast.Call) and dotted(e_.func) == "len" and len(e_.args) == 1 \
                        and isinstance(e_.args[0], ast.Constant) \
                        and isinstance(e_.args[0].value, (str, bytes)):
                    return len(e_.args[0].value)
                return "?"
            return (lo_(x.slice.lower) if isinstance(x, ast.Subscript)
                    and isinstance(x.slice, ast.Slice) else "?",
                    -x.slice.upper.operand.value
                    if isinstance(x.slice.upper, ast.UnaryOp)
                    and isinstance(x.slice.upper.op, ast.USub)
                    and isinstance(x.slice.upper.operand, ast.Constant)
                    else None if x.slice.upper is None else "?") \
                if isinstance(x, ast.Subscript) and isinstance(x.slice, ast.Slice) else None
        a = sl(e)
        if a == (8, -1) and dotted(e.value) in links:
            return True
        if a == (None, -1) and sl(e.value) == (8, None) and dotted(e.value.value) in links:
            return True
        if a == (8, None) and sl(e.value) == (None, -1) and dotted(e.value.value) in links:
            return True
        return False
    keyok = False
    app = [c for c in calls_in(gi.node) if isinstance(c.func, ast.Attribute)
           and c.func.attr == "append" and isinstance(c.func.value, ast.Subscript)
           and len(c.args) == 1 and isinstance(c.args[0], ast.Tuple) and len(c.args[0].elts) == 2]
    for c in app:
        k = c.func.value.slice
        cands = [k] + [s_.value for s_ in ast.walk(gi.node) if isinstance(s_, ast.Assign)
                       and dotted(s_.targets[0]) == dotted(k) and dotted(k)]
        a0, a1 = c.args[0].elts
        pair_ok = dotted(a0) == gpid and isinstance(a1, ast.Call) and dotted(a1.func) == "int" \
            and a1.args and dotted(a1.args[0]) in fdv
        if pair_ok and any(strips_wrapper(x) for x in cands):
            keyok = True
    okg = bool(sw) and keyok
    if okg:
        ctx.ok("C11.R4", "inodes", sample="socket:[N] -> inodes[N].append((pid, int(fd)))")
    else:
        ctx.fail("C11.R4", "inodes", gi.file, gi.node.lineno, gi.qual,
                 "socket inode collection changed (socket:[N] -> (pid, fd))")
    # one descriptor vanishing (ENOENT / ESRCH on <pid>/fd/<n>) must not lose the
    # whole holder: the clause that receives it skips that descriptor only
    from .c03 import _r8 as _subobject_rule
    _subobject_rule(ctx, repo, A, pm, rule="C11.R4", only={"NetConnections.get_proc_inodes"},
                    floor=1)
    # ------------------------------------------------------------------- R5
    ctx.rule("C11.R5", "address text: for IPv4/IPv6 x little/big endian hosts the hex "
             "column is turned into network-order bytes by the byte permutation the "
             "kernel's %08X-per-host-order-word format requires, and rendered by "
             "inet_ntop (the kernel-style spelling, dotted quad for mapped addresses)",
             floor=4)
    _r5(ctx, repo, A, I, pm)
    ctx.assume("the numeric value of individual addresses is not enumerated; the byte "
               "permutation and the formatter are decided per family/endianness")
    return ("AST evaluation of the two kind tables and their set comparison, dominance "
            "of the kind validation, abstract interpretation of the /proc/net parsers "
            "(columns, header, bounded split for the free-text path, port base), table "
            "comparison of TCP states, structural owner/filter rules.",
            "table agreement, CFG dominance, abstract interpretation (provenance)")
