"""C05 - children(), parent() and parents() describe the real process tree."""

import ast

from ..core.analysis import Analysis, assigned_names, facts, implies_nonzero
from ..core.astutil import calls_in_all, deref, enclosing_trys, handler_catches, method_calls
from ..core.cfg import decompose_guard
from ..core.pyrepo import Repo, calls_in, dotted, norm_stmt

FLIP = {ast.LtE: ast.GtE, ast.GtE: ast.LtE, ast.Lt: ast.Gt, ast.Gt: ast.Lt,
        ast.Eq: ast.Eq, ast.NotEq: ast.NotEq}
NEG = {ast.LtE: ast.Gt, ast.GtE: ast.Lt, ast.Lt: ast.GtE, ast.Gt: ast.LtE,
       ast.Eq: ast.NotEq, ast.NotEq: ast.Eq, ast.In: ast.NotIn, ast.NotIn: ast.In}


def cmp_fact(expr, truth):
    """(left_text, OpClass, right_text) that is known TRUE, or None."""
    if isinstance(expr, ast.Compare) and len(expr.ops) == 1:
        op = type(expr.ops[0])
        if not truth:
            op = NEG.get(op)
            if op is None:
                return None
        return (norm_stmt(expr.left), op, norm_stmt(expr.comparators[0]))
    return None


def true_compares(cfg, node, fnode):
    """Comparisons known true at node, following booleans bound from compares
    (intime = a <= b; if intime:)."""
    out = []
    asg = assigned_names(fnode)
    for expr, pol, _ in cfg.guards(node):
        for a, t in decompose_guard(expr, pol):
            c = cmp_fact(a, t)
            if c:
                out.append(c)
                # the same comparison with single-assignment temporaries resolved
                # (parent_ctime = parent.create_time(); if parent_ctime <= ctime:)
                c2 = cmp_fact(deref(fnode, a), t)
                if c2 and c2 != c:
                    out.append(c2)
            elif isinstance(a, ast.Name) and len(asg.get(a.id, [])) == 1:
                st = asg[a.id][0]
                if isinstance(st, ast.Assign):
                    c = cmp_fact(st.value, t)
                    if c:
                        out.append(c)
    return out


def holds_le(cmps, small, big):
    """small <= big known?  Returns True for the non-strict test, "strict" when
    the guard is small < big (it also rejects equal times: two processes started
    within the same clock tick, e.g. a parent that forks at once)."""
    strict = False
    for l, op, r in cmps:
        if (l, r) == (small, big) and op is ast.LtE:
            return True
        if (l, r) == (big, small) and op is ast.GtE:
            return True
        if (l, r) == (small, big) and op is ast.Lt:
            strict = True
        if (l, r) == (big, small) and op is ast.Gt:
            strict = True
    return "strict" if strict else False


def run(ctx):
    repo = Repo(ctx.repo)
    A = Analysis(repo)
    ctx.stat("functions_analysed", 4)
    ch = repo.func("psutil", "Process.children")
    cfg = A.cfg(ch)

    # ------------------------------------------------------------------- R1
    ctx.rule("C05.R1", "the recursive walk terminates on any parent-link graph: "
             "every push on the work-list is dominated, inside the loop, by "
             "visited.add(<popped>) and by a negative membership test on a set that "
             "is never shrunk", floor=1)
    whiles = [st for st in ast.walk(ch.node) if isinstance(st, ast.While)]
    ctx.require(whiles, "children(): the work-list loop vanished")
    nwl = 0
    for w in whiles:
        wl = dotted(w.test)
        if not wl:
            continue
        pushes = [c for st in w.body for c in method_calls(st, "append", wl)]
        pops = [c for st in w.body for c in method_calls(st, "pop", wl)]
        if pops and not pushes:
            # a work-list that is only drained terminates trivially; whether the
            # children are pushed at all is R2's business (selection)
            nwl += 1
            ctx.ok("C05.R1", f"children:no-push:{wl}", nontrivial=False,
                   sample="work-list is never extended inside the loop")
            continue
        if not pushes or not pops:
            continue
        nwl += 1
        inloop = {id(s) for st in w.body for s in ast.walk(st)}
        loopnodes = {n for n in cfg.nodes
                     if n.stmt is not None and id(n.stmt) in inloop}
        # candidate visited sets: X.add(...) inside the loop
        adds = [c for st in w.body for c in calls_in(st)
                if isinstance(c.func, ast.Attribute) and c.func.attr == "add"]
        shrinks = [c for c in calls_in(ch.node)
                   if isinstance(c.func, ast.Attribute)
                   and c.func.attr in ("remove", "discard", "clear", "pop",
                                       "difference_update", "intersection_update")]
        for p in pushes:
            ok = False
            why = "no visited-set discipline dominates this push"
            for pn in cfg.owners(p):
                doms = cfg.dominators()[pn]
                for a in adds:
                    sname = dotted(a.func.value)
                    if any(dotted(s.func.value) == sname for s in shrinks):
                        why = f"visited set {sname} can shrink"
                        continue
                    if sum(1 for st in assigned_names(ch.node).get(sname, [])) > 1:
                        why = f"visited set {sname} is re-bound"
                        continue
                    an = [n for n in cfg.owners(a) if n in doms and n in loopnodes]
                    if not an:
                        continue
                    # negative membership fact on sname dominating the add
                    memb = False
                    for expr, pol, b in cfg.guards(an[0]):
                        if b not in loopnodes:
                            continue
                        for at, t in decompose_guard(expr, pol):
                            c = cmp_fact(at, t)
                            if c and c[1] is ast.NotIn and c[2] == sname \
                                    and c[0] == norm_stmt(a.args[0]):
                                memb = True
                    if not memb:
                        why = (f"{sname}.add() is not preceded by the test "
                               f"`{norm_stmt(a.args[0])} in {sname}`")
                        continue
                    # the added value is what was popped from the work-list
                    added = norm_stmt(a.args[0])
                    popped_ok = False
                    for st in assigned_names(ch.node).get(added, []):
                        if isinstance(st, ast.Assign) and isinstance(st.value, ast.Call) \
                                and st.value in pops:
                            popped_ok = True
                    if not popped_ok and added != norm_stmt(p.args[0]):
                        why = f"{sname}.add({added}) does not mark the popped / pushed item"
                        continue
                    ok = True
            key = f"children:push:{norm_stmt(p)}"
            if ok:
                ctx.ok("C05.R1", key, sample={"push": norm_stmt(p), "worklist": wl})
            else:
                ctx.fail("C05.R1", key, ch.file, p.lineno, ch.qual,
                         f"work-list push `{norm_stmt(p)}` can loop forever on a cyclic "
                         f"parent-link graph: {why}")
    ctx.require(nwl >= 1, "children(): no work-list loop (while W: W.pop()/W.append()) found")

    # ------------------------------------------------------------------- R2
    ctx.rule("C05.R2", "every result.append(child) in children() is control-"
             "dependent on self.create_time() <= child.create_time() and on a test "
             "that excludes the caller's own PID; the candidates are exactly the table "
             "rows whose parent is the caller (flat) / reachable from it (recursive)", floor=4)
    # the result lists: every local the function returns (one list shared by both
    # branches, or one per branch when the branches return separately)
    ret_names = {r.value.id for r in ast.walk(ch.node) if isinstance(r, ast.Return)
                 and isinstance(r.value, ast.Name)}
    ctx.require(ret_names, "children(): cannot identify the returned list")
    appends = [c for rn in sorted(ret_names) for c in method_calls(ch.node, "append", rn)]
    ctx.require(len(appends) >= 2, "children(): result appends vanished")
    def prefilter(ap_):
        """Candidates selected BEFORE the loop: `L = [k for k, v in T.items() if C]; for
        x in L:` -> (the comprehension, loop variable, comparisons C with k renamed to the
        loop variable), else None."""
        import copy as _copy
        for f_ in [f_ for f_ in ast.walk(ch.node) if isinstance(f_, ast.For)
                   and any(x is ap_ for x in ast.walk(f_))]:
            if not isinstance(f_.target, ast.Name):
                continue
            if isinstance(f_.iter, ast.ListComp):
                defs_ = [f_.iter]
            elif isinstance(f_.iter, ast.Name):
                defs_ = [st_.value for st_ in ast.walk(ch.node) if isinstance(st_, ast.Assign)
                         and dotted(st_.targets[0]) == f_.iter.id]
            else:
                continue
            if len(defs_) != 1 or not isinstance(defs_[0], ast.ListComp):
                continue
            lc_ = defs_[0]
            g_ = lc_.generators[0]
            if len(lc_.generators) != 1 or not (isinstance(g_.target, ast.Tuple)
                                                 and len(g_.target.elts) == 2):
                continue
            k_ = dotted(g_.target.elts[0])
            if dotted(lc_.elt) != k_:
                continue
            extra = []
            for c_ in g_.ifs:
                c2 = _copy.deepcopy(c_)
                for n_ in ast.walk(c2):
                    if isinstance(n_, ast.Name) and n_.id == k_:
                        n_.id = f_.target.id
                for a_, t_ in decompose_guard(c2, True):
                    cf_ = cmp_fact(a_, t_)
                    if cf_:
                        extra.append(cf_)
            return lc_, f_.target.id, extra
        return None
    for ap in appends:
        obj = norm_stmt(ap.args[0])
        for n in cfg.owners(ap):
            cpid_, cmps, _prot = child_facts(repo, A, cfg, n, ch.node, obj)
            pf_ = prefilter(ap)
            if pf_ and pf_[1] == cpid_:
                cmps = list(cmps) + pf_[2]
            key = f"children:append:{obj}:{'rec' if _in_while(ch.node, ap) else 'flat'}"
            hl = holds_le(cmps, "self.create_time()", f"{obj}.create_time()")
            if hl == "strict":
                ctx.fail("C05.R2", key + ":ctime", ch.file, ap.lineno, ch.qual,
                         f"`{norm_stmt(ap)}` requires self.create_time() < {obj}."
                         f"create_time() (strict): a child started in the same clock tick "
                         f"as the caller (create_time() has 0.01 s resolution) is dropped "
                         f"although it did not start before it")
            elif hl:
                ctx.ok("C05.R2", key + ":ctime",
                       sample={"append": norm_stmt(ap), "under": "self.create_time() <= "
                               f"{obj}.create_time()"})
            else:
                ctx.fail("C05.R2", key + ":ctime", ch.file, ap.lineno, ch.qual,
                         f"`{norm_stmt(ap)}` is not guarded by self.create_time() <= "
                         f"{obj}.create_time(): a recycled PID older than the caller "
                         f"would be reported as its child")
            # own-PID exclusion: the pid the child object was built from
            cpid = cpid_
            excl = False
            for l, op, r in cmps:
                if op is ast.NotEq and {l, r} == {cpid, "self.pid"}:
                    excl = True
                if op is ast.NotIn and l == cpid:
                    excl = True   # `child_pid not in seen`, seen holds self.pid
                if op is ast.NotEq and {l, r} == {obj, "self"}:
                    excl = True
                if op is ast.NotEq and {l, r} == {f"{obj}.pid", "self.pid"}:
                    excl = True
            if excl:
                ctx.ok("C05.R2", key + ":self",
                       sample={"append": norm_stmt(ap), "excludes": "caller's own pid"})
            else:
                ctx.fail("C05.R2", key + ":self", ch.file, ap.lineno, ch.qual,
                         f"`{norm_stmt(ap)}` can append the caller itself: nothing "
                         f"excludes {cpid} == self.pid (a self-loop or a cycle through "
                         f"the caller in the ppid table returns the process as its own "
                         f"descendant)")

    # selection: WHICH processes are looked at.  flat: the table rows whose value
    # (ppid) equals self.pid, child = the row's key.  recursive: rows grouped by
    # parent (reverse[ppid].append(pid)), walked from [self.pid], children of the
    # popped pid pushed.
    def enclosing_fors(target):
        return [f_ for f_ in ast.walk(ch.node) if isinstance(f_, ast.For)
                and any(x is target for x in ast.walk(f_))]
    tables = {dotted(st.targets[0]) for st in ast.walk(ch.node) if isinstance(st, ast.Assign)
              and isinstance(st.value, ast.Call) and dotted(st.value.func) in ("_ppid_map", "ppid_map")}
    for ap in appends:
        obj = norm_stmt(ap.args[0])
        rec_ = _in_while(ch.node, ap)
        key = f"children:select:{'rec' if rec_ else 'flat'}"
        n0 = cfg.owners(ap)[0]
        cpid, cmps, _prot = child_facts(repo, A, cfg, n0, ch.node, obj)
        fors = enclosing_fors(ap)
        why = None
        if not rec_:
            rows = [f_ for f_ in fors if isinstance(f_.iter, ast.Call)
                    and isinstance(f_.iter.func, ast.Attribute) and f_.iter.func.attr == "items"
                    and dotted(f_.iter.func.value) in tables
                    and isinstance(f_.target, ast.Tuple) and len(f_.target.elts) == 2]
            pf_ = prefilter(ap)
            if not rows and pf_ and isinstance(pf_[0].generators[0].iter, ast.Call) \
                    and isinstance(pf_[0].generators[0].iter.func, ast.Attribute) \
                    and pf_[0].generators[0].iter.func.attr == "items" \
                    and dotted(pf_[0].generators[0].iter.func.value) in tables:
                # rows filtered into a list first, then walked
                v = dotted(pf_[0].generators[0].target.elts[1])
                cm2 = list(cmps) + pf_[2]
                if cpid != pf_[1]:
                    why = f"the child is built from `{cpid}`, not from the selected pid `{pf_[1]}`"
                elif not any(op is ast.Eq and {l, r} == {v, "self.pid"} for l, op, r in cm2):
                    why = (f"no test `{v} == self.pid` selects the rows: processes whose "
                           f"parent is another process would be reported as children")
            elif not rows:
                why = "the children are not selected from the rows of the ppid table"
            else:
                k, v = (dotted(x) for x in rows[-1].target.elts)
                if cpid != k:
                    why = f"the child is built from `{cpid}`, not from the row's pid `{k}`"
                elif not any(op is ast.Eq and {l, r} == {v, "self.pid"} for l, op, r in cmps):
                    why = (f"no test `{v} == self.pid` selects the rows: processes whose "
                           f"parent is another process would be reported as children")
        else:
            inner = [f_ for f_ in fors if isinstance(f_.iter, ast.Subscript)]
            if not inner or dotted(inner[-1].target) != cpid:
                why = "the child is not taken from the per-parent list of the popped pid"
            else:
                rv = dotted(inner[-1].iter.value)
                popped = dotted(inner[-1].iter.slice)
                build = [c for c in calls_in(ch.node) if isinstance(c.func, ast.Attribute)
                         and c.func.attr == "append" and isinstance(c.func.value, ast.Subscript)
                         and dotted(c.func.value.value) == rv]
                okb = False
                for c in build:
                    bf = [f_ for f_ in enclosing_fors(c) if isinstance(f_.iter, ast.Call)
                          and isinstance(f_.iter.func, ast.Attribute)
                          and f_.iter.func.attr == "items" and dotted(f_.iter.func.value) in tables
                          and isinstance(f_.target, ast.Tuple) and len(f_.target.elts) == 2]
                    if bf:
                        k, v = (dotted(x) for x in bf[-1].target.elts)
                        if dotted(c.func.value.slice) == v and c.args and dotted(c.args[0]) == k:
                            okb = True
                pops = [st for st in ast.walk(ch.node) if isinstance(st, ast.Assign)
                        and dotted(st.targets[0]) == popped and isinstance(st.value, ast.Call)
                        and isinstance(st.value.func, ast.Attribute) and st.value.func.attr == "pop"]
                stack = dotted(pops[0].value.func.value) if pops else None
                init = [st for st in ast.walk(ch.node) if isinstance(st, ast.Assign)
                        and dotted(st.targets[0]) == stack] if stack else []
                start_ok = init and norm_stmt(init[0].value).replace(" ", "") in (
                    "[self.pid]", "collections.deque([self.pid])", "deque([self.pid])")
                push_ok = any(isinstance(c.func, ast.Attribute) and c.func.attr in ("append", "extend")
                              and dotted(c.func.value) == stack and c.args
                              and dotted(c.args[0]) == cpid for c in calls_in(inner[-1]))
                if not okb:
                    why = f"`{rv}` is not built as {{ppid: [pids]}} from the ppid table"
                elif not (pops and start_ok):
                    why = "the walk does not start from [self.pid]"
                elif not push_ok:
                    why = f"accepted children are not pushed back (`{stack}.append({cpid})`): " \
                          f"grandchildren would be missing"
        if why:
            ctx.fail("C05.R2", key, ch.file, ap.lineno, ch.qual, f"children(): {why}")
        else:
            ctx.ok("C05.R2", key, sample="rows with ppid == self.pid" if not rec_ else
                   "reverse[ppid].append(pid); walk from [self.pid]; push accepted children")

    # ------------------------------------------------------------------- R3
    ctx.rule("C05.R3", "recycled caller: children() runs the identity guard before "
             "reading the table; parent() reaches it through ppid() before building "
             "the parent; parents() only iterates parent()", floor=3)
    g = method_calls(ch.node, "_raise_if_pid_reused", "self")
    firsts = [c for c in calls_in(ch.node)
              if dotted(c.func) in ("_ppid_map", "Process")]
    good = bool(g) and all(any(cfg.dominates(gn, n) for gn in cfg.owners(g[0]))
                           for c in firsts for n in cfg.owners(c))
    if good and firsts:
        ctx.ok("C05.R3", "children:guard-first",
               sample={"guard": "self._raise_if_pid_reused()",
                       "dominates": [norm_stmt(c) for c in firsts]})
    else:
        ctx.fail("C05.R3", "children:guard-first", ch.file, ch.node.lineno, ch.qual,
                 "children() reads the process table / builds children without "
                 "first checking that its own PID was not recycled")
    pa = repo.func("psutil", "Process.parent")
    pcfg = A.cfg(pa)
    pp = method_calls(pa.node, "ppid", "self")
    ctors = [c for c in calls_in(pa.node) if dotted(c.func) == "Process"]
    ppid_f = repo.func("psutil", "Process.ppid")
    ppcfg = A.cfg(ppid_f)
    pg = method_calls(ppid_f.node, "_raise_if_pid_reused", "self")
    inner = [c for c in calls_in(ppid_f.node)
             if isinstance(c.func, ast.Attribute) and dotted(c.func.value) == "self._proc"]
    ok1 = bool(pp) and bool(ctors) and all(
        any(pcfg.dominates(a, b) for a in pcfg.owners(pp[0]))
        for c in ctors for b in pcfg.owners(c))
    ok2 = bool(pg) and bool(inner) and all(
        any(ppcfg.dominates(a, b) for a in ppcfg.owners(pg[0]))
        for c in inner for b in ppcfg.owners(c))
    if ok1 and ok2:
        ctx.ok("C05.R3", "parent:guard-via-ppid",
               sample={"parent": "self.ppid() dominates Process(ppid)",
                       "ppid": "guard dominates self._proc.ppid()"})
    else:
        ctx.fail("C05.R3", "parent:guard-via-ppid", pa.file, pa.node.lineno, pa.qual,
                 "parent() can build the parent of a recycled PID: "
                 + ("self.ppid() no longer precedes Process(ppid)" if not ok1 else
                    "ppid() no longer runs _raise_if_pid_reused() before the query"))
    ps = repo.func("psutil", "Process.parents")
    # (closures of parents() included: they run on its behalf)
    pcalls = [c for c in calls_in_all(ps.node) if isinstance(c.func, ast.Attribute)
              and c.func.attr == "parent"]
    other = [c for c in calls_in_all(ps.node) if dotted(c.func) in ("Process", "_ppid_map")
             or (isinstance(c.func, ast.Attribute) and c.func.attr in ("ppid",))]
    if len(pcalls) >= 2 and not other:
        ctx.ok("C05.R3", "parents:via-parent", sample=[norm_stmt(c) for c in pcalls])
    else:
        ctx.fail("C05.R3", "parents:via-parent", ps.file, ps.node.lineno, ps.qual,
                 "parents() no longer walks the chain through parent()")

    # the guard these three rely on must itself detect a recycled PID
    from .c01 import guard_cover
    gfun = repo.func("psutil", "Process._raise_if_pid_reused")
    for fl, leaks in guard_cover(repo, A):
        if leaks:
            ctx.fail("C05.R3", f"guard-effective:{fl}", gfun.file, gfun.node.lineno, gfun.qual,
                     "_raise_if_pid_reused() can return normally for a recycled PID ("
                     + ("it never consults is_running(), which is what detects the recycling"
                        if fl.startswith("<") else f"{fl} set but no raise")
                     + "): children()/parent()/parents() then describe the tree of "
                     "whoever owns the PID now")
        else:
            ctx.ok("C05.R3", f"guard-effective:{fl}", nontrivial=False)

    # ------------------------------------------------------------------- R4
    ctx.rule("C05.R4", "parent(): the lowest-PID stop precedes the lookup; the "
             "parent object is returned only under parent.create_time() <= the "
             "caller's creation time; NoSuchProcess means None", floor=3)
    for c in pp:
        for n in pcfg.owners(c):
            cm = true_compares(pcfg, n, pa.node)
            if any(op is ast.NotEq and "self.pid" in (l, r) for l, op, r in cm):
                ctx.ok("C05.R4", "parent:lowest-pid-stop",
                       sample="self.pid != lowest_pid holds at self.ppid()")
            else:
                ctx.fail("C05.R4", "parent:lowest-pid-stop", pa.file, c.lineno, pa.qual,
                         "parent() no longer stops at the lowest PID before looking "
                         "up a parent")
    # PID 0 is a process like any other (macOS, Windows, BSD list it and it is the
    # parent of the first processes): the lookup may be skipped when ppid() is None
    # ("no parent known"), never because the number is falsy
    for c in ctors:
        arg = dotted(c.args[0]) if c.args else None
        for n in pcfg.owners(c):
            fs = facts(pcfg, n)
            names_ = {arg, norm_stmt(deref(pa.node, c.args[0])) if c.args else None}
            if any(f[0] == "truthy" and f[1] in names_ and f[2] is True for f in fs) or any(
                    implies_nonzero(f, nm_) for f in fs for nm_ in names_ if nm_):
                ctx.fail("C05.R4", "parent:pid0-is-a-pid", pa.file, c.lineno, pa.qual,
                         f"`Process({arg})` is only reached when {arg} is truthy / non-zero: "
                         f"a process whose parent is PID 0 gets parent() == None and "
                         f"parents() stops one short of the root")
            else:
                ctx.ok("C05.R4", "parent:pid0-is-a-pid",
                       sample=f"Process({arg}) is reached for {arg} == 0 (only None skips it)")
    rets = [n for n in pcfg.nodes if n.kind == "return" and n.stmt.value is not None
            and not (isinstance(n.stmt.value, ast.Constant) and n.stmt.value.value is None)]
    ctx.require(rets, "parent(): no `return <parent>`")
    ctime_names = [k for k, v in assigned_names(pa.node).items()
                   if len(v) == 1 and isinstance(v[0], ast.Assign)
                   and norm_stmt(v[0].value) == "self.create_time()"]
    for n in rets:
        obj = norm_stmt(n.stmt.value)
        cm = true_compares(pcfg, n, pa.node)
        objs = {obj, norm_stmt(deref(pa.node, n.stmt.value))}
        hls = [holds_le(cm, f"{o}.create_time()", x)
               for o in sorted(objs) for x in ctime_names + ["self.create_time()"]]
        good = any(h is True for h in hls)
        if not good and "strict" in hls:
            ctx.fail("C05.R4", "parent:ctime-order", pa.file, n.line, pa.qual,
                     f"`return {obj}` requires {obj}.create_time() < the caller's creation "
                     f"time (strict): a parent started in the same clock tick as the caller "
                     f"is not younger than it, yet parent() answers None")
        elif good:
            ctx.ok("C05.R4", "parent:ctime-order",
                   sample=f"return {obj} under {obj}.create_time() <= own ctime")
        else:
            ctx.fail("C05.R4", "parent:ctime-order", pa.file, n.line, pa.qual,
                     f"`return {obj}` is not guarded by {obj}.create_time() <= the "
                     f"caller's creation time: a younger process that recycled the "
                     f"parent's PID would be returned")
    # every query on the freshly built parent object sits in the same protection
    pnames = {dotted(st.targets[0]) for st in ast.walk(pa.node) if isinstance(st, ast.Assign)
              and st.value in ctors}
    for c in calls_in(pa.node):
        if isinstance(c.func, ast.Attribute) and dotted(c.func.value) in pnames:
            prot = any(handler_catches(h, ["NoSuchProcess"])
                       for t in enclosing_trys(pa.node, c) for h in t.handlers)
            key = f"parent:query-protected:{norm_stmt(c)}"
            if prot:
                ctx.ok("C05.R4", key, sample=f"{norm_stmt(c)} under except NoSuchProcess")
            else:
                ctx.fail("C05.R4", key, pa.file, c.lineno, pa.qual,
                         f"`{norm_stmt(c)}` queries the parent outside the NoSuchProcess "
                         f"protection: a parent vanishing right after construction makes "
                         f"parent() raise NoSuchProcess carrying the PARENT's pid "
                         f"instead of returning None")
    for c in ctors:
        trys = enclosing_trys(pa.node, c)
        good = False
        for t in trys:
            for h in t.handlers:
                if handler_catches(h, ["NoSuchProcess"]) and not any(
                        isinstance(s, (ast.Raise, ast.Return)) and
                        getattr(s, "value", None) is not None and
                        not (isinstance(s.value, ast.Constant) and s.value.value is None)
                        for st in h.body for s in ast.walk(st)):
                    good = not any(isinstance(s, ast.Raise) for st in h.body
                                   for s in ast.walk(st))
        if good:
            ctx.ok("C05.R4", "parent:nsp-none", sample="NoSuchProcess -> None")
        else:
            ctx.fail("C05.R4", "parent:nsp-none", pa.file, c.lineno, pa.qual,
                     "a parent that vanished is no longer reported as None")

    # ------------------------------------------------------------------- R5
    ctx.rule("C05.R5", "a child that vanishes or is a zombie while the tree is "
             "walked is skipped: each Process(child) + create_time() sits in a try "
             "whose handler catches NoSuchProcess and continues", floor=2)
    cctors = [c for c in calls_in(ch.node) if dotted(c.func) == "Process"]
    if not cctors:
        # the children are built by a helper method: its summary says whether the
        # construction and the queries are protected
        for ap in appends:
            obj = norm_stmt(ap.args[0])
            n0 = cfg.owners(ap)[0]
            _cp, _cm, prot = child_facts(repo, A, cfg, n0, ch.node, obj)
            key = f"children:child-handler:{'rec' if _in_while(ch.node, ap) else 'flat'}"
            if prot:
                ctx.ok("C05.R5", key, sample="helper builds the child under except "
                       "(NoSuchProcess, ZombieProcess)")
            else:
                ctx.fail("C05.R5", key, ch.file, ap.lineno, ch.qual,
                         "a child vanishing mid-walk is no longer skipped "
                         "(NoSuchProcess/ZombieProcess would escape children())")
    hoisted = False
    for c in cctors:
        trys = enclosing_trys(ch.node, c)
        good = False
        for t in trys:
            for h in t.handlers:
                if handler_catches(h, ["NoSuchProcess"]) and \
                        handler_catches(h, ["ZombieProcess"]) and not any(
                        isinstance(s, (ast.Raise, ast.Return, ast.Break))
                        for st in h.body for s in ast.walk(st)):
                    # the create_time() comparison must be inside the same try
                    inside = any(isinstance(s, ast.Call) and isinstance(s.func, ast.Attribute)
                                 and s.func.attr == "create_time"
                                 for b in t.body for s in ast.walk(b))
                    # "skipped" means the scan of the other candidates goes on: the try
                    # sits INSIDE the loop over the candidates (a try around that loop
                    # would drop every sibling listed after the one that vanished)
                    loops_ = [l_ for l_ in ast.walk(ch.node) if isinstance(l_, ast.For)
                              and any(x is c for x in ast.walk(l_))]
                    innermost = loops_[-1] if loops_ else None
                    per_child = innermost is not None and any(x is t for x in ast.walk(innermost))
                    good = inside and per_child
                    if inside and not per_child:
                        hoisted = True
        key = f"children:child-handler:{'rec' if _in_while(ch.node, c) else 'flat'}"
        if good:
            ctx.ok("C05.R5", key, sample=f"{norm_stmt(c)} under except (NoSuchProcess, ZombieProcess)")
        else:
            ctx.fail("C05.R5", key, ch.file, c.lineno, ch.qual,
                     (f"`{norm_stmt(c)}`: the handler of NoSuchProcess/ZombieProcess encloses the "
                      f"whole loop over the candidates: one child vanishing mid-walk drops every "
                      f"sibling listed after it (and their sub-trees)") if hoisted else
                     f"`{norm_stmt(c)}`: a child vanishing mid-walk is no longer "
                     f"skipped (NoSuchProcess/ZombieProcess would escape children())")
    # ------------------------------------------------------------------- R6
    ctx.rule("C05.R6", "the PID->PPID table children() walks is read like "
             "Process.ppid(): stat column 1 counted after the LAST ')' of each "
             "<pid>/stat record (a name containing ') ' must not shift it); PIDs vanishing "
             "while it is built are skipped", floor=3)
    from ..core.absint import Interp, alternatives, pretty
    from ..oracles import linux as O
    from .c06 import collect, evaluate, stat_atoms
    I = Interp(repo, A)
    pmf = repo.func("_pslinux", "ppid_map")
    t = evaluate(I, pmf)
    ds = [a for a in alternatives(t) if a[0] == "dictof"]
    ctx.require(ds, "ppid_map(): result is not a {pid: ppid} table")
    finds = collect(t, lambda x: x and x[0] == "find" and x[2][0] == "const"
                    and x[2][1] in (b")", ")", b") ", ") "))
    if finds and {f[3] for f in finds} == {"last"}:
        ctx.ok("C05.R6", "ppid_map:last-paren", sample="end of comm = last ')'")
    else:
        ctx.fail("C05.R6", "ppid_map:last-paren", pmf.file, pmf.node.lineno, pmf.qual,
                 "ppid_map() cuts <pid>/stat at the FIRST ')': for a process whose name "
                 "contains ') ' the parent PID is read from the wrong field, so children() "
                 "attaches it to the wrong parent (Process.ppid() uses the last ')')")
    # a process vanishing while the table is built (between listing, open and read)
    # is skipped, it does not make children() fail
    from ..core.escape import Escape
    es = Escape(repo, A, "linux").escapes(pmf)
    bad = sorted({(x.cls, x.site) for x in es
                  if x.cls in ("FileNotFoundError", "ProcessLookupError") and x.origin == "process"})
    if bad:
        ctx.fail("C05.R6", "ppid_map:vanishing", pmf.file, pmf.node.lineno, pmf.qual,
                 f"a PID vanishing while the ppid table is built raises {bad}: children() of an "
                 f"unrelated live process fails because some other process exited")
    else:
        ctx.ok("C05.R6", "ppid_map:vanishing", sample="ENOENT/ESRCH per PID -> skipped")
    atoms = stat_atoms(ds[0][2])
    if atoms and all(d["file"] == "pid/stat" and d["col"] == O.STAT["ppid"] for _, d in atoms):
        ctx.ok("C05.R6", "ppid_map:column", sample={"stat_column": O.STAT["ppid"]})
    else:
        ctx.fail("C05.R6", "ppid_map:column", pmf.file, pmf.node.lineno, pmf.qual,
                 f"ppid_map values come from {[(d['file'], d['col']) for _, d in atoms]}, "
                 f"not stat column {O.STAT['ppid']}")

    ctx.assume("creation-time resolution and real PID recycling are run-time facts; "
               "only the guards that make the tree walk correct are decided")
    return ("CFG dominance and control-dependence facts in Process.children/parent/"
            "parents/ppid: visited-set discipline of the work-list, creation-time "
            "ordering and own-PID exclusion on every append, identity guard first, "
            "handler policy for vanishing children.",
            "CFG dominance / control dependence")


def _in_while(fnode, target):
    for w in ast.walk(fnode):
        if isinstance(w, ast.While) and any(s is target for s in ast.walk(w)):
            return True
    return False


_HELPERS = {}


def _helper_summary(repo, A, h):
    """Summary of a Process method that returns either None or a Process it
    built from one of its parameters:  (index of that parameter, comparisons
    known true at every non-None return with the object written `$obj`,
    protected?)  or None.  `protected` = the construction and every query on
    the new object sit in a try that swallows NoSuchProcess and ZombieProcess."""
    if id(h.node) in _HELPERS:
        return _HELPERS[id(h.node)]
    res = None
    cfg = A.cfg(h)
    params = [a.arg for a in h.node.args.args if a.arg != "self"]
    rets = [n for n in cfg.nodes if n.kind == "return" and n.stmt.value is not None
            and not (isinstance(n.stmt.value, ast.Constant) and n.stmt.value.value is None)]
    ok = bool(rets)
    idx, common = None, None
    for r in rets:
        v = dotted(r.stmt.value)
        if not v:
            ok = False
            break
        cp = _ctor_pid_local(cfg, r, h.node, v)
        if cp not in params:
            ok = False
            break
        cm = {(l.replace(v, "$obj"), op, rr.replace(v, "$obj"))
              for l, op, rr in true_compares(cfg, r, h.node)}
        if idx is None:
            idx, common = params.index(cp), cm
        elif idx != params.index(cp):
            ok = False
            break
        else:
            common &= cm
    if ok:
        prot = True
        objs = {dotted(r.stmt.value) for r in rets}
        for c in calls_in(h.node):
            is_ctor = dotted(c.func) == "Process"
            is_query = isinstance(c.func, ast.Attribute) and dotted(c.func.value) in objs
            if not (is_ctor or is_query):
                continue
            good = False
            for t in enclosing_trys(h.node, c):
                for hd in t.handlers:
                    if handler_catches(hd, ["NoSuchProcess"]) and handler_catches(hd, ["ZombieProcess"]) \
                            and not any(isinstance(x, ast.Raise) for b in hd.body for x in ast.walk(b)):
                        good = True
            prot = prot and good
        res = (idx, common, prot)
    _HELPERS[id(h.node)] = res
    return res


def child_facts(repo, A, cfg, node, fnode, objname):
    """(pid expression the object was built from, comparisons known true about
    it at `node`, construction protected by a handler?) - the object being built
    in place (`obj = Process(X)`) or by a helper method of the class
    (`obj = self._helper(X)` under `obj is not None`)."""
    cp = _ctor_pid_local(cfg, node, fnode, objname)
    cmps = true_compares(cfg, node, fnode)
    if cp != "?":
        return cp, cmps, None
    doms = cfg.dominators()[node]
    best = None
    for st in ast.walk(fnode):
        if isinstance(st, ast.Assign) and len(st.targets) == 1 and dotted(st.targets[0]) == objname \
                and isinstance(st.value, ast.Call) and isinstance(st.value.func, ast.Attribute) \
                and dotted(st.value.func.value) == "self":
            for n in cfg.nodes_of(st):
                if n in doms and (best is None or n.id > best[0].id):
                    best = (n, st.value)
    if best is None:
        return "?", cmps, None
    call = best[1]
    nonnull = any((l, op, r) == (objname, ast.IsNot, "None") or (op is ast.IsNot and l == objname)
                  for l, op, r in cmps) or any(
        isinstance(e, ast.Name) and e.id == objname and pol is True
        for e, pol, _ in cfg.guards(node)) or any(
        f == ("isnone", objname, False) for f in facts(cfg, node))
    hs = [f for f in repo.all_funcs("psutil") if f.cls == "Process"
          and f.name == call.func.attr and f.parent is None]
    if not hs or not nonnull:
        return "?", cmps, None
    summ = _helper_summary(repo, A, hs[0])
    if summ is None or summ[0] >= len(call.args):
        return "?", cmps, None
    idx, cm, prot = summ
    extra = [(l.replace("$obj", objname), op, r.replace("$obj", objname)) for l, op, r in cm]
    return norm_stmt(call.args[idx]), cmps + extra, prot


def _ctor_pid(cfg, node, fnode, objname):
    return _ctor_pid_local(cfg, node, fnode, objname)


def _ctor_pid_local(cfg, node, fnode, objname):
    """Text of the pid expression X in the `objname = Process(X)` that
    dominates `node` most closely."""
    best = None
    doms = cfg.dominators()[node]
    for st in ast.walk(fnode):
        if isinstance(st, ast.Assign) and len(st.targets) == 1 \
                and dotted(st.targets[0]) == objname \
                and isinstance(st.value, ast.Call) and dotted(st.value.func) == "Process" \
                and st.value.args:
            for n in cfg.nodes_of(st):
                if n in doms and (best is None or n.id > best[0].id):
                    best = (n, norm_stmt(st.value.args[0]))
    return best[1] if best else "?"
