"""Syntactic normal form, applied in place to every module right after parsing.

Each rewrite is semantics-preserving, so the analysed program is equivalent to
the one on disk; two spellings of the same code reach the rules as ONE shape:

  N1  a > b  -> b < a ;  a >= b -> b <= a        (pure operands)
      K == x -> x == K ; K != x -> x != K        (constant moved to the right)
  N2  if not C: A else: B   ->   if C: B else: A
  N3  t = E ; return t      ->   return E        (t not used anywhere else)
  N4  t = E ; S[t]          ->   S[E]            (t written once, read once by the
                                                  next statement, before any call of S
                                                  completes and unconditionally)

Pure operand = Name / Attribute chain / Constant / Subscript of those / unary
minus of those: evaluating them has no side effect and their order does not
matter.
"""

import ast


def _pure(e):
    if isinstance(e, (ast.Name, ast.Constant)):
        return True
    if isinstance(e, ast.Attribute):
        return _pure(e.value)
    if isinstance(e, ast.Subscript):
        return _pure(e.value) and _pure(e.slice)
    if isinstance(e, ast.UnaryOp) and isinstance(e.op, (ast.USub, ast.UAdd)):
        return _pure(e.operand)
    return False


def _is_const(e):
    return isinstance(e, ast.Constant) or (
        isinstance(e, ast.UnaryOp) and isinstance(e.op, ast.USub)
        and isinstance(e.operand, ast.Constant)) or (
        isinstance(e, ast.Attribute) and isinstance(e.value, ast.Name)
        and e.attr.isupper())


def _rank(e):
    """Operand order of == / !=: the more constant-like operand goes right.
    Two plain names keep their order (it cannot be fixed independently of how
    locals are called)."""
    if _is_const(e):
        return 3
    if isinstance(e, ast.Attribute):
        return 2
    if isinstance(e, ast.Subscript):
        return 1
    return 0


class _Cmp(ast.NodeTransformer):
    def visit_Compare(self, n):
        self.generic_visit(n)
        if len(n.ops) != 1:
            return n
        a, b, op = n.left, n.comparators[0], n.ops[0]
        if not (_pure(a) and _pure(b)):
            # one side may be a call: only move a literal constant to the right
            if isinstance(op, (ast.Eq, ast.NotEq)) and isinstance(a, ast.Constant) \
                    and not isinstance(b, ast.Constant):
                n.left, n.comparators = b, [a]
            return n
        if isinstance(op, ast.Gt):
            n.left, n.comparators, n.ops = b, [a], [ast.Lt()]
        elif isinstance(op, ast.GtE):
            n.left, n.comparators, n.ops = b, [a], [ast.LtE()]
        elif isinstance(op, (ast.Eq, ast.NotEq)):
            if _rank(a) > _rank(b):
                n.left, n.comparators = b, [a]
        return n


class _If(ast.NodeTransformer):
    def visit_If(self, n):
        self.generic_visit(n)
        while n.orelse and isinstance(n.test, ast.UnaryOp) and isinstance(n.test.op, ast.Not):
            n.test = n.test.operand
            n.body, n.orelse = n.orelse, n.body
        return n

    def visit_IfExp(self, n):
        self.generic_visit(n)
        while isinstance(n.test, ast.UnaryOp) and isinstance(n.test.op, ast.Not):
            n.test = n.test.operand
            n.body, n.orelse = n.orelse, n.body
        return n


def _inline_return_temps(fn):
    """N3 inside one function (nested functions are handled on their own).
    A name qualifies when EVERY read of it is a `return t` immediately preceded
    by `t = E` in the same block (so the value returned is always that E)."""
    loads, pinned = {}, set()

    def binds(f):
        out = {a.arg for a in f.args.posonlyargs + f.args.args + f.args.kwonlyargs}
        for n in ast.walk(f):
            if isinstance(n, ast.Name) and isinstance(n.ctx, ast.Store):
                out.add(n.id)
        return out

    def count(node, shadow):
        for c in ast.iter_child_nodes(node):
            if isinstance(c, (ast.FunctionDef, ast.AsyncFunctionDef, ast.Lambda)):
                inner = shadow | (binds(c) if not isinstance(c, ast.Lambda)
                                  else {a.arg for a in c.args.args})
                nl = {x for n in ast.walk(c) if isinstance(n, ast.Nonlocal) for x in n.names}
                count(c, inner - nl)
                continue
            if isinstance(c, ast.Name) and isinstance(c.ctx, ast.Load) and c.id not in shadow:
                loads[c.id] = loads.get(c.id, 0) + 1
            elif isinstance(c, (ast.Global, ast.Nonlocal)):
                pinned.update(c.names)
            count(c, shadow)
    count(fn, set())
    pairs = {}

    def scan(stmts, do):
        i = 0
        while i + 1 < len(stmts):
            a, b = stmts[i], stmts[i + 1]
            if isinstance(a, ast.Assign) and len(a.targets) == 1 \
                    and isinstance(a.targets[0], ast.Name) and isinstance(b, ast.Return) \
                    and isinstance(b.value, ast.Name) and b.value.id == a.targets[0].id \
                    and not any(isinstance(x, ast.Name) and x.id == b.value.id
                                for x in ast.walk(a.value)):
                if do is None:
                    pairs[b.value.id] = pairs.get(b.value.id, 0) + 1
                elif b.value.id in do:
                    b.value = a.value
                    del stmts[i]
                    continue
            i += 1
        for st in stmts:
            if isinstance(st, (ast.FunctionDef, ast.AsyncFunctionDef, ast.ClassDef)):
                continue
            for f in ("body", "orelse", "finalbody"):
                sub = getattr(st, f, None)
                if isinstance(sub, list) and sub and isinstance(sub[0], ast.stmt):
                    scan(sub, do)
            for h in getattr(st, "handlers", []) or []:
                scan(h.body, do)
            for c in getattr(st, "cases", []) or []:
                scan(c.body, do)
    scan(fn.body, None)
    ok = {t for t, k in pairs.items() if loads.get(t, 0) == k and t not in pinned}
    if ok:
        scan(fn.body, ok)


# ---------------------------------------------------------------------------
# N4: a temporary that is written once and read once, by the very next
# statement, before anything with a side effect completes, is the expression it
# names:   t = E ; S[t]   ->   S[E]
_EFFECT = (ast.Call, ast.Await, ast.Yield, ast.YieldFrom)


def _eval_children(n):
    """Child expressions in evaluation order."""
    if isinstance(n, ast.Dict):
        out = []
        for k, v in zip(n.keys, n.values):
            if k is not None:
                out.append(k)
            out.append(v)
        return out
    if isinstance(n, ast.Assign):
        return [n.value] + list(n.targets)
    if isinstance(n, ast.AugAssign):
        return [n.target, n.value]
    if isinstance(n, ast.AnnAssign):
        return ([n.value] if n.value is not None else []) + [n.target]
    return [c for c in ast.iter_child_nodes(n) if isinstance(c, (ast.expr, ast.keyword,
                                                                ast.comprehension, ast.withitem,
                                                                ast.arguments, ast.slice
                                                                if hasattr(ast, "slice") else ast.expr))]


def _safe_position(root, tnode):
    """True if `tnode` is evaluated unconditionally and before any effectful
    sub-expression of `root` completes."""
    done = {"found": False, "ok": True}

    def rec(n, conditional):
        if done["found"]:
            return
        if n is tnode:
            done["found"] = True
            if conditional:
                done["ok"] = False
            return
        if isinstance(n, (ast.Lambda, ast.ListComp, ast.SetComp, ast.DictComp, ast.GeneratorExp)):
            # bodies are evaluated later / repeatedly
            if any(x is tnode for x in ast.walk(n)):
                done["found"] = True
                done["ok"] = False
            return
        kids = _eval_children(n)
        for i, c in enumerate(kids):
            cond = conditional
            if isinstance(n, ast.BoolOp) and i > 0:
                cond = True
            if isinstance(n, ast.IfExp) and c is not n.test:
                cond = True
            if isinstance(n, ast.Compare) and i > 1:
                cond = True
            rec(c, cond)
            if done["found"]:
                return
        if isinstance(n, _EFFECT):
            # this effect completed and tnode has not been evaluated yet
            done["ok"] = False
    rec(root, False)
    return done["found"] and done["ok"]


def _stmt_roots(st):
    """The expression roots a statement evaluates immediately, in order
    (None for statements we do not inline into)."""
    if isinstance(st, (ast.Assign, ast.AugAssign, ast.AnnAssign)):
        return [st]
    if isinstance(st, (ast.Return, ast.Expr)):
        return [st.value] if st.value is not None else []
    if isinstance(st, ast.Raise):
        return [x for x in (st.exc, st.cause) if x is not None]
    if isinstance(st, ast.If):
        return [st.test]
    if isinstance(st, (ast.For, ast.AsyncFor)):
        return [st.iter]
    if isinstance(st, (ast.With, ast.AsyncWith)):
        return [st.items[0].context_expr] if st.items else []
    return None


class _Subst(ast.NodeTransformer):
    def __init__(self, tnode, value):
        self.tnode, self.value = tnode, value

    def visit_Name(self, n):
        return self.value if n is self.tnode else n


def _inline_temps(fn):
    changed = True
    rounds = 0
    while changed and rounds < 20:
        changed = False
        rounds += 1
        loads, stores, pinned = {}, {}, set()

        def count(node, shadow):
            for c in ast.iter_child_nodes(node):
                if isinstance(c, (ast.FunctionDef, ast.AsyncFunctionDef, ast.Lambda)):
                    inner = set(shadow)
                    a = c.args
                    inner |= {x.arg for x in a.posonlyargs + a.args + a.kwonlyargs}
                    if not isinstance(c, ast.Lambda):
                        for n in ast.walk(c):
                            if isinstance(n, ast.Name) and isinstance(n.ctx, ast.Store):
                                inner.add(n.id)
                        nl = {x for n in ast.walk(c) if isinstance(n, ast.Nonlocal) for x in n.names}
                        inner -= nl
                        # a closure reading an outer local keeps it alive: pin
                        for n in ast.walk(c):
                            if isinstance(n, ast.Name) and n.id not in inner:
                                pinned.add(n.id)
                    count(c, inner)
                    continue
                if isinstance(c, ast.Name) and c.id not in shadow:
                    if isinstance(c.ctx, ast.Load):
                        loads[c.id] = loads.get(c.id, 0) + 1
                    else:
                        stores[c.id] = stores.get(c.id, 0) + 1
                elif isinstance(c, (ast.Global, ast.Nonlocal)):
                    pinned.update(c.names)
                elif isinstance(c, ast.ExceptHandler) and c.name:
                    stores[c.name] = stores.get(c.name, 0) + 1
                elif isinstance(c, ast.arg):
                    pinned.add(c.arg)
                count(c, shadow)
        count(fn, set())

        def block(stmts):
            nonlocal changed
            i = 0
            while i + 1 < len(stmts):
                a, b = stmts[i], stmts[i + 1]
                if isinstance(a, ast.Assign) and len(a.targets) == 1 \
                        and isinstance(a.targets[0], ast.Name):
                    t = a.targets[0].id
                    if loads.get(t, 0) == 1 and stores.get(t, 0) == 1 and t not in pinned \
                            and not any(isinstance(x, (ast.Yield, ast.YieldFrom, ast.Await,
                                                       ast.NamedExpr, ast.Starred))
                                        for x in ast.walk(a.value)):
                        roots = _stmt_roots(b)
                        if roots:
                            uses = [x for r in roots for x in ast.walk(r)
                                    if isinstance(x, ast.Name) and x.id == t
                                    and isinstance(x.ctx, ast.Load)]
                            if len(uses) == 1:
                                # order of the roots: the use must come before any effect
                                okpos = False
                                for r in roots:
                                    if any(x is uses[0] for x in ast.walk(r)):
                                        okpos = _safe_position(r, uses[0])
                                        break
                                    if any(isinstance(x, _EFFECT) for x in ast.walk(r)):
                                        break
                                if okpos:
                                    _Subst(uses[0], a.value).visit(b)
                                    del stmts[i]
                                    loads[t] = 0
                                    changed = True
                                    continue
                i += 1
            for st in stmts:
                if isinstance(st, (ast.FunctionDef, ast.AsyncFunctionDef, ast.ClassDef)):
                    continue
                for f in ("body", "orelse", "finalbody"):
                    sub = getattr(st, f, None)
                    if isinstance(sub, list) and sub and isinstance(sub[0], ast.stmt):
                        block(sub)
                for h in getattr(st, "handlers", []) or []:
                    block(h.body)
                for c in getattr(st, "cases", []) or []:
                    block(c.body)
        block(fn.body)


def normalise(tree):
    _Cmp().visit(tree)
    _If().visit(tree)
    import os as _os
    for n in ast.walk(tree):
        if isinstance(n, (ast.FunctionDef, ast.AsyncFunctionDef)):
            _inline_return_temps(n)
    if not _os.environ.get("VERIF_NO_N4"):
        for n in ast.walk(tree):
            if isinstance(n, (ast.FunctionDef, ast.AsyncFunctionDef)):
                _inline_temps(n)
    return tree
