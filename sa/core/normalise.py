"""Syntactic normal form, applied in place to every module right after parsing.

Each rewrite is semantics-preserving, so the analysed program is equivalent to
the one on disk; two spellings of the same code reach the rules as ONE shape:

  N1  a > b  -> b < a ;  a >= b -> b <= a        (pure operands)
      K == x -> x == K ; K != x -> x != K        (constant moved to the right)
  N2  if not C: A else: B   ->   if C: B else: A
  N3  t = E ; return t      ->   return E        (t not used anywhere else)
  N4  t = E ; S[t]          ->   S[E]            (t written once, read once by the
                                                  next statement, before any call of S
                                                  completes and unconditionally)

Pure operand = Name / Attribute chain / Constant / Subscript of those / unary
minus of those: evaluating them has no side effect and their order does not
matter.
"""

import ast


def _pure(e):
    if isinstance(e, (ast.Name, ast.Constant)):
        return True
    if isinstance(e, ast.Attribute):
        return _pure(e.value)
    if isinstance(e, ast.Subscript):
        return _pure(e.value) and _pure(e.slice)
    if isinstance(e, ast.UnaryOp) and isinstance(e.op, (ast.USub, ast.UAdd)):
        return _pure(e.operand)
    return False


def _is_const(e):
    return isinstance(e, ast.Constant) or (
        isinstance(e, ast.UnaryOp) and isinstance(e.op, ast.USub)
        and isinstance(e.operand, ast.Constant)) or (
        isinstance(e, ast.Attribute) and isinstance(e.value, ast.Name)
        and e.attr.isupper())


def _rank(e):
    """Operand order of == / !=: the more constant-like operand goes right.
    Two plain names keep their order (it cannot be fixed independently of how
    locals are called)."""
    if _is_const(e):
        return 3
    if isinstance(e, ast.Attribute):
        return 2
    if isinstance(e, ast.Subscript):
        return 1
    return 0


class _Cmp(ast.NodeTransformer):
    def visit_Compare(self, n):
        self.generic_visit(n)
        if len(n.ops) != 1:
            return n
        a, b, op = n.left, n.comparators[0], n.ops[0]
        if not (_pure(a) and _pure(b)):
            # one side may be a call: only move a literal constant to the right
            if isinstance(op, (ast.Eq, ast.NotEq)) and isinstance(a, ast.Constant) \
                    and not isinstance(b, ast.Constant):
                n.left, n.comparators = b, [a]
            return n
        if isinstance(op, ast.Gt):
            n.left, n.comparators, n.ops = b, [a], [ast.Lt()]
        elif isinstance(op, ast.GtE):
            n.left, n.comparators, n.ops = b, [a], [ast.LtE()]
        elif isinstance(op, (ast.Eq, ast.NotEq)):
            if _rank(a) > _rank(b):
                n.left, n.comparators = b, [a]
        return n


class _If(ast.NodeTransformer):
    def visit_If(self, n):
        self.generic_visit(n)
        while n.orelse and isinstance(n.test, ast.UnaryOp) and isinstance(n.test.op, ast.Not):
            n.test = n.test.operand
            n.body, n.orelse = n.orelse, n.body
        return n

    def visit_IfExp(self, n):
        self.generic_visit(n)
        while isinstance(n.test, ast.UnaryOp) and isinstance(n.test.op, ast.Not):
            n.test = n.test.operand
            n.body, n.orelse = n.orelse, n.body
        return n


def _inline_return_temps(fn):
    """N3 inside one function (nested functions are handled on their own).
    A name qualifies when EVERY read of it is a `return t` immediately preceded
    by `t = E` in the same block (so the value returned is always that E)."""
    loads, pinned = {}, set()

    def binds(f):
        out = {a.arg for a in f.args.posonlyargs + f.args.args + f.args.kwonlyargs}
        for n in ast.walk(f):
            if isinstance(n, ast.Name) and isinstance(n.ctx, ast.Store):
                out.add(n.id)
        return out

    def count(node, shadow):
        for c in ast.iter_child_nodes(node):
            if isinstance(c, (ast.FunctionDef, ast.AsyncFunctionDef, ast.Lambda)):
                inner = shadow | (binds(c) if not isinstance(c, ast.Lambda)
                                  else {a.arg for a in c.args.args})
                nl = {x for n in ast.walk(c) if isinstance(n, ast.Nonlocal) for x in n.names}
                count(c, inner - nl)
                continue
            if isinstance(c, ast.Name) and isinstance(c.ctx, ast.Load) and c.id not in shadow:
                loads[c.id] = loads.get(c.id, 0) + 1
            elif isinstance(c, (ast.Global, ast.Nonlocal)):
                pinned.update(c.names)
            count(c, shadow)
    count(fn, set())
    pairs = {}

    def scan(stmts, do):
        i = 0
        while i + 1 < len(stmts):
            a, b = stmts[i], stmts[i + 1]
            if isinstance(a, ast.Assign) and len(a.targets) == 1 \
                    and isinstance(a.targets[0], ast.Name) and isinstance(b, ast.Return) \
                    and isinstance(b.value, ast.Name) and b.value.id == a.targets[0].id \
                    and not any(isinstance(x, ast.Name) and x.id == b.value.id
                                for x in ast.walk(a.value)):
                if do is None:
                    pairs[b.value.id] = pairs.get(b.value.id, 0) + 1
                elif b.value.id in do:
                    b.value = a.value
                    del stmts[i]
                    continue
            i += 1
        for st in stmts:
            if isinstance(st, (ast.FunctionDef, ast.AsyncFunctionDef, ast.ClassDef)):
                continue
            for f in ("body", "orelse", "finalbody"):
                sub = getattr(st, f, None)
                if isinstance(sub, list) and sub and isinstance(sub[0], ast.stmt):
                    scan(sub, do)
            for h in getattr(st, "handlers", []) or []:
                scan(h.body, do)
            for c in getattr(st, "cases", []) or []:
                scan(c.body, do)
    scan(fn.body, None)
    ok = {t for t, k in pairs.items() if loads.get(t, 0) == k and t not in pinned}
    if ok:
        scan(fn.body, ok)


# ---------------------------------------------------------------------------
# N4: a temporary that is written once and read once, by the very next
# statement, before anything with a side effect completes, is the expression it
# names:   t = E ; S[t]   ->   S[E]
_EFFECT = (ast.Call, ast.Await, ast.Yield, ast.YieldFrom)


def _eval_children(n):
    """Child expressions in evaluation order."""
    if isinstance(n, ast.Dict):
        out = []
        for k, v in zip(n.keys, n.values):
            if k is not None:
                out.append(k)
            out.append(v)
        return out
    if isinstance(n, ast.Assign):
        return [n.value] + list(n.targets)
    if isinstance(n, ast.AugAssign):
        return [n.target, n.value]
    if isinstance(n, ast.AnnAssign):
        return ([n.value] if n.value is not None else []) + [n.target]
    return [c for c in ast.iter_child_nodes(n) if isinstance(c, (ast.expr, ast.keyword,
                                                                ast.comprehension, ast.withitem,
                                                                ast.arguments, ast.slice
                                                                if hasattr(ast, "slice") else ast.expr))]


def _safe_position(root, tnode):
    """True if `tnode` is evaluated unconditionally and before any effectful
    sub-expression of `root` completes."""
    done = {"found": False, "ok": True}

    def rec(n, conditional):
        if done["found"]:
            return
        if n is tnode:
            done["found"] = True
            if conditional:
                done["ok"] = False
            return
        if isinstance(n, (ast.Lambda, ast.ListComp, ast.SetComp, ast.DictComp, ast.GeneratorExp)):
            # bodies are evaluated later / repeatedly
            if any(x is tnode for x in ast.walk(n)):
                done["found"] = True
                done["ok"] = False
            return
        kids = _eval_children(n)
        for i, c in enumerate(kids):
            cond = conditional
            if isinstance(n, ast.BoolOp) and i > 0:
                cond = True
            if isinstance(n, ast.IfExp) and c is not n.test:
                cond = True
            if isinstance(n, ast.Compare) and i > 1:
                cond = True
            rec(c, cond)
            if done["found"]:
                return
        if isinstance(n, _EFFECT):
            # this effect completed and tnode has not been evaluated yet
            done["ok"] = False
    rec(root, False)
    return done["found"] and done["ok"]


def _stmt_roots(st):
    """The expression roots a statement evaluates immediately, in order
    (None for statements we do not inline into)."""
    if isinstance(st, (ast.Assign, ast.AugAssign, ast.AnnAssign)):
        return [st]
    if isinstance(st, (ast.Return, ast.Expr)):
        return [st.value] if st.value is not None else []
    if isinstance(st, ast.Raise):
        return [x for x in (st.exc, st.cause) if x is not None]
    if isinstance(st, ast.If):
        return [st.test]
    if isinstance(st, (ast.For, ast.AsyncFor)):
        return [st.iter]
    if isinstance(st, (ast.With, ast.AsyncWith)):
        return [st.items[0].context_expr] if st.items else []
    return None


class _Subst(ast.NodeTransformer):
    def __init__(self, tnode, value):
        self.tnode, self.value = tnode, value

    def visit_Name(self, n):
        return self.value if n is self.tnode else n


def _inline_temps(fn):
    changed = True
    rounds = 0
    while changed and rounds < 20:
        changed = False
        rounds += 1
        loads, stores, pinned = {}, {}, set()

        def count(node, shadow):
            for c in ast.iter_child_nodes(node):
                if isinstance(c, (ast.FunctionDef, ast.AsyncFunctionDef, ast.Lambda)):
                    inner = set(shadow)
                    a = c.args
                    inner |= {x.arg for x in a.posonlyargs + a.args + a.kwonlyargs}
                    if not isinstance(c, ast.Lambda):
                        for n in ast.walk(c):
                            if isinstance(n, ast.Name) and isinstance(n.ctx, ast.Store):
                                inner.add(n.id)
                        nl = {x for n in ast.walk(c) if isinstance(n, ast.Nonlocal) for x in n.names}
                        inner -= nl
                        # a closure reading an outer local keeps it alive: pin
                        for n in ast.walk(c):
                            if isinstance(n, ast.Name) and n.id not in inner:
                                pinned.add(n.id)
                    count(c, inner)
                    continue
                if isinstance(c, ast.Name) and c.id not in shadow:
                    if isinstance(c.ctx, ast.Load):
                        loads[c.id] = loads.get(c.id, 0) + 1
                    else:
                        stores[c.id] = stores.get(c.id, 0) + 1
                elif isinstance(c, (ast.Global, ast.Nonlocal)):
                    pinned.update(c.names)
                elif isinstance(c, ast.ExceptHandler) and c.name:
                    stores[c.name] = stores.get(c.name, 0) + 1
                elif isinstance(c, ast.arg):
                    pinned.add(c.arg)
                count(c, shadow)
        count(fn, set())

        def block(stmts):
            nonlocal changed
            i = 0
            while i + 1 < len(stmts):
                a, b = stmts[i], stmts[i + 1]
                if isinstance(a, ast.Assign) and len(a.targets) == 1 \
                        and isinstance(a.targets[0], ast.Name):
                    t = a.targets[0].id
                    if loads.get(t, 0) == 1 and stores.get(t, 0) == 1 and t not in pinned \
                            and not any(isinstance(x, (ast.Yield, ast.YieldFrom, ast.Await,
                                                       ast.NamedExpr, ast.Starred))
                                        for x in ast.walk(a.value)):
                        roots = _stmt_roots(b)
                        if roots:
                            uses = [x for r in roots for x in ast.walk(r)
                                    if isinstance(x, ast.Name) and x.id == t
                                    and isinstance(x.ctx, ast.Load)]
                            if len(uses) == 1:
                                # order of the roots: the use must come before any effect
                                okpos = False
                                for r in roots:
                                    if any(x is uses[0] for x in ast.walk(r)):
                                        okpos = _safe_position(r, uses[0])
                                        break
                                    if any(isinstance(x, _EFFECT) for x in ast.walk(r)):
                                        break
                                if okpos:
                                    _Subst(uses[0], a.value).visit(b)
                                    del stmts[i]
                                    loads[t] = 0
                                    changed = True
                                    continue
                i += 1
            for st in stmts:
                if isinstance(st, (ast.FunctionDef, ast.AsyncFunctionDef, ast.ClassDef)):
                    continue
                for f in ("body", "orelse", "finalbody"):
                    sub = getattr(st, f, None)
                    if isinstance(sub, list) and sub and isinstance(sub[0], ast.stmt):
                        block(sub)
                for h in getattr(st, "handlers", []) or []:
                    block(h.body)
                for c in getattr(st, "cases", []) or []:
                    block(c.body)
        block(fn.body)


# ---------------------------------------------------------------------------
# N5: a call of a small private helper is its body.  Only where that is exactly
# equivalent:
#   * the helper is a private (leading underscore) function of the same module
#     or method of the same class, defined once, undecorated (staticmethod
#     aside), not a generator, with no nested function, global or nonlocal;
#   * the call is a whole statement: `h(a)`, `x = h(a)`, `return h(a)`;
#   * every argument is a plain name / attribute chain / constant (evaluating
#     it twice or later changes nothing), positional, one per parameter;
#   * for `h(a)` and `x = h(a)` the helper has no `return` except, possibly, one
#     as its last statement; for `return h(a)` any returns are fine (tail call);
#   * the helper does not assign to its parameters and does not call itself.
_PURE_ARG = (ast.Name, ast.Constant)


def _pure_arg(e):
    if isinstance(e, _PURE_ARG):
        return True
    if isinstance(e, ast.Attribute):
        return _pure_arg(e.value)
    return False


def _own_nodes(fn):
    """Nodes of fn's body, not descending into nested defs/lambdas/classes."""
    stack = list(fn.body)
    while stack:
        n = stack.pop()
        yield n
        for c in ast.iter_child_nodes(n):
            if isinstance(c, (ast.FunctionDef, ast.AsyncFunctionDef, ast.Lambda, ast.ClassDef)):
                yield c
                continue
            stack.append(c)


def _helper_info(fn, closure=False):
    """None if fn cannot be inlined, else dict(params, body, tail_only)."""
    if fn.name.startswith("__") or (not closure and not fn.name.startswith("_")):
        return None
    decs = [ast.unparse(d) for d in fn.decorator_list]
    if any(d != "staticmethod" for d in decs):
        return None
    a = fn.args
    if a.vararg or a.kwarg or a.kwonlyargs or a.posonlyargs or a.defaults:
        return None
    params = [x.arg for x in a.args]
    is_method_self = bool(params) and params[0] == "self" and "staticmethod" not in decs
    body = list(fn.body)
    if body and isinstance(body[0], ast.Expr) and isinstance(body[0].value, ast.Constant) \
            and isinstance(body[0].value.value, str):
        body = body[1:]
    if not body or len(body) > 40:
        return None
    stored = set()
    returns = []
    for n in _own_nodes(fn):
        if isinstance(n, (ast.Yield, ast.YieldFrom, ast.Await, ast.Global, ast.Nonlocal,
                          ast.FunctionDef, ast.AsyncFunctionDef, ast.Lambda, ast.ClassDef)):
            return None
        if isinstance(n, ast.Name) and isinstance(n.ctx, (ast.Store, ast.Del)):
            stored.add(n.id)
        if isinstance(n, ast.ExceptHandler) and n.name:
            stored.add(n.name)
        if isinstance(n, ast.Return):
            returns.append(n)
        if isinstance(n, ast.Call):
            f = n.func
            if (isinstance(f, ast.Name) and f.id == fn.name) or \
                    (isinstance(f, ast.Attribute) and f.attr == fn.name):
                return None
        if isinstance(n, ast.Name) and n.id in ("locals", "vars", "super"):
            return None
    single_tail = (not returns) or (len(returns) == 1 and body[-1] is returns[0])
    return {"params": params, "self": is_method_self, "body": body, "locals": stored,
            "single_tail": single_tail, "name": fn.name,
            # parameters the helper re-binds (`if v is None: v = 0 ... return v`)
            "stored_params": stored & set(params)}


def _always_returns(stmts):
    if not stmts:
        return False
    last = stmts[-1]
    if isinstance(last, (ast.Return, ast.Raise)):
        return True
    if isinstance(last, ast.If) and last.orelse:
        return _always_returns(last.body) and _always_returns(last.orelse)
    if isinstance(last, ast.Try) and not last.finalbody:
        return (_always_returns(last.orelse) if last.orelse else _always_returns(last.body)) \
            and all(_always_returns(h.body) for h in last.handlers)
    return False


def _has_return(node_or_list):
    nodes = node_or_list if isinstance(node_or_list, list) else [node_or_list]
    return any(isinstance(n, ast.Return) for st in nodes for n in ast.walk(st))


def _structure_returns(stmts, make_assign):
    """The statements of a function body with every `return E` replaced by
    make_assign(E) and the code after an exiting guard moved into its `else:`, so
    that the result has NO return and assigns the value exactly where the function
    would have returned it.  None when a return sits in a loop / with / finally or
    after a construct that may or may not return (not expressible without a jump)."""
    out = []
    for i, st in enumerate(stmts):
        rest = stmts[i + 1:]
        if isinstance(st, ast.Return):
            out.append(make_assign(st.value if st.value is not None else ast.Constant(None)))
            return out                      # anything after is dead
        if not _has_return(st):
            out.append(st)
            continue
        if isinstance(st, ast.If):
            body_r, else_r = _always_returns(st.body), _always_returns(st.orelse) if st.orelse else False
            if body_r and not st.orelse:
                b = _structure_returns(st.body, make_assign)
                r = _structure_returns(rest, make_assign) if rest else [make_assign(ast.Constant(None))]
                if b is None or r is None:
                    return None
                out.append(ast.copy_location(ast.If(st.test, b, r), st))
                return out
            if st.orelse and (body_r or else_r) and not (body_r and else_r):
                # one arm exits, the other falls through to the rest
                if body_r:
                    b = _structure_returns(st.body, make_assign)
                    r = _structure_returns(list(st.orelse) + rest, make_assign)
                else:
                    b = _structure_returns(list(st.body) + rest, make_assign)
                    r = _structure_returns(st.orelse, make_assign)
                    if b is None or r is None:
                        return None
                    out.append(ast.copy_location(ast.If(st.test, b, r), st))
                    return out
                if b is None or r is None:
                    return None
                out.append(ast.copy_location(ast.If(st.test, b, r), st))
                return out
            if body_r and else_r:
                b = _structure_returns(st.body, make_assign)
                r = _structure_returns(st.orelse, make_assign)
                if b is None or r is None:
                    return None
                out.append(ast.copy_location(ast.If(st.test, b, r), st))
                return out
            return None
        if isinstance(st, ast.Try) and not st.finalbody and _always_returns([st]):
            nb = _structure_returns(st.body, make_assign)
            no = _structure_returns(st.orelse, make_assign) if st.orelse else []
            nh = []
            for h in st.handlers:
                hb = _structure_returns(h.body, make_assign)
                if hb is None:
                    return None
                nh.append(ast.copy_location(ast.ExceptHandler(h.type, h.name, hb), h))
            if nb is None or no is None:
                return None
            out.append(ast.copy_location(ast.Try(nb, nh, no, []), st))
            return out
        return None
    out.append(make_assign(ast.Constant(None)))
    return out


class _Ren(ast.NodeTransformer):
    def __init__(self, names, subst):
        self.names, self.subst = names, subst

    def visit_Name(self, n):
        if n.id in self.subst and isinstance(n.ctx, ast.Load):
            import copy
            return copy.deepcopy(self.subst[n.id])
        if n.id in self.names:
            n.id = self.names[n.id]
        return n

    def visit_ExceptHandler(self, h):
        if h.name in self.names:
            h.name = self.names[h.name]
        self.generic_visit(h)
        return h


def _inline_helpers(tree, known=frozenset()):
    """`known`: qualified names ("f", "Cls.m") of the functions that existed on
    the reference tree - the rules anchor on some of them by name, so only
    helpers that are NEW with respect to it are inlined (an extracted helper is
    folded back into the code it was cut out of)."""
    import copy
    modfuncs, dup = {}, set()
    clsfuncs = {}

    def index(body, cls):
        for st in body:
            if isinstance(st, (ast.FunctionDef,)):
                key = (cls, st.name)
                tbl = clsfuncs if cls else modfuncs
                k2 = key if cls else st.name
                if k2 in tbl:
                    dup.add(k2)
                tbl[k2] = st
            elif isinstance(st, ast.ClassDef) and cls is None:
                index(st.body, st.name)
            elif isinstance(st, (ast.If, ast.Try)):
                for f in ("body", "orelse", "finalbody"):
                    index(getattr(st, f, []) or [], cls)
                for h in getattr(st, "handlers", []) or []:
                    index(h.body, cls)
    index(tree.body, None)
    infos = {}

    def info_for(call, cls):
        f = call.func
        fn = None
        key = None
        if isinstance(f, ast.Name) and f.id in modfuncs and f.id not in dup:
            fn, key = modfuncs[f.id], f.id
        elif isinstance(f, ast.Attribute) and isinstance(f.value, ast.Name) and f.value.id == "self" \
                and cls and (cls, f.attr) in clsfuncs and (cls, f.attr) not in dup:
            fn, key = clsfuncs[(cls, f.attr)], (cls, f.attr)
        if fn is None:
            return None
        qn = key if isinstance(key, str) else f"{key[0]}.{key[1]}"
        if qn in known:
            return None
        if key not in infos:
            infos[key] = _helper_info(fn)
        inf = infos[key]
        if inf is None or call.keywords:
            return None
        params = inf["params"][1:] if inf["self"] else inf["params"]
        if isinstance(f, ast.Name) and inf["self"]:
            return None
        if len(call.args) != len(params) or not all(_pure_arg(a) for a in call.args):
            return None
        return inf, params

    counter = [0]
    scope = {"closures": {}, "qual": ""}

    def closure_info(call):
        f = call.func
        if not (isinstance(f, ast.Name) and f.id in scope["closures"]):
            return None
        fn = scope["closures"][f.id]
        qn = f"{scope['qual']}.{f.id}"
        if qn in known or call.keywords:
            return None
        # the enclosing function had a closure on the reference tree that is gone now:
        # this new one is most likely that closure renamed - a rule anchor, not a helper
        pref = scope["qual"] + "."
        ref_inner = {q for q in known if q.startswith(pref) and "." not in q[len(pref):]}
        if any(q[len(pref):] not in scope["closures"] for q in ref_inner):
            return None
        key = ("closure", id(fn))
        if key not in infos:
            infos[key] = _helper_info(fn, closure=True)
            closure_defs[key] = fn
        inf = infos[key]
        if inf is None or inf["self"]:
            return None
        params = inf["params"]
        if len(call.args) != len(params) or not all(_pure_arg(a) for a in call.args):
            return None
        return inf, params
    closure_defs = {}

    in_try = [0]

    def expand(call, cls, ctx_kind, target_stmt):
        r = closure_info(call) or info_for(call, cls)
        if r is None:
            return None
        inf, params = r
        structured = None
        if ctx_kind in ("expr", "assign") and not inf["single_tail"]:
            # several returns: structured conversion (`return E` -> `<target> = E`, code
            # after an exiting guard moved under its else), for `<name> = h(...)` only
            if not (ctx_kind == "assign" and len(target_stmt.targets) == 1
                    and isinstance(target_stmt.targets[0], ast.Name)
                    and not inf.get("stored_params")):
                return None
            # (the helper's own locals are renamed below, its parameters are replaced by
            # the argument expressions, and the result is assigned last on every path,
            # so the target's name cannot clash with anything)
            structured = _structure_returns(
                copy.deepcopy(inf["body"]),
                lambda v: ast.Assign([ast.Name("__result__", ast.Store())], v))
            if structured is None:
                return None
        names = {x: f"{inf['name'].lstrip('_')}__{x}" for x in inf["locals"]}
        direct = False
        inplace = None
        if inf.get("stored_params"):
            # `v = h(..., v)` where h re-binds its parameter and ends with `return <it>`:
            # h works on the caller's v itself (v is overwritten by the result anyway);
            # not inside a try of the caller, where a handler could observe v half-way
            sp = inf["stored_params"]
            last_ = inf["body"][-1] if inf["body"] else None
            if not (len(sp) == 1 and ctx_kind == "assign" and len(target_stmt.targets) == 1
                    and isinstance(target_stmt.targets[0], ast.Name)
                    and isinstance(last_, ast.Return) and isinstance(last_.value, ast.Name)
                    and last_.value.id in sp and not in_try[0]):
                return None
            pname = next(iter(sp))
            # params as seen by the call (self already dropped for methods)
            if pname not in params:
                return None
            arg = call.args[params.index(pname)] if params.index(pname) < len(call.args) else None
            if not (isinstance(arg, ast.Name) and arg.id == target_stmt.targets[0].id):
                return None
            inplace = (pname, arg.id)
        counter[0] += 1
        if ctx_kind == "assign" and inf["body"] and isinstance(inf["body"][-1], ast.Return) \
                and len(target_stmt.targets) == 1:
            # `a, b = h(x)` with `return p, q` (locals of h): h's locals p, q ARE a, b
            tg, rv = target_stmt.targets[0], inf["body"][-1].value
            tn = [tg] if isinstance(tg, ast.Name) else (list(tg.elts) if isinstance(tg, ast.Tuple) else [])
            rn = [rv] if isinstance(rv, ast.Name) else (list(rv.elts) if isinstance(rv, ast.Tuple) else [])
            if tn and len(tn) == len(rn) and all(isinstance(x, ast.Name) for x in tn + rn) \
                    and all(x.id in inf["locals"] for x in rn) \
                    and len({x.id for x in rn}) == len(rn) and len({x.id for x in tn}) == len(tn):
                tnames = {x.id for x in tn}
                others = set(inf["locals"]) - {x.id for x in rn}
                argnames = {n_.id for a_ in call.args for n_ in ast.walk(a_) if isinstance(n_, ast.Name)}
                if not (tnames & others) and not (tnames & argnames):
                    for r_, t_ in zip(rn, tn):
                        names[r_.id] = t_.id
                    direct = True
        subst = dict(zip(params, call.args))
        if inplace:
            names[inplace[0]] = inplace[1]
            subst.pop(inplace[0], None)
            direct = True
        if structured is not None:
            names = dict(names)
            names["__result__"] = target_stmt.targets[0].id
            body = [_Ren(names, subst).visit(st) for st in structured]
            for st_ in body:
                ast.fix_missing_locations(ast.copy_location(st_, target_stmt))
            return body
        body = [_Ren(names, subst).visit(copy.deepcopy(st)) for st in inf["body"]]
        if ctx_kind == "return":
            return body
        last = body[-1] if body and isinstance(body[-1], ast.Return) else None
        if last is not None:
            body = body[:-1]
        if ctx_kind == "expr":
            if last is not None and last.value is not None and not _pure_arg(last.value):
                body.append(ast.Expr(value=last.value))
            return body or [ast.Pass()]
        # assign
        if direct:
            return body or [ast.Pass()]
        val = last.value if (last is not None and last.value is not None) else ast.Constant(None)
        new = copy.copy(target_stmt)
        new.value = val
        return body + [new]

    def block(stmts, cls, depth):
        out = []
        for st in stmts:
            rep = None
            if depth < 3:
                if isinstance(st, ast.Expr) and isinstance(st.value, ast.Call):
                    rep = expand(st.value, cls, "expr", st)
                elif isinstance(st, ast.Assign) and isinstance(st.value, ast.Call):
                    rep = expand(st.value, cls, "assign", st)
                elif isinstance(st, ast.Return) and isinstance(st.value, ast.Call):
                    rep = expand(st.value, cls, "return", st)
            if rep is not None:
                for r in rep:
                    ast.copy_location(r, r) if hasattr(r, "lineno") else ast.copy_location(r, st)
                out.extend(block(rep, cls, depth + 1))
                continue
            is_try = isinstance(st, ast.Try)
            if is_try:
                in_try[0] += 1
            for f in ("body", "orelse", "finalbody"):
                sub = getattr(st, f, None)
                if isinstance(sub, list) and sub and isinstance(sub[0], ast.stmt) \
                        and not isinstance(st, ast.ClassDef):
                    setattr(st, f, block(sub, cls, depth))
            for h in getattr(st, "handlers", []) or []:
                h.body = block(h.body, cls, depth)
            if is_try:
                in_try[0] -= 1
            out.append(st)
        return out

    def walk_defs(body, cls, prefix=""):
        for st in body:
            if isinstance(st, (ast.FunctionDef, ast.AsyncFunctionDef)):
                q = f"{prefix}{st.name}"
                saved = dict(scope)
                scope["closures"] = {n.name: n for n in st.body
                                     if isinstance(n, ast.FunctionDef)}
                scope["qual"] = q
                st.body = block(st.body, cls, 0)
                # closures folded back everywhere disappear
                for nm, cfn in list(scope["closures"].items()):
                    key = ("closure", id(cfn))
                    if infos.get(key) is None:
                        continue
                    refs = sum(1 for n in ast.walk(st) if isinstance(n, ast.Name)
                               and n.id == nm and not any(n is x for x in ast.walk(cfn)))
                    if refs == 0 and cfn in st.body:
                        st.body.remove(cfn)
                scope.update(saved)
            elif isinstance(st, ast.ClassDef):
                walk_defs(st.body, st.name if cls is None else cls, f"{prefix}{st.name}.")
            elif isinstance(st, (ast.If, ast.Try, ast.With, ast.For, ast.While)):
                for f in ("body", "orelse", "finalbody"):
                    walk_defs(getattr(st, f, []) or [], cls, prefix)
                for h in getattr(st, "handlers", []) or []:
                    walk_defs(h.body, cls, prefix)
    walk_defs(tree.body, None)
    # a new helper whose every use was folded back is gone from the program
    used_keys = [k for k, v in infos.items() if v is not None
                 and not (isinstance(k, tuple) and k and k[0] == "closure")]
    for key in used_keys:
        name = key if isinstance(key, str) else key[1]
        fn = modfuncs[key] if isinstance(key, str) else clsfuncs[key]
        refs = 0
        for n in ast.walk(tree):
            if n is fn:
                continue
            if isinstance(n, ast.Name) and n.id == name:
                refs += 1
            elif isinstance(n, ast.Attribute) and n.attr == name:
                refs += 1
        inside = sum(1 for n in ast.walk(fn) if (isinstance(n, ast.Name) and n.id == name)
                     or (isinstance(n, ast.Attribute) and n.attr == name))
        if refs - inside == 0:
            for parent in ast.walk(tree):
                for f in ("body", "orelse", "finalbody"):
                    b = getattr(parent, f, None)
                    if isinstance(b, list) and fn in b:
                        b.remove(fn)
                        if not b:
                            b.append(ast.Pass())
    ast.fix_missing_locations(tree)


def _loops_to_comps(tree):
    """N7: `L = []` immediately followed by `for T in IT: [if C:] L.append(E)`
    (no else, nothing else in the body, L not read in IT/C/E, the loop targets
    not read afterwards in the enclosing function) becomes
    `L = [E for T in IT if C]` - the same list, built by the same iteration."""

    def names(node):
        return {n.id for n in ast.walk(node) if isinstance(n, ast.Name)}

    def rewrite(stmts, fn):
        i = 0
        while i < len(stmts) - 1:
            a, b = stmts[i], stmts[i + 1]
            i += 1
            if not (isinstance(a, ast.Assign) and len(a.targets) == 1
                    and isinstance(a.targets[0], ast.Name)
                    and isinstance(a.value, ast.List) and not a.value.elts):
                continue
            L = a.targets[0].id
            if not (isinstance(b, ast.For) and not b.orelse and len(b.body) == 1):
                continue
            inner, cond = b.body[0], None
            if isinstance(inner, ast.If) and not inner.orelse and len(inner.body) == 1:
                cond, inner = inner.test, inner.body[0]
            if not (isinstance(inner, ast.Expr) and isinstance(inner.value, ast.Call)
                    and isinstance(inner.value.func, ast.Attribute)
                    and inner.value.func.attr == "append"
                    and isinstance(inner.value.func.value, ast.Name)
                    and inner.value.func.value.id == L
                    and len(inner.value.args) == 1 and not inner.value.keywords):
                continue
            elt = inner.value.args[0]
            used = names(b.iter) | names(elt) | (names(cond) if cond is not None else set())
            if L in used or any(isinstance(n, (ast.Yield, ast.YieldFrom, ast.Await, ast.NamedExpr))
                                for x in (elt, b.iter) + ((cond,) if cond is not None else ())
                                for n in ast.walk(x)):
                continue
            tnames = names(b.target)
            # the loop variables must be dead after the loop
            if any(isinstance(n, ast.Name) and n.id in tnames and isinstance(n.ctx, ast.Load)
                   for st in _all_stmts_after(fn, b) for n in ast.walk(st)):
                continue
            comp = ast.ListComp(elt=elt, generators=[ast.comprehension(
                target=b.target, iter=b.iter, ifs=[cond] if cond is not None else [], is_async=0)])
            a.value = ast.copy_location(comp, b)
            del stmts[i]
            i -= 1

    def visit(node, fn):
        for f in ("body", "orelse", "finalbody"):
            sub = getattr(node, f, None)
            if isinstance(sub, list) and sub and isinstance(sub[0], ast.stmt):
                for st in list(sub):
                    visit(st, st if isinstance(st, (ast.FunctionDef, ast.AsyncFunctionDef)) else fn)
                if fn is not None:
                    rewrite(sub, fn)
        for h in getattr(node, "handlers", []) or []:
            visit(h, fn)

    visit(tree, None)


def _all_stmts_after(fn, stmt):
    """Statements of `fn` that can execute after `stmt` finished: everything that
    follows it in its own block and in the enclosing blocks, plus - when it sits
    in a loop - the whole loop (next iteration)."""
    out = []

    def rec(stmts):
        for k, st in enumerate(stmts):
            if st is stmt:
                out.extend(stmts[k + 1:])
                return True
            for f in ("body", "orelse", "finalbody"):
                sub = getattr(st, f, None)
                if isinstance(sub, list) and sub and isinstance(sub[0], ast.stmt) and rec(sub):
                    out.extend(stmts[k + 1:])
                    if isinstance(st, (ast.For, ast.AsyncFor, ast.While)):
                        out.append(st)
                    if isinstance(st, ast.Try):
                        out.extend(st.finalbody)
                        for h in st.handlers:
                            out.extend(h.body)
                    return True
            for h in getattr(st, "handlers", []) or []:
                if rec(h.body):
                    out.extend(stmts[k + 1:])
                    out.extend(st.finalbody)
                    return True
        return False
    rec(fn.body)
    return out


def _merge_ifs(tree):
    """N8: `if a: if b: X` (no else on either, nothing else in the outer body)
    becomes `if a and b: X`; consecutive `if a: S` `if b: S` with the SAME
    single exit statement S (return/raise/continue/break, no else) become
    `if a or b: S`.  Both keep the evaluation order of the tests."""

    def flat_and(a, b):
        vals = []
        for x in (a, b):
            if isinstance(x, ast.BoolOp) and isinstance(x.op, ast.And):
                vals.extend(x.values)
            else:
                vals.append(x)
        return ast.BoolOp(op=ast.And(), values=vals)

    def flat_or(a, b):
        vals = []
        for x in (a, b):
            if isinstance(x, ast.BoolOp) and isinstance(x.op, ast.Or):
                vals.extend(x.values)
            else:
                vals.append(x)
        return ast.BoolOp(op=ast.Or(), values=vals)

    def fix(stmts):
        for st in stmts:
            for f in ("body", "orelse", "finalbody"):
                sub = getattr(st, f, None)
                if isinstance(sub, list) and sub and isinstance(sub[0], ast.stmt):
                    fix(sub)
            for h in getattr(st, "handlers", []) or []:
                fix(h.body)
        for st in stmts:
            while isinstance(st, ast.If) and not st.orelse and len(st.body) == 1 \
                    and isinstance(st.body[0], ast.If) and not st.body[0].orelse:
                inner = st.body[0]
                st.test = ast.copy_location(flat_and(st.test, inner.test), st.test)
                st.body = inner.body
        i = 0
        while i < len(stmts) - 1:
            a, b = stmts[i], stmts[i + 1]
            if isinstance(a, ast.If) and isinstance(b, ast.If) and not a.orelse and not b.orelse \
                    and len(a.body) == 1 and len(b.body) == 1 \
                    and isinstance(a.body[0], (ast.Return, ast.Raise, ast.Continue, ast.Break)) \
                    and ast.dump(a.body[0]) == ast.dump(b.body[0]):
                a.test = ast.copy_location(flat_or(a.test, b.test), a.test)
                del stmts[i + 1]
                continue
            i += 1

    fix(tree.body)


def _one_ifexp_arg(call):
    """(index, is_keyword) of the single conditional-expression argument of a call
    whose callee and other arguments are plain names / attribute chains / constants
    (so that evaluating the test first changes nothing), else None."""
    def simple(e):
        while isinstance(e, ast.Attribute):
            e = e.value
        return isinstance(e, (ast.Name, ast.Constant))
    if not simple(call.func):
        return None
    found = None
    for i, a in enumerate(call.args):
        if isinstance(a, ast.IfExp):
            if found is not None:
                return None
            found = (i, False)
        elif not simple(a):
            return None
    for i, k in enumerate(call.keywords):
        if isinstance(k.value, ast.IfExp):
            if found is not None:
                return None
            found = (i, True)
        elif not simple(k.value):
            return None
    if found is None:
        return None
    ie = call.keywords[found[0]].value if found[1] else call.args[found[0]]
    if not (simple(ie.body) and simple(ie.orelse)):
        return None
    return found


def _ifexp_to_if(tree):
    """N9: a statement-level conditional expression becomes a conditional
    statement: `x = A if C else B` -> `if C: x = A` `else: x = B`, and
    `return A if C else B` -> `if C: return A` `else: return B` (same test, same
    single evaluation of the chosen operand).  Path rules then see ONE form."""
    import copy as _copy

    def fix(stmts):
        out = []
        for st in stmts:
            for f in ("body", "orelse", "finalbody"):
                sub = getattr(st, f, None)
                if isinstance(sub, list) and sub and isinstance(sub[0], ast.stmt):
                    setattr(st, f, fix(sub))
            for h in getattr(st, "handlers", []) or []:
                h.body = fix(h.body)
            v = getattr(st, "value", None)
            if isinstance(st, ast.Return) and isinstance(v, ast.IfExp):
                new = ast.If(v.test, [ast.copy_location(ast.Return(v.body), st)],
                             [ast.copy_location(ast.Return(v.orelse), st)])
                out.extend(fix([ast.copy_location(new, st)]))
            elif isinstance(st, ast.Expr) and isinstance(v, ast.Call) and _one_ifexp_arg(v) is not None:
                # `f(a, X if C else Y)` as a statement, f and the other arguments plain
                # names/constants: `if C: f(a, X)` `else: f(a, Y)`
                i_, kw_ = _one_ifexp_arg(v)
                ie_ = (v.keywords[i_].value if kw_ else v.args[i_])

                def with_arg(val):
                    c2 = _copy.deepcopy(v)
                    if kw_:
                        c2.keywords[i_].value = val
                    else:
                        c2.args[i_] = val
                    return ast.copy_location(ast.Expr(c2), st)
                new = ast.If(ie_.test, [with_arg(ie_.body)], [with_arg(ie_.orelse)])
                out.extend(fix([ast.copy_location(new, st)]))
            elif isinstance(st, ast.Assign) and isinstance(v, ast.IfExp) and len(st.targets) == 1 \
                    and isinstance(st.targets[0], ast.Name) \
                    and (isinstance(v.body, ast.Name) and v.body.id == st.targets[0].id
                         or isinstance(v.orelse, ast.Name) and v.orelse.id == st.targets[0].id):
                # `x = A if C else x`: the other arm is a no-op, not a re-binding
                tn = st.targets[0].id
                if isinstance(v.orelse, ast.Name) and v.orelse.id == tn:
                    test, val = v.test, v.body
                else:
                    test, val = ast.UnaryOp(op=ast.Not(), operand=v.test), v.orelse
                new = ast.If(test, [ast.copy_location(
                    ast.Assign([_copy.deepcopy(st.targets[0])], val), st)], [])
                out.extend(fix([ast.copy_location(new, st)]))
            elif isinstance(st, ast.Assign) and isinstance(v, ast.IfExp) and len(st.targets) == 1 \
                    and isinstance(st.targets[0], ast.Name):
                new = ast.If(v.test,
                             [ast.copy_location(ast.Assign([_copy.deepcopy(st.targets[0])], v.body), st)],
                             [ast.copy_location(ast.Assign([_copy.deepcopy(st.targets[0])], v.orelse), st)])
                out.extend(fix([ast.copy_location(new, st)]))
            else:
                out.append(st)
        return out

    for n in ast.walk(tree):
        if isinstance(n, (ast.FunctionDef, ast.AsyncFunctionDef)):
            n.body = fix(n.body)
    ast.fix_missing_locations(tree)


def _split_parallel_assign(tree):
    """N10: `a, b = X, Y` (tuple literal of the same length on the right, no target
    name read by any right-hand element, plain names on the left) becomes
    `a = X` `b = Y`: same values, same evaluation order."""
    def fix(stmts):
        out = []
        for st in stmts:
            for f in ("body", "orelse", "finalbody"):
                sub = getattr(st, f, None)
                if isinstance(sub, list) and sub and isinstance(sub[0], ast.stmt):
                    setattr(st, f, fix(sub))
            for h in getattr(st, "handlers", []) or []:
                h.body = fix(h.body)
            if isinstance(st, ast.Assign) and len(st.targets) == 1 \
                    and isinstance(st.targets[0], ast.Tuple) and isinstance(st.value, ast.Tuple) \
                    and len(st.targets[0].elts) == len(st.value.elts) >= 2 \
                    and all(isinstance(t, ast.Name) for t in st.targets[0].elts) \
                    and not any(isinstance(v, ast.Starred) for v in st.value.elts):
                tn = {t.id for t in st.targets[0].elts}
                reads = {n.id for v in st.value.elts for n in ast.walk(v) if isinstance(n, ast.Name)}
                if not (tn & reads) and len(tn) == len(st.targets[0].elts):
                    for t, v in zip(st.targets[0].elts, st.value.elts):
                        out.append(ast.copy_location(ast.Assign([t], v), st))
                    continue
            out.append(st)
        return out
    for n in ast.walk(tree):
        if isinstance(n, (ast.FunctionDef, ast.AsyncFunctionDef)):
            n.body = fix(n.body)
    ast.fix_missing_locations(tree)


class _Fmt(ast.NodeTransformer):
    """N6: one spelling for string building - "%s/%s/stat" % (a, b),
    "{}/{}/stat".format(a, b), a + "/stat", os.path.join(a, b, "stat") and
    nested f-strings all become ONE flat f-string.  %s/%d/{} placeholders
    format str/int/bytes operands exactly like an f-string placeholder;
    os.path.join() denotes the same file as the "/"-joined string whenever its
    later components are relative, which is how this code base uses it (PIDs,
    fixed leaf names, directory entries)."""

    @staticmethod
    def _fv(e):
        # str(x) inside a placeholder is what the placeholder does anyway
        if isinstance(e, ast.Call) and isinstance(e.func, ast.Name) and e.func.id == "str" \
                and len(e.args) == 1 and not e.keywords:
            e = e.args[0]
        return ast.FormattedValue(value=e, conversion=-1, format_spec=None)

    @staticmethod
    def _flat(values):
        out = []
        for v in values:
            if isinstance(v, ast.FormattedValue) and isinstance(v.value, ast.JoinedStr) \
                    and v.conversion == -1 and v.format_spec is None:
                out.extend(_Fmt._flat(v.value.values))
            elif isinstance(v, ast.FormattedValue) and isinstance(v.value, ast.Constant) \
                    and isinstance(v.value.value, str) and v.conversion == -1 \
                    and v.format_spec is None:
                out.append(ast.Constant(v.value.value))
            else:
                out.append(v)
        merged = []
        for v in out:
            if isinstance(v, ast.Constant) and merged and isinstance(merged[-1], ast.Constant):
                merged[-1] = ast.Constant(str(merged[-1].value) + str(v.value))
            elif isinstance(v, ast.Constant) and v.value == "":
                continue
            else:
                merged.append(v)
        return merged

    def _joined(self, like, values):
        return ast.copy_location(ast.JoinedStr(values=self._flat(values)), like)

    def visit_JoinedStr(self, n):
        self.generic_visit(n)
        n.values = self._flat(n.values)
        return n

    def visit_BinOp(self, n):
        self.generic_visit(n)
        if isinstance(n.op, ast.Mod) and isinstance(n.left, ast.Constant) \
                and isinstance(n.left.value, str):
            fmt = n.left.value
            import re as _re
            specs = _re.findall(r"%(.)", fmt)
            if specs and all(c in "sdi" for c in specs):
                ops = n.right.elts if isinstance(n.right, ast.Tuple) else (
                    [n.right] if len(specs) == 1 and not isinstance(
                        n.right, (ast.Dict, ast.List, ast.Constant)) else None)
                if ops is not None and len(ops) == len(specs) \
                        and not any(isinstance(o, ast.Starred) for o in ops):
                    pieces = _re.split(r"%[sdi]", fmt)
                    vals = [ast.Constant(pieces[0])]
                    for o, p in zip(ops, pieces[1:]):
                        vals += [self._fv(o), ast.Constant(p)]
                    return self._joined(n, vals)
        if isinstance(n.op, ast.Add):
            def pathlit(e):
                return isinstance(e, ast.Constant) and isinstance(e.value, str) and "/" in e.value
            def strish(e):
                return isinstance(e, ast.JoinedStr) or pathlit(e)
            if (pathlit(n.right) or pathlit(n.left) or isinstance(n.left, ast.JoinedStr)
                    and strish(n.right) or isinstance(n.right, ast.JoinedStr) and strish(n.left)) \
                    and not (isinstance(n.left, ast.Constant) and isinstance(n.right, ast.Constant)):
                vals = []
                for side in (n.left, n.right):
                    if isinstance(side, ast.Constant):
                        vals.append(side)
                    elif isinstance(side, ast.JoinedStr):
                        vals.extend(side.values)
                    else:
                        vals.append(self._fv(side))
                return self._joined(n, vals)
        return n

    def visit_Call(self, n):
        self.generic_visit(n)
        f = n.func
        if isinstance(f, ast.Attribute) and f.attr == "format" and isinstance(f.value, ast.Constant) \
                and isinstance(f.value.value, str) and not n.keywords and n.args \
                and not any(isinstance(a, ast.Starred) for a in n.args):
            fmt = f.value.value
            if fmt.count("{}") == len(n.args) and fmt.replace("{}", "").count("{") == 0 \
                    and fmt.replace("{}", "").count("}") == 0:
                pieces = fmt.split("{}")
                vals = [ast.Constant(pieces[0])]
                for o, p in zip(n.args, pieces[1:]):
                    vals += [self._fv(o), ast.Constant(p)]
                return self._joined(n, vals)
        if isinstance(f, ast.Attribute) and f.attr == "join" and isinstance(f.value, ast.Attribute) \
                and f.value.attr == "path" and isinstance(f.value.value, ast.Name) \
                and f.value.value.id == "os" and len(n.args) >= 2 and not n.keywords \
                and not any(isinstance(a, ast.Starred) for a in n.args) \
                and not any(isinstance(a, ast.Constant) and isinstance(a.value, str)
                            and a.value.startswith("/") for a in n.args[1:]):
            vals = []
            for i, a in enumerate(n.args):
                if i:
                    vals.append(ast.Constant("/"))
                if isinstance(a, ast.Constant) and isinstance(a.value, str):
                    vals.append(a)
                elif isinstance(a, ast.JoinedStr):
                    vals.extend(a.values)
                else:
                    vals.append(self._fv(a))
            return self._joined(n, vals)
        return n


def normalise(tree, known=None):
    import os as _os0
    if not _os0.environ.get("VERIF_NO_N6"):
        _Fmt().visit(tree)
        ast.fix_missing_locations(tree)
    _Cmp().visit(tree)
    if not _os0.environ.get("VERIF_NO_N10"):
        _split_parallel_assign(tree)
    for n in ast.walk(tree):
        if isinstance(n, (ast.FunctionDef, ast.AsyncFunctionDef)):
            _inline_return_temps(n)     # `t = A if C else B; return t` is a return, not an assignment
    if not _os0.environ.get("VERIF_NO_N9"):
        _ifexp_to_if(tree)      # before N4 can inline the temporary into an expression
    _If().visit(tree)
    if not _os0.environ.get("VERIF_NO_N8"):
        _merge_ifs(tree)
        ast.fix_missing_locations(tree)
    if not _os0.environ.get("VERIF_NO_N7"):
        _loops_to_comps(tree)
    import os as _os
    if not _os.environ.get("VERIF_NO_N5") and known is not None:
        _inline_helpers(tree, known)
    for n in ast.walk(tree):
        if isinstance(n, (ast.FunctionDef, ast.AsyncFunctionDef)):
            _inline_return_temps(n)
    if not _os.environ.get("VERIF_NO_N4"):
        for n in ast.walk(tree):
            if isinstance(n, (ast.FunctionDef, ast.AsyncFunctionDef)):
                _inline_temps(n)
        if not _os0.environ.get("VERIF_NO_N7"):
            # bodies that N4 reduced to a single append
            _loops_to_comps(tree)
            for n in ast.walk(tree):
                if isinstance(n, (ast.FunctionDef, ast.AsyncFunctionDef)):
                    _inline_return_temps(n)
    if not _os0.environ.get("VERIF_NO_N9"):
        _ifexp_to_if(tree)
        _If().visit(tree)
        if not _os0.environ.get("VERIF_NO_N8"):
            _merge_ifs(tree)
        ast.fix_missing_locations(tree)
    return tree
