"""Syntactic normal form, applied in place to every module right after parsing.

Each rewrite is semantics-preserving, so the analysed program is equivalent to
the one on disk; two spellings of the same code reach the rules as ONE shape:

  N1  a > b  -> b < a ;  a >= b -> b <= a        (pure operands)
      K == x -> x == K ; K != x -> x != K        (constant moved to the right)
  N2  if not C: A else: B   ->   if C: B else: A
  N3  t = E ; return t      ->   return E        (t not used anywhere else)

Pure operand = Name / Attribute chain / Constant / Subscript of those / unary
minus of those: evaluating them has no side effect and their order does not
matter.
"""

import ast


def _pure(e):
    if isinstance(e, (ast.Name, ast.Constant)):
        return True
    if isinstance(e, ast.Attribute):
        return _pure(e.value)
    if isinstance(e, ast.Subscript):
        return _pure(e.value) and _pure(e.slice)
    if isinstance(e, ast.UnaryOp) and isinstance(e.op, (ast.USub, ast.UAdd)):
        return _pure(e.operand)
    return False


def _is_const(e):
    return isinstance(e, ast.Constant) or (
        isinstance(e, ast.UnaryOp) and isinstance(e.op, ast.USub)
        and isinstance(e.operand, ast.Constant)) or (
        isinstance(e, ast.Attribute) and isinstance(e.value, ast.Name)
        and e.attr.isupper())


def _rank(e):
    """Operand order of == / !=: the more constant-like operand goes right.
    Two plain names keep their order (it cannot be fixed independently of how
    locals are called)."""
    if _is_const(e):
        return 3
    if isinstance(e, ast.Attribute):
        return 2
    if isinstance(e, ast.Subscript):
        return 1
    return 0


class _Cmp(ast.NodeTransformer):
    def visit_Compare(self, n):
        self.generic_visit(n)
        if len(n.ops) != 1:
            return n
        a, b, op = n.left, n.comparators[0], n.ops[0]
        if not (_pure(a) and _pure(b)):
            # one side may be a call: only move a literal constant to the right
            if isinstance(op, (ast.Eq, ast.NotEq)) and isinstance(a, ast.Constant) \
                    and not isinstance(b, ast.Constant):
                n.left, n.comparators = b, [a]
            return n
        if isinstance(op, ast.Gt):
            n.left, n.comparators, n.ops = b, [a], [ast.Lt()]
        elif isinstance(op, ast.GtE):
            n.left, n.comparators, n.ops = b, [a], [ast.LtE()]
        elif isinstance(op, (ast.Eq, ast.NotEq)):
            if _rank(a) > _rank(b):
                n.left, n.comparators = b, [a]
        return n


class _If(ast.NodeTransformer):
    def visit_If(self, n):
        self.generic_visit(n)
        while n.orelse and isinstance(n.test, ast.UnaryOp) and isinstance(n.test.op, ast.Not):
            n.test = n.test.operand
            n.body, n.orelse = n.orelse, n.body
        return n

    def visit_IfExp(self, n):
        self.generic_visit(n)
        while isinstance(n.test, ast.UnaryOp) and isinstance(n.test.op, ast.Not):
            n.test = n.test.operand
            n.body, n.orelse = n.orelse, n.body
        return n


def _inline_return_temps(fn):
    """N3 inside one function (nested functions are handled on their own).
    A name qualifies when EVERY read of it is a `return t` immediately preceded
    by `t = E` in the same block (so the value returned is always that E)."""
    loads, pinned = {}, set()

    def binds(f):
        out = {a.arg for a in f.args.posonlyargs + f.args.args + f.args.kwonlyargs}
        for n in ast.walk(f):
            if isinstance(n, ast.Name) and isinstance(n.ctx, ast.Store):
                out.add(n.id)
        return out

    def count(node, shadow):
        for c in ast.iter_child_nodes(node):
            if isinstance(c, (ast.FunctionDef, ast.AsyncFunctionDef, ast.Lambda)):
                inner = shadow | (binds(c) if not isinstance(c, ast.Lambda)
                                  else {a.arg for a in c.args.args})
                nl = {x for n in ast.walk(c) if isinstance(n, ast.Nonlocal) for x in n.names}
                count(c, inner - nl)
                continue
            if isinstance(c, ast.Name) and isinstance(c.ctx, ast.Load) and c.id not in shadow:
                loads[c.id] = loads.get(c.id, 0) + 1
            elif isinstance(c, (ast.Global, ast.Nonlocal)):
                pinned.update(c.names)
            count(c, shadow)
    count(fn, set())
    pairs = {}

    def scan(stmts, do):
        i = 0
        while i + 1 < len(stmts):
            a, b = stmts[i], stmts[i + 1]
            if isinstance(a, ast.Assign) and len(a.targets) == 1 \
                    and isinstance(a.targets[0], ast.Name) and isinstance(b, ast.Return) \
                    and isinstance(b.value, ast.Name) and b.value.id == a.targets[0].id \
                    and not any(isinstance(x, ast.Name) and x.id == b.value.id
                                for x in ast.walk(a.value)):
                if do is None:
                    pairs[b.value.id] = pairs.get(b.value.id, 0) + 1
                elif b.value.id in do:
                    b.value = a.value
                    del stmts[i]
                    continue
            i += 1
        for st in stmts:
            if isinstance(st, (ast.FunctionDef, ast.AsyncFunctionDef, ast.ClassDef)):
                continue
            for f in ("body", "orelse", "finalbody"):
                sub = getattr(st, f, None)
                if isinstance(sub, list) and sub and isinstance(sub[0], ast.stmt):
                    scan(sub, do)
            for h in getattr(st, "handlers", []) or []:
                scan(h.body, do)
            for c in getattr(st, "cases", []) or []:
                scan(c.body, do)
    scan(fn.body, None)
    ok = {t for t, k in pairs.items() if loads.get(t, 0) == k and t not in pinned}
    if ok:
        scan(fn.body, ok)


def normalise(tree):
    _Cmp().visit(tree)
    _If().visit(tree)
    for n in ast.walk(tree):
        if isinstance(n, (ast.FunctionDef, ast.AsyncFunctionDef)):
            _inline_return_temps(n)
    return tree
